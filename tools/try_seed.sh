#!/bin/bash
# usage: try_seed.sh <patch> <PROPERTY> [tier]   -- applies the patch to /repo, runs the check, restores /repo
set -u
PATCH="$1"; PROP="$2"; TIER="${3:-quick}"
cd /repo || exit 2
if [ -n "$(git status --porcelain --untracked-files=no)" ]; then echo "repo not clean"; exit 2; fi
git apply "$PATCH" || { echo "patch does not apply"; exit 2; }
# the evidence file describes the unchanged tree: the mutated run writes elsewhere
VERIF_EVIDENCE_DIR=/verif/out/seed-evidence /verif/check "$PROP" --tier "$TIER" > /tmp/try_seed.out 2>&1
RC=$?
git checkout -- .
# NB: the engine binary in /verif/engines/target is now the one built WITH the change; /verif/check rebuilds
# (cargo sees the restored sources), but a direct call of the binary would still run the seeded build.
echo "exit=$RC"
grep -c "^VIOLATION" /tmp/try_seed.out
grep "^VIOLATION\|kind=" /tmp/try_seed.out | head -6 | cut -c1-400
tail -1 /tmp/try_seed.out | cut -c1-300
