#!/bin/bash
# usage: seed_regression.sh [tier] [seed-id ...]
# Applies every stored seeded change (/verif/seeded/<ID>-<n>/patch.diff) to /repo in turn, runs the
# check of its property and prints DETECTED / MISSED. /repo is restored after each one.
# Never run this while anything else builds from /repo.
TIER="${1:-quick}"; shift
cd /verif
LIST="$@"; [ -z "$LIST" ] && LIST=$(ls seeded)
for s in $LIST; do
  prop=$(python3 -c "import json;print(json.load(open('/verif/seeded/$s/meta.json'))['property'])")
  if ! git -C /repo apply --check /verif/seeded/$s/patch.diff 2>/dev/null; then echo "$s $prop DOES-NOT-APPLY"; continue; fi
  out=$(tools/try_seed.sh /verif/seeded/$s/patch.diff $prop $TIER 2>&1)
  n=$(echo "$out" | grep -c "^VIOLATION property=$prop ")
  line=$(echo "$out" | grep -E "^$prop tier=" | tail -1 | sed 's/.*violations=\([0-9]*\).*/\1/')
  if [ "$n" -gt 0 ]; then echo "$s $prop DETECTED violations=$line"; else echo "$s $prop MISSED ($(echo "$out" | tail -1 | cut -c1-120))"; fi
  if [ -n "$(git -C /repo status --short)" ]; then echo "!! /repo not clean after $s"; git -C /repo checkout -- .; fi
done
