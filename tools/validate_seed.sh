#!/bin/bash
# usage: validate_seed.sh <agent-out-dir> <worktree-name> [--wasm-tests] [--pinned]
# Confirms: patch applies and compiles, demo fails with the patch and passes without it,
# optionally the crate's own tests / the pinned suite pass with the patch.
set -u
OUT="$1"; WT="/tmp/$2"; shift 2
git -C /repo worktree add -q --detach "$WT" HEAD || exit 2
H="$WT-harness"
rm -rf "$H"; cp -r "$OUT/demo" "$H"
sed -i "s#WORKTREE#$WT#g" "$H/Cargo.toml"
[ -f "$H/Cargo.lock" ] || cp /tmp/agent-harness-template/Cargo.lock "$H/Cargo.lock"
mkdir -p "$H/.cargo"; printf '[net]\noffline = true\n' > "$H/.cargo/config.toml"
run_demo() { (cd "$H" && cargo run --offline --release -j 8 >"$H/run.log" 2>&1; echo $?); }
echo "== demo WITHOUT patch (expect 0)"; R0=$(run_demo); echo "exit=$R0"; tail -3 "$H/run.log"
git -C "$WT" apply "$OUT/patch.diff" || { echo "patch does not apply"; exit 2; }
echo "== demo WITH patch (expect non-zero)"; R1=$(run_demo); echo "exit=$R1"; tail -3 "$H/run.log"
for a in "$@"; do
  case "$a" in
    --wasm-tests)
      mkdir -p "$WT/smart-contracts/wasm-transform/.cargo"
      printf '[net]\noffline = true\n[patch.crates-io]\nnum_enum = { path = "/tmp/agent-shims/num_enum" }\n' > "$WT/smart-contracts/wasm-transform/.cargo/config.toml"
      echo "== wasm-transform unit tests WITH patch"; (cd "$WT/smart-contracts/wasm-transform" && cargo test --offline --lib -j 8 2>&1 | grep "^test result") ;;
    --pinned)
      echo "== pinned suite WITH patch"; (cd "$WT/rust-src" && cargo test --workspace --offline -j 8 2>&1 | grep "^test result\|FAILED\|failed" | head -20) ;;
  esac
done
git -C /repo worktree remove --force "$WT"; rm -rf "$H"
echo "SUMMARY without=$R0 with=$R1"
