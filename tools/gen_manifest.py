#!/usr/bin/env python3
"""Regenerates /verif/MANIFEST.json from the table below (single source of truth)."""
import json, subprocess

props = [json.loads(l) for l in open('/verif/properties.jsonl')]
ids = [p['id'] for p in props]

def repo_hook_commits():
    out = subprocess.run(['git', '-C', '/repo', 'log', '--format=%h %s'], capture_output=True, text=True).stdout
    return [l.split()[0] for l in out.splitlines() if l.split(' ', 1)[1].startswith('verif hooks:')]

CHECKS = {
 'C01': dict(engine='mc-wasm', ref='DESIGN.md §5 C01',
   technique='bounded exhaustive enumeration of well-typed Wasm bodies (stateless DFS over reference-validator states) + full opcode x boundary-operand table, differential against a spec-transcribed reference interpreter',
   text='Every well-typed function body up to the stated length over the stated alphabets (control flow, locals, globals, calls, memory, i64) in a fixed module template is compiled by the real engine under both validation configurations and all metering variants and run on every argument tuple of a boundary alphabet, directly and as a callee; result, trap/no-trap, final memory and globals are compared with an independent reference interpreter. Additionally every numeric/memory opcode on every boundary operand tuple. Exhaustive within the bound, which is the strongest statement a differential method can make about a compiler; beyond the bound nothing is claimed.',
   note='Trusted: the reference validator/interpreter in /verif/engines/mc-wasm (transcribed from the Wasm 1.0 spec), the stand-in crates num_enum/slab. Not covered: bodies longer than the bound, constants outside the alphabet, deeper call graphs.'),
 'C02': dict(engine='mc-wasm', ref='DESIGN.md §5 C02',
   technique='bounded exhaustive enumeration of Wasm bodies x all distinguishing energy budgets (deviation enumeration), recording host, pinned cost tables',
   text='For every enumerated body, metered with cost V0 and V1: total energy charged equals the pinned cost schedule summed over the instructions the reference interpreter executes (plus the rest of the current segment on a trap), charged-so-far at every host call equals the executed cost, account_memory is observed before the memory grows, runs are deterministic, and for every budget at or one below each cumulative tick boundary the run stops out of energy at exactly that tick (or, with a sufficient budget, behaves identically with remaining = budget - total); interpreter steps are bounded by (2*charged+2)*code length.',
   note='Trusted: pinned cost tables in /verif/engines/mc-wasm/src/cost.rs (transcribed from the documentation of the pinned commit), reference interpreter, hook H3 step counter.'),
 'C09': dict(engine='mc-wasm', ref='DESIGN.md §5 C09',
   technique='exhaustive enumeration: valid prefixes x all <=2-symbol hostile tails vs. reference validator; boundary table of chain limits; complete byte-mutation neighbourhoods of seed modules; execution of accepted modules under bounds assertions',
   text='Accept <=> reference-valid is decided for every admissible instruction prefix followed by every one- or two-symbol tail from an alphabet that includes out-of-range indices, floats, sign-extension ops, misaligned accesses, reserved opcodes and code after the final end, in a full and a bare module, under V0 and V1; every chain restriction is probed at its boundary and one beyond; every truncation / byte replacement / +-1 / LEB padding of seed modules is parsed without panic, and every accepted module is executed with hook H2 bounds assertions on all exports.',
   note='Byte-level mutants are checked for totality and execution safety only. Trusted: reference validator, the expected verdicts of the limit table (from the documented constants), hook H2 assertions placed next to each unchecked access.'),
 'C13': dict(engine='mc-wasm', ref='DESIGN.md §5 C13',
   technique='bounded exhaustive enumeration of Wasm bodies x all subsets of interrupting host calls (deviation enumeration), differential against the uninterrupted / freshly compiled run',
   text='For every enumerated body and build: the serialised artifact parsed zero-copy and converted to owned behaves identically (result, trap, memory, tick sequence, host events) to the freshly compiled one and re-serialises byte-identically; for bodies with host calls every subset of call sites interrupts and is resumed with the same response, and outcome, memory, ticks and events equal the uninterrupted run; running twice gives identical observations.',
   note='Chain-level resume (v1::resume_receive with state) is covered by C14/C15 engines, not here. Trusted: the recording host; interrupts beyond the first 5-7 host calls of an execution never interrupt.'),
 'C03': dict(engine='mc-state', ref='DESIGN.md §5 C03',
   technique='explicit-state breadth-first search over operation histories of the real trie (state = history rebuilt by replay, canonical-state dedup) + undeduplicated stateless DFS; every step compared with an ordered-map reference model',
   text='All histories up to the completed depth over insert / overwrite / get_mut / set / delete / delete_prefix / iterate / next / delete_iter / checkpoint / rollback / commit / freeze+thaw on a 7-key alphabet of mutually prefixing and stem-splitting keys with inline and indirect values, from three initial states (empty, thawed in memory, thawed from the backing store). After every step: the operation result, point lookups, and the full ordered read-out of every live generation and of the originating persistent state are compared with a stack of BTreeMaps. Two dedup keys are used (exact structural identity at lower depth, model state + table sizes deeper) plus a search without any dedup.',
   note='Trusted: the BTreeMap model, hook H1 wrappers (forwarding only), the slab stand-in. Keys/values outside the alphabet and histories beyond the depth are not covered.'),
 'C04': dict(engine='mc-state', ref='DESIGN.md §5 C04',
   technique='explicit-state BFS over histories with every persistence deviation at every freeze point, independent re-implementation of the documented Merkle hash as oracle, all insertion orders of all small key sets, pinned vectors',
   text='The C03 search restricted to content operations with, at every freeze point, each of {plain, store+reload, store+reload+cache, serialize+deserialize, migrate}; the hash of every generation after every step, and of every persisted form, must equal an independent implementation of the documented hash over the canonical radix tree computed from the model map (so history, caching and format cannot influence it); contents and lookups survive every deviation; refreezing an unmodified traversed state reports 0 new bytes; every subset (<=4/6 keys) of an 8-key alphabet in every insertion order hashes canonically; data written by the pinned commit (serialised form and backing store) still loads to the pinned hash.',
   note='Trusted: the reference hash in /verif/engines/mc-state/src/model.rs (written from the doc comments), /verif/oracles/trie_golden.json (generated at the pinned commit).'),
 'C15': dict(engine='mc-state', ref='DESIGN.md §5 C15',
   technique='three exhaustive layers: all insert/delete words on the lock map vs. a multiset; explicit-state BFS over trie histories with up to 3 iterators; explicit-state BFS over InstanceState host-operation histories incl. interrupts vs. a handle/generation model',
   text='(1) every word up to depth 6/8 of insert/delete on the reference-counted prefix map, all queries after every step; (2) the trie history search with a lock-centred alphabet (iterators on equal, nested and disjoint prefixes; modifications at, under, above and beside them; checkpoint/rollback/commit): modifications under a live prefix are refused and leave the state unchanged, iterators yield exactly their snapshot in order, delete_iter releases exactly one lock; (3) the contract-visible InstanceState operations (lookup/create/delete/delete_prefix/iterate/next/delete/key/read/write/resize, foreign handles) interleaved with interrupts (no change, nested call rolled back, nested call committed) against a model of handles, incarnations and generation counters with the documented return encodings.',
   note='Trusted: hooks H1/H4 (forwarding only), the models in /verif/engines/mc-state. Contract-level end-to-end (through Wasm) is C14.'),
 'C06': dict(engine='mc-crypto', ref='DESIGN.md §5 C06',
   technique='exhaustive enumeration of access structures x signature maps against the threshold policy; complete bit-flip neighbourhoods of signed transactions; recomputation of digests, sizes and energies from bytes; all update signer sequences',
   text='252 access structures (credential indices from {0,1,255}, key sets / thresholds incl. thresholds above the number of keys, account threshold 1..3) x every signature map with <=3 (thorough 4) populated slots where each slot (also unregistered credential 7 / key 9) is valid, valid for another message, valid under another key, or bit-flipped: verify_data_signature and verify_signature_transaction_sign_hash must equal the 4-line policy. For 10 payload fixtures x a header alphabet: payload_size, sign hash (v0 and v1 prefix form), block-item hash, 60-byte header and the energy of construct::* equal the documented functions of the bytes; signing with sufficient keys verifies; every flipped bit of header||payload and of the signature part, every replaced registered key, a moved sponsor address, swapped sender/sponsor signatures, a missing sponsor signature and wrong key sets fail. Chain updates: every signer sequence (<=2/3 of 5 keys, with repetition, unauthorised and unregistered keys) is accepted by find_authorized_keys iff distinct, registered and authorised; the produced signatures verify only under their own key over SHA-256(header||payload) and for no flipped bit.',
   note='Thresholds 1..3 / indices {0,1,255} stand for 1..255. The library has no verifier for update instructions (the node verifies), so signer selection and per-key signatures over the documented digest are checked.'),
 'C07': dict(engine='mc-crypto', ref='DESIGN.md §5 C07',
   technique='exhaustive enumeration of statement shapes x witness alphabet x transcripts x contexts per sigma protocol with the complete single-component perturbation set; explicit enumeration of all transcript operation sequences up to depth 3/4 for framing injectivity',
   text='For dlog, com_eq, com_eq_different_groups, com_enc_eq, com_mult, com_lin, com_ineq, aggregate_dlog, vcom_eq, com_eq_sig, ps_sig_known (every known/public/committed pattern of length <=2/3), AndAdapter and ReplicateAdapter: every witness from {random, 0, 1, r-1}, repeated generators, vector sizes 0/1/2/5, under the legacy and the V1 transcript and contexts {"", "a", "ab"}: the proof verifies; it fails under every other context, the other transcript protocol, every single replaced public component (another element, identity, negation, double; vector entries swapped / dropped / appended), another valid instance, every flipped bit of the challenge and of the serialised response. Transcript framing: all sequences of <=3/4 operations over label/message/messages/each/final with label-determined types give pairwise distinct challenges (V1), modulo the API-defined identity final = message.',
   note='EncTrans is covered through C12; DlogEqual and DlogAndAggregateDlogsEqual are private unused modules. vcom_eq and ReplicateAdapter are only exercised on non-empty vectors (their documented precondition; observations O9/O10 in DESIGN.md). Hook H5 (ComLinSecret constructor).'),
 'C08': dict(engine='mc-crypto', ref='DESIGN.md §5 C08',
   technique='exhaustive enumeration of (revokers, threshold, version) configurations x all revoker subsets x counters at the limit boundary x revealed-attribute policies, with the complete single-field perturbation list of request, context and credential and a strided bit-flip neighbourhood of the serialised proofs; oracle = stated accept/reject and equality of the reconstructed identity',
   text='For every (number of revokers, threshold) configuration with n in 1..3 (thorough 1..5) under v0 and v1 identity objects: the real generate_pio(_v1) request validates, every single-field alteration of the request or its context fails validation; the signed identity object yields credentials for counters 0, 1, max-1, max (accepted by verify_cdi for new and existing accounts) and max+1 (rejected or unproducible), for empty / partial / full revealed policies; every subset of revokers of size >= threshold reconstructs exactly idCredPub (and the PRF key from the request data), every smaller subset does not; every listed single-field perturbation of the credential deployment info (values, commitments, each proof component, threshold, revoker set, provider identity, keys, address binding, global context, provider and revoker keys) and flipped proof bits make verify_cdi fail.',
   note='Secrets come from a seeded generator (VERIF_SEED). Configurations beyond 5 revokers and attribute lists other than the three fixtures are not covered. Initial-account (verify_initial_cdi) covered for v0 only.'),
 'C11': dict(engine='mc-crypto', ref='DESIGN.md §5 C11',
   technique='exhaustive grid of (bit width, batch size, boundary value, position) x transcripts, all ordered pairs/triples of a boundary alphabet for derived statements, all (set size, element/neighbour) combinations, complete context-perturbation list and single-bit-flip neighbourhood of serialised proofs; oracle = truth of the statement',
   text='Range proofs for n in {1,2,3,4,8,32,64} (thorough: 13 widths incl. non powers of two) x m in {1,2(,3,4)} on values 0, 1, 2^(n-1), 2^n-2, 2^n-1 (must prove and verify) and 2^n, 2^n+1, 2^64-1 (whatever the honest prover outputs must not verify) under the legacy and the V1 transcript; generator vectors one short / one long; a<=b on all ordered pairs and v in [a,b) on all triples of a boundary alphabet; set membership / non-membership for set sizes 1..5 (..16) with every element, both neighbours, below min and above max; every context perturbation (commitments, generators, keys, n, domain, version, transcript protocol) and every single-bit flip of the serialised proof must be rejected.',
   note='Soundness against a computing adversary is not decidable by enumeration; only the honest prover on false witnesses and the listed alterations are covered. Fixture randomness from VERIF_SEED.'),
 'C12': dict(engine='mc-crypto', ref='DESIGN.md §5 C12',
   technique='exhaustive enumeration of boundary amounts, all pairs (aggregation), all (balance, amount, index) triples (encrypted and secret-to-public transfers), complete component-perturbation list; oracle = integer arithmetic on plaintexts',
   text='Encrypt/decrypt for every chunk-boundary amount under two keys; aggregation of all pairs whose sum fits 64 bits decrypts to the sum (including low-chunk sums that carry); for every (balance, amount) pair from the alphabet and two indices: amount <= balance gives transfer data that verifies and whose remaining + transferred parts decrypt to the balance, amount > balance is not producible; same for secret-to-public; every replacement / negation / swap of every ciphertext component, index +-1, swapped or foreign proofs, swapped keys, altered balance ciphertext and another global context must fail verification.',
   note='One open known finding (F8: the index is not bound by verify_transfer_data) is listed in known_findings.jsonl. Two seeded key pairs; decryption table 2^16.'),
 'C19': dict(engine='mc-crypto', ref='DESIGN.md §5 C19',
   technique='exhaustive enumeration of all (key, message, signature) tuples, all multisets of <=3/4 (key, message) pairs verified against every multiset of the same size under the three aggregate verifiers, all proof-of-possession cross combinations, complete single-bit-flip neighbourhoods, all PS message vectors over a boundary scalar alphabet',
   text='BLS: 3 keys x 4 messages, every (signed, verified) combination accepts iff equal; aggregates of every multiset of <=3 (thorough 4) pairs from a 3x3 grid verified against every multiset of the same size with verify_aggregate_sig, _hybrid and _trusted_keys (accept iff equal multiset and the documented preconditions; variants agree where both apply); proofs of possession for all key/context cross combinations; bit flips of signature and key. VRF: all (key, message, proof) triples, determinism and distinctness of outputs, every bit flip of proof (640 bits), key and message. PS: known-message signing and blind issuance + unblinding for every vector of length <=2 (3) over {0,1,r-1,random}, verified against every other vector (valid iff equal up to zero padding), other key, altered components.',
   note='Unforgeability in general is a computational assumption; three seeded keys per scheme.'),
 'C20': dict(engine='mc-crypto', ref='DESIGN.md §5 C20',
   technique='exhaustive enumeration of boundary-scalar x point tuples per window size vs. naive sum; complete single-bit-flip neighbourhoods of encodings + scanned wrong-subgroup points; all (n, threshold, subset) sharing configurations; derivation grid vs. a SLIP-10 implementation written from the specification',
   text='Multi-exponentiation on G1, G2 and the ed25519 instance: all 1- and 2-tuples over ~40 boundary scalars (0, 1, r-1, 2^k-1/2^k/2^k+1 at window and limb boundaries, all-ones patterns) x points {g, 2g, -g, 0, h} for window sizes 1..8 and the default algorithm, reduced 3-tuples; encodings: every bit flip of every fixture point and of r-1, truncations, r / r+1 / 2^256-1, the first 16/64 on-curve points outside the subgroup: decode accepts only canonical group elements and re-encodes identically; hash_to_group deterministic, in the group, collision-free on 64 messages; secret sharing for n<=4 (6), every threshold and EVERY subset (>= t reconstructs in the field and in the exponent in any order, t-1 does not); key derivation grid (3 seeds x 2 networks x 3x3x3 indices) is deterministic, public matches secret, equals SLIP-10 on the documented path, all keys distinct.',
   note='Points other than the five fixtures and scalars outside the alphabet are not covered.'),
}

manifest = {
 "version": 1,
 "setup_cmd": "cd /verif/engines && CARGO_NET_OFFLINE=true cargo build --release --offline",
 "hooks": {
   "guard": "--cfg concordium_base_verif",
   "enable": "[build] rustflags = [\"--cfg\",\"concordium_base_verif\"] in /verif/engines/.cargo/config.toml; the engines depend on the /repo crates by path, so every check rebuilds them from the current working tree with the hooks on (own target dir /verif/engines/target)",
   "baseline_off_cmd": "cd /repo/rust-src && cargo test --workspace --no-fail-fast --offline",
   "source_commits": repo_hook_commits(),
   "add_only": True,
 },
 "engines": [
   {"name": "mc-wasm", "path": "/verif/engines/mc-wasm", "serves_properties": ["C01", "C02", "C09", "C13"],
    "kind_free_text": "bounded exhaustive Wasm program enumeration on the real concordium-wasm engine vs. reference validator/interpreter"},
   {"name": "mc-crypto", "path": "/verif/engines/mc-crypto", "serves_properties": ["C06", "C07", "C08", "C11", "C12", "C19", "C20"],
    "kind_free_text": "exhaustive configuration / boundary-input / single-component-perturbation enumeration on the real cryptographic code vs. truth predicates"},
   {"name": "mc-state", "path": "/verif/engines/mc-state", "serves_properties": ["C03", "C04", "C15"],
    "kind_free_text": "explicit-state search over operation histories of the real contract-state trie vs. ordered-map model and independent hash"},
 ],
 "checks": [],
 "notes": "All checks: /verif/check <ID> --tier quick|thorough; exit 0 held / 1 VIOLATION / 2 machinery error. Known findings: /verif/known_findings.jsonl. See DESIGN.md.",
 "not_applicable": [],
}
for pid in ids:
    if pid in CHECKS:
        c = CHECKS[pid]
        manifest["checks"].append({
          "property_id": pid,
          "quick_cmd": f"/verif/check {pid} --tier quick",
          "thorough_cmd": f"/verif/check {pid} --tier thorough",
          "evidence_file": f"/verif/evidence/{pid}.json",
          "replay_cmd_template": f"/verif/check {pid} --replay {{path}}",
          "engine": c['engine'],
          "level_claimed": {"category": "model_checking", "text": c['text'], "design_ref": c['ref']},
          "level_note": c['note'],
          "technique": c['technique'],
        })
    else:
        manifest["not_applicable"].append({"property_id": pid, "reason": "check not built yet (work in progress; the design in DESIGN.md §5 applies)"})
json.dump(manifest, open('/verif/MANIFEST.json', 'w'), indent=1)
print("checks:", [c['property_id'] for c in manifest['checks']])
