#!/usr/bin/env python3
"""Regenerates /verif/MANIFEST.json from the table below (single source of truth)."""
import json, subprocess

props = [json.loads(l) for l in open('/verif/properties.jsonl')]
ids = [p['id'] for p in props]

def repo_hook_commits():
    out = subprocess.run(['git', '-C', '/repo', 'log', '--format=%h %s'], capture_output=True, text=True).stdout
    return [l.split()[0] for l in out.splitlines() if l.split(' ', 1)[1].startswith('verif hooks:')]

CHECKS = {
 'C01': dict(engine='mc-wasm', ref='DESIGN.md §5 C01',
   technique='bounded exhaustive enumeration of well-typed Wasm bodies (stateless DFS over reference-validator states) + full opcode x boundary-operand table, differential against a spec-transcribed reference interpreter',
   text='Every well-typed function body up to the stated length over the stated alphabets (control flow, locals, globals, calls, memory, i64) in a fixed module template is compiled by the real engine under both validation configurations and all metering variants and run on every argument tuple of a boundary alphabet, directly and as a callee; result, trap/no-trap, final memory and globals are compared with an independent reference interpreter. Additionally every numeric/memory opcode on every boundary operand tuple. Exhaustive within the bound, which is the strongest statement a differential method can make about a compiler; beyond the bound nothing is claimed.',
   note='Trusted: the reference validator/interpreter in /verif/engines/mc-wasm (transcribed from the Wasm 1.0 spec), the stand-in crates num_enum/slab. Not covered: bodies longer than the bound, constants outside the alphabet, deeper call graphs.'),
 'C02': dict(engine='mc-wasm', ref='DESIGN.md §5 C02',
   technique='bounded exhaustive enumeration of Wasm bodies x all distinguishing energy budgets (deviation enumeration), recording host, pinned cost tables',
   text='For every enumerated body, metered with cost V0 and V1: total energy charged equals the pinned cost schedule summed over the instructions the reference interpreter executes (plus the rest of the current segment on a trap), charged-so-far at every host call equals the executed cost, account_memory is observed before the memory grows, runs are deterministic, and for every budget at or one below each cumulative tick boundary the run stops out of energy at exactly that tick (or, with a sufficient budget, behaves identically with remaining = budget - total); interpreter steps are bounded by (2*charged+2)*code length.',
   note='Trusted: pinned cost tables in /verif/engines/mc-wasm/src/cost.rs (transcribed from the documentation of the pinned commit), reference interpreter, hook H3 step counter.'),
 'C09': dict(engine='mc-wasm', ref='DESIGN.md §5 C09',
   technique='exhaustive enumeration: valid prefixes x all <=2-symbol hostile tails vs. reference validator; boundary table of chain limits; complete byte-mutation neighbourhoods of seed modules; execution of accepted modules under bounds assertions',
   text='Accept <=> reference-valid is decided for every admissible instruction prefix followed by every one- or two-symbol tail from an alphabet that includes out-of-range indices, floats, sign-extension ops, misaligned accesses, reserved opcodes and code after the final end, in a full and a bare module, under V0 and V1; every chain restriction is probed at its boundary and one beyond; every truncation / byte replacement / +-1 / LEB padding of seed modules is parsed without panic, and every accepted module is executed with hook H2 bounds assertions on all exports.',
   note='Byte-level mutants are checked for totality and execution safety only. Trusted: reference validator, the expected verdicts of the limit table (from the documented constants), hook H2 assertions placed next to each unchecked access.'),
 'C13': dict(engine='mc-wasm', ref='DESIGN.md §5 C13',
   technique='bounded exhaustive enumeration of Wasm bodies x all subsets of interrupting host calls (deviation enumeration), differential against the uninterrupted / freshly compiled run',
   text='For every enumerated body and build: the serialised artifact parsed zero-copy and converted to owned behaves identically (result, trap, memory, tick sequence, host events) to the freshly compiled one and re-serialises byte-identically; for bodies with host calls every subset of call sites interrupts and is resumed with the same response, and outcome, memory, ticks and events equal the uninterrupted run; running twice gives identical observations.',
   note='Chain-level resume (v1::resume_receive with state) is covered by C14/C15 engines, not here. Trusted: the recording host; interrupts beyond the first 5-7 host calls of an execution never interrupt.'),
}

manifest = {
 "version": 1,
 "setup_cmd": "cd /verif/engines && CARGO_NET_OFFLINE=true cargo build --release --offline",
 "hooks": {
   "guard": "--cfg concordium_base_verif",
   "enable": "[build] rustflags = [\"--cfg\",\"concordium_base_verif\"] in /verif/engines/.cargo/config.toml; the engines depend on the /repo crates by path, so every check rebuilds them from the current working tree with the hooks on (own target dir /verif/engines/target)",
   "baseline_off_cmd": "cd /repo/rust-src && cargo test --workspace --no-fail-fast --offline",
   "source_commits": repo_hook_commits(),
   "add_only": True,
 },
 "engines": [
   {"name": "mc-wasm", "path": "/verif/engines/mc-wasm", "serves_properties": ["C01", "C02", "C09", "C13"],
    "kind_free_text": "bounded exhaustive Wasm program enumeration on the real concordium-wasm engine vs. reference validator/interpreter"},
 ],
 "checks": [],
 "notes": "All checks: /verif/check <ID> --tier quick|thorough; exit 0 held / 1 VIOLATION / 2 machinery error. Known findings: /verif/known_findings.jsonl. See DESIGN.md.",
 "not_applicable": [],
}
for pid in ids:
    if pid in CHECKS:
        c = CHECKS[pid]
        manifest["checks"].append({
          "property_id": pid,
          "quick_cmd": f"/verif/check {pid} --tier quick",
          "thorough_cmd": f"/verif/check {pid} --tier thorough",
          "evidence_file": f"/verif/evidence/{pid}.json",
          "replay_cmd_template": f"/verif/check {pid} --replay {{path}}",
          "engine": c['engine'],
          "level_claimed": {"category": "model_checking", "text": c['text'], "design_ref": c['ref']},
          "level_note": c['note'],
          "technique": c['technique'],
        })
    else:
        manifest["not_applicable"].append({"property_id": pid, "reason": "check not built yet (work in progress; the design in DESIGN.md §5 applies)"})
json.dump(manifest, open('/verif/MANIFEST.json', 'w'), indent=1)
print("checks:", [c['property_id'] for c in manifest['checks']])
