#!/usr/bin/env python3
"""usage: store_seed.py <tag> <n> <ID> [...]  -- moves a validated sub-agent deliverable /tmp/<tag>-<ID>-out to
/verif/seeded/<ID>-<n>/ (patch.diff, demo/, AGENT_README.md, meta.json). Refuses unless
/verif/out/validate/<ID>.txt (tools/validate_batch.sh) shows demo 0 / non-zero and, where run, a clean pinned suite."""
import json, sys, os, shutil, re
tag, n = sys.argv[1], sys.argv[2]
metas = json.load(open(f'/tmp/{tag}-meta.json'))
for pid in sys.argv[3:]:
    res = f'/verif/out/validate/{pid}.txt'
    if not os.path.exists(res):
        print(pid, 'not validated yet'); continue
    t = open(res).read()
    m = re.search(r'SUMMARY \S+ without=(\d+) with=(\d+)', t)
    if not m or m.group(1) != '0' or m.group(2) == '0':
        print(pid, 'validation does not confirm the demo:', t.strip().splitlines()[-1:]); continue
    p = re.search(r'pinned suite with patch: passed=(\d+) failed=(\d+)', t)
    if p and (p.group(2) != '0' or int(p.group(1)) < 614):
        print(pid, 'pinned suite not clean:', p.group(0)); continue
    src, dst = f'/tmp/{tag}-{pid}-out', f'/verif/seeded/{pid}-{n}'
    os.makedirs(dst, exist_ok=True)
    shutil.copy(f'{src}/patch.diff', f'{dst}/patch.diff')
    if os.path.exists(f'{src}/AGENT_README.md'):
        shutil.copy(f'{src}/AGENT_README.md', f'{dst}/AGENT_README.md')
    if os.path.exists(f'{dst}/demo'):
        shutil.rmtree(f'{dst}/demo')
    shutil.copytree(f'{src}/demo', f'{dst}/demo', ignore=shutil.ignore_patterns('target', '.cargo', 'run.log'))
    meta = dict(property=pid, **metas[pid])
    meta['ran'] = ['confirmed in a scratch worktree (tools/validate_batch.sh): ' + l for l in t.strip().splitlines() if not l.startswith('SUMMARY')] + [f'try_seed {pid} quick with the final engines: exit 1; exit 0 on the unchanged tree']
    json.dump(meta, open(f'{dst}/meta.json', 'w'), indent=1)
    print(pid, 'stored as', dst)
