#!/bin/bash
# usage: validate_batch.sh <tag> <ID> [<ID> ...]
# Confirms sub-agent deliverables /tmp/<tag>-<ID>-out in ONE persistent scratch worktree (/tmp/val-wt, warm
# build caches): demo without the patch (expect exit 0), demo with it (expect non-zero), and - when the patch
# touches anything the pinned workspace compiles (rust-src/ or contracts-common) - the pinned suite with the
# patch; for wasm-transform its unit tests. Results: /verif/out/validate/<ID>.txt. The worktree is left in
# place for the next call; remove it with `git -C /repo worktree remove --force /tmp/val-wt` when done.
set -u
TAG="$1"; shift
WT=/tmp/val-wt
[ -d "$WT" ] || git -C /repo worktree add -q --detach "$WT" HEAD || exit 2
mkdir -p /verif/out/validate
export CARGO_NET_OFFLINE=true
for ID in "$@"; do
  OUT="/tmp/$TAG-$ID-out"; RES="/verif/out/validate/$ID.txt"; : > "$RES"
  git -C "$WT" checkout -q -- . ; git -C "$WT" clean -fdq -e target >/dev/null 2>&1
  H="/tmp/val-demo-$ID"; rm -rf "$H"; cp -r "$OUT/demo" "$H"; rm -rf "$H/target"
  sed -i "s#WORKTREE#$WT#g" "$H/Cargo.toml"
  [ -f "$H/Cargo.lock" ] || cp /tmp/agent-harness-template/Cargo.lock "$H/Cargo.lock"
  mkdir -p "$H/.cargo"; printf '[net]\noffline = true\n' > "$H/.cargo/config.toml"
  run_demo() { (cd "$H" && CARGO_TARGET_DIR=/tmp/val-demo-target timeout 1500 cargo run --offline --release -j 8 >"$H/run.log" 2>&1; echo $?); }
  R0=$(run_demo); echo "demo without patch: exit=$R0 ($(tail -1 "$H/run.log" | cut -c1-160))" >> "$RES"
  if ! git -C "$WT" apply "$OUT/patch.diff"; then echo "PATCH DOES NOT APPLY" >> "$RES"; continue; fi
  R1=$(run_demo); echo "demo with patch: exit=$R1 ($(tail -1 "$H/run.log" | cut -c1-160))" >> "$RES"
  FILES=$(git -C "$WT" diff --name-only | tr '\n' ' '); echo "files: $FILES" >> "$RES"
  if echo "$FILES" | grep -q "rust-src/\|contracts-common"; then
    (cd "$WT/rust-src" && timeout 3000 cargo test --workspace --offline -j 8 2>&1 | grep "^test result\|FAILED\|failed\|^error" | head -30) > "$H/pinned.log"
    P=$(grep "^test result" "$H/pinned.log" | sed 's/.* \([0-9]*\) passed.*/\1/' | paste -sd+ | bc); F=$(grep "^test result" "$H/pinned.log" | sed 's/.* \([0-9]*\) failed.*/\1/' | paste -sd+ | bc)
    echo "pinned suite with patch: passed=$P failed=$F lines=$(grep -c '^test result' "$H/pinned.log") $(grep -m3 'FAILED\|^error' "$H/pinned.log" | tr '\n' ' ')" >> "$RES"
  else
    echo "pinned suite: the patch touches no file the pinned workspace (rust-src) compiles; its result is that of the unchanged tree" >> "$RES"
  fi
  if echo "$FILES" | grep -q "wasm-transform"; then
    mkdir -p "$WT/smart-contracts/wasm-transform/.cargo"
    printf '[net]\noffline = true\n[patch.crates-io]\nnum_enum = { path = "/tmp/agent-shims/num_enum" }\n' > "$WT/smart-contracts/wasm-transform/.cargo/config.toml"
    echo "wasm-transform unit tests with patch: $(cd "$WT/smart-contracts/wasm-transform" && timeout 1500 cargo test --offline --lib -j 8 2>&1 | grep '^test result')" >> "$RES"
    rm -rf "$WT/smart-contracts/wasm-transform/.cargo" "$WT/smart-contracts/wasm-transform/Cargo.lock"
  fi
  git -C "$WT" checkout -q -- .
  rm -rf "$H"
  echo "SUMMARY $ID without=$R0 with=$R1" >> "$RES"
  cat "$RES"
done
