#!/usr/bin/env python3
"""usage: mk_agent_prompt.py <PROPERTY-ID> <round-tag>
Prints the brief for a seed-writing sub-agent: the property text, its scratch worktree, the
deliverable format. Earlier changes of the same property are named in one line each so the
new one is of a different kind. Nothing about the checks in /verif is given away."""
import json, sys, glob, os

pid, tag = sys.argv[1], sys.argv[2]
prop = None
for l in open('/verif/properties.jsonl'):
    p = json.loads(l)
    if p['id'] == pid:
        prop = p
wt = f"/tmp/{tag}-{pid}"
out = f"/tmp/{tag}-{pid}-out"
earlier = []
for m in sorted(glob.glob(f'/verif/seeded/{pid}-*/meta.json')):
    try:
        earlier.append(json.load(open(m))['summary'])
    except Exception:
        pass
wasm = any('smart-contracts' in f for f in prop['anchors']['files'])
print(f"""You are helping to evaluate a verification effort for the open-source repository Concordium/concordium-base (Rust). Your job is to play a careless-but-plausible maintainer: produce ONE realistic source change that BREAKS the semantic property below while the code still compiles and the repository's existing test suite still passes, plus a small demonstration program that fails with the change and passes without it.

## The property

Title: {prop['title']}

Statement: {prop['statement']}

Quantifier: {prop['quantifier']['text']}

Code it is anchored in (start reading there; the change may be anywhere in the repository's Rust sources that these depend on):
{chr(10).join('  - ' + f for f in prop['anchors']['files'])}
Mechanisms: {'; '.join(m['name'] + ' (' + m['where'] + ')' for m in prop['anchors']['mechanism'])}

## Your working copy

A scratch git worktree of the repository is at `{wt}` (already created, detached HEAD). Work ONLY there and in `{out}` (create it). Do NOT read or touch `/repo`, `/verif`, or any other `/tmp/*` worktree — your change has to be independent of anything there. The sandbox has no network; cargo must be run with `--offline`. Use at most `-j 4` for cargo builds (other jobs share the machine).

## Requirements for the change

1. It breaks the property for SOME inputs / histories / configurations, and it needs something specific to manifest: an unusual but legal input, a boundary value visible in the code (a constant, a chunk size, a threshold, an index), a multi-step sequence of operations, a particular combination of two features, or two cooperating sites that each look fine alone. Ordinary use — and everything the existing tests do — must behave exactly as before. Do NOT make a change that ordinary use would expose at once.
2. It looks like something a maintainer could plausibly commit: a refactoring slip, an "optimisation", an off-by-one, a wrong operator, a misplaced check, a lost length comparison, state shared or cached where it should not be, a cursor advanced at the wrong moment. No `if input == magic` special-casing, no comments that give it away, no dead code, keep it small (normally under ~40 changed lines, source files only; do not edit or add tests in the repository).
3. The code compiles without new warnings-as-errors and the existing test suite still passes with the change: run `cd {wt}/rust-src && cargo test --workspace --offline -j 4` and report the totals (this takes a while; run it once when you believe you are done, and again if you change the patch).{' The smart-contract crates under `smart-contracts/` (wasm-transform, wasm-chain-integration) are not part of that workspace and do not build on their own offline; they do build as path dependencies of a small harness crate (see below). If your change is in `smart-contracts/wasm-transform`, additionally run its unit tests: create `' + wt + '/smart-contracts/wasm-transform/.cargo/config.toml` containing `[net]` / `offline = true` and `[patch.crates-io]` / `num_enum = { path = "/tmp/agent-shims/num_enum" }`, run `cargo test --offline --lib -j 4` there, and delete that `.cargo` directory again before producing the patch.' if wasm else ''}
4. It must be of a DIFFERENT KIND and in a different place than these earlier changes that others already made for this property (do not repeat or vary them):
{chr(10).join('   - ' + s for s in earlier) if earlier else '   (none)'}

## The demonstration

A small stand-alone cargo binary crate. Start from the template: `cp -r /tmp/agent-harness-template {out}/demo`, then edit `{out}/demo/Cargo.toml` so that the path dependencies point into your worktree (replace the literal word `WORKTREE` by `{wt}`; keep the `[patch.crates-io]` section and the `[workspace]` line as they are; keep only the dependencies you need; the template's `Cargo.lock` already covers them — build with `cargo run --release --offline -j 4`). `src/main.rs` exercises the PUBLIC API of the repository's crates, checks the property on the specific inputs your change needs, prints what it observed, and exits 0 when the property holds and non-zero (e.g. `std::process::exit(1)` or a failed assertion) when it is broken. It must exit 0 on the unchanged code and non-zero with your change, deterministically. Run it both ways yourself (`git -C {wt} stash` / `stash pop`, or `git apply -R`).

## Deliverables (in `{out}/`)

- `patch.diff`: output of `git -C {wt} diff` (source changes only — make sure no `.cargo`, `target`, or lock files are in it).
- `demo/`: the crate (Cargo.toml, Cargo.lock, src/; no `target` directory). In the DELIVERED `demo/Cargo.toml` put the literal word `WORKTREE` back in place of `{wt}` in the dependency paths.
- `AGENT_README.md`: what the change is and where, why it breaks the property, exactly what is needed for it to manifest (and what does NOT expose it), the test-suite totals you observed with the change, and the demo's output with and without the change.

When you are finished: delete every `target` directory you created under `{wt}` and `{out}` (disk is limited), leave the worktree in place with your change applied, and reply with a short summary: the file(s) and function(s) changed, the one-sentence nature of the change, what it needs in order to manifest, test totals, demo exit codes with / without. If after a serious effort you cannot find a change that satisfies all the requirements, say so plainly instead of delivering a weaker one.""")
