//! Layer 4 of the v1 host interface: executions that are interrupted (`invoke`, `upgrade`),
//! answered by the chain and resumed -- what must survive an interrupt (return value, entry
//! handles and iterators of the same generation, parameters, the nesting budget), what must not
//! (handles after a state update, logs already handed over) -- and the limit on call depth.
use super::*;
use super::ast::BT;

fn c(f: F, a: &[u64]) -> Call { Call { f, args: a.iter().map(|x| Arg::C(*x)).collect() } }

fn interrupts() -> Vec<Call> {
    vec![
        // transfer of 40 well-formed bytes
        c(F::Invoke, &[0, SRC as u64, 40]),
        // call of another contract
        c(F::Invoke, &[1, CALLARGS as u64, CALLARGS_LEN as u64]),
        // account balance query (does not hand over the logs)
        c(F::Invoke, &[2, SRC as u64, 32]),
        c(F::Upgrade, &[SRC as u64]),
    ]
}

fn answers(full: bool) -> Vec<Answer> {
    let mut v = vec![];
    let ok = |b: u64, d: Option<Vec<u8>>| Resp::Success { new_balance: b, data: d };
    for su in [false, true] {
        v.push(Answer { resp: ok(77, None), state_updated: su });
        v.push(Answer { resp: ok(u64::MAX, Some(vec![0xD0, 0xD1, 0xD2, 0xD3, 0xD4, 0xD5, 0xD6])), state_updated: su });
        if full {
            v.push(Answer { resp: ok(0, Some(vec![])), state_updated: su });
            // longer than any parameter a contract may send
            v.push(Answer { resp: ok(1, Some((0..70_000u32).map(|i| (i % 251) as u8).collect())), state_updated: su });
        }
    }
    v.push(Answer { resp: Resp::Reject { code: -1, data: vec![1, 2, 3] }, state_updated: false });
    v.push(Answer { resp: Resp::Fail(1), state_updated: false });
    if full {
        v.push(Answer { resp: Resp::Reject { code: i32::MIN, data: vec![] }, state_updated: false });
        for k in 2..=0xb {
            v.push(Answer { resp: Resp::Fail(k), state_updated: false });
        }
    }
    v
}

/// What a section may leave behind for the next one. `Res(0)`, `Res(1)` are entry handles,
/// `Res(2)` an iterator (the common prefix).
fn carried() -> Vec<Option<Call>> {
    vec![
        None,
        Some(c(F::LogEvent, &[SRC as u64, 3])),
        Some(c(F::WriteOutput, &[SRC as u64, 6, 0])),
        Some(c(F::StateCreateEntry, &[KEYS as u64 + 3, 1])),
        Some(c(F::StateCreateEntry, &[KEYS as u64 + 4, 2])),
        Some(c(F::StateDeleteEntry, &[KEYS as u64, 2])),
        Some(c(F::StateDeleteEntry, &[KEYS as u64 + 2, 1])),
        Some(c(F::StateDeletePrefix, &[KEYS as u64 + 2, 1])),
        Some(Call { f: F::StateEntryWrite, args: vec![Arg::Res(0), Arg::C(SRC as u64), Arg::C(4), Arg::C(1)] }),
        Some(Call { f: F::StateEntryResize, args: vec![Arg::Res(1), Arg::C(3)] }),
        Some(Call { f: F::StateIteratorNext, args: vec![Arg::Res(2)] }),
        Some(Call { f: F::StateIteratorDelete, args: vec![Arg::Res(2)] }),
        Some(c(F::StateIteratePrefix, &[KEYS as u64 + 2, 1])),
    ]
}

/// Calls that look at what an answer brought: parameters 1 and 2, the balance, handles of both
/// generations.
fn after(n_before: usize) -> Vec<Vec<Call>> {
    let mut v: Vec<Vec<Call>> = vec![];
    for idx in [1u64, 2, 3] {
        v.push(vec![c(F::GetParameterSize, &[idx])]);
        for (len, off) in [(7u64, 0u64), (4, 3), (8, 0), (1, 7), (1, 8), (0, 7), (0x10001, 0), (5, 0xFFFF_FFFF)] {
            v.push(vec![c(F::GetParameterSection, &[idx, SCRATCH as u64, len, off])]);
        }
        v.push(vec![c(F::GetParameterSection, &[idx, 0xFFFF, 2, 0])]);
    }
    v.push(vec![c(F::GetReceiveSelfBalance, &[])]);
    // handles of generation 0 and 1 by value
    for h in [0u64, 1, 1 << 32, (1 << 32) | 1, 2 << 32] {
        v.push(vec![c(F::StateEntrySize, &[h])]);
        v.push(vec![c(F::StateEntryRead, &[h, SCRATCH as u64, 4, 0])]);
        v.push(vec![c(F::StateEntryWrite, &[h, SRC as u64, 2, 0])]);
        v.push(vec![c(F::StateEntryResize, &[h, 2])]);
        v.push(vec![c(F::StateIteratorNext, &[h])]);
        v.push(vec![c(F::StateIteratorDelete, &[h])]);
        v.push(vec![c(F::StateIteratorKeySize, &[h])]);
    }
    // fresh handles, used
    let r = Arg::Res(n_before);
    v.push(vec![c(F::StateLookupEntry, &[KEYS as u64, 1]), Call { f: F::StateEntryRead, args: vec![r.clone(), Arg::C(SCRATCH as u64), Arg::C(8), Arg::C(0)] }]);
    v.push(vec![c(F::StateLookupEntry, &[KEYS as u64 + 3, 1]), Call { f: F::StateEntryRead, args: vec![r.clone(), Arg::C(SCRATCH as u64), Arg::C(8), Arg::C(0)] }]);
    v.push(vec![c(F::StateCreateEntry, &[KEYS as u64 + 3, 1]), Call { f: F::StateEntryWrite, args: vec![r.clone(), Arg::C(SRC as u64), Arg::C(8), Arg::C(0)] }]);
    v.push(vec![c(F::StateIteratePrefix, &[KEYS as u64, 1]), Call { f: F::StateIteratorNext, args: vec![r.clone()] }]);
    v.push(vec![c(F::StateIteratePrefix, &[KEYS as u64, 0]), Call { f: F::StateIteratorNext, args: vec![r.clone()] }]);
    // locks: the common prefix holds an iterator over 12
    v.push(vec![c(F::StateCreateEntry, &[KEYS as u64, 2])]);
    v.push(vec![c(F::StateDeleteEntry, &[KEYS as u64, 1])]);
    v.push(vec![c(F::StateDeletePrefix, &[KEYS as u64, 1])]);
    v.push(vec![c(F::LogEvent, &[SRC as u64, 2])]);
    v.push(vec![c(F::WriteOutput, &[SRC as u64, 4, 6])]);
    v.push(vec![c(F::WriteOutput, &[SRC as u64, 4, 0])]);
    v
}

// ---- call depth ----------------------------------------------------------------------------------

/// One stage of a nesting program: `down` more calls of `down`, then (at the bottom) an optional
/// interrupt, then the next stage.
#[derive(Clone, Debug)]
pub struct Stage {
    pub descend:   u32,
    pub interrupt: Option<u8>,
}

/// The program: the entrypoint runs `first`; when all of it has returned, optionally interrupts
/// and runs `second` (the frames of `first` have been given back by then).
#[derive(Clone, Debug)]
pub struct Nesting {
    pub first:  Vec<Stage>,
    pub middle: Option<u8>,
    pub second: Vec<Stage>,
}

/// interrupt kinds: 0 transfer, 1 query (not handing over logs), 2 upgrade
fn emit_interrupt(kind: u8, invoke: u32, upgrade: u32, body: &mut Vec<Instr>) {
    match kind {
        0 => body.extend([Instr::I32Const(0), Instr::I32Const(SRC as i32), Instr::I32Const(40), Instr::Call(invoke), Instr::Drop]),
        1 => body.extend([Instr::I32Const(2), Instr::I32Const(SRC as i32), Instr::I32Const(32), Instr::Call(invoke), Instr::Drop]),
        _ => body.extend([Instr::I32Const(SRC as i32), Instr::Call(upgrade), Instr::Drop]),
    }
}

/// Nested calls below the entrypoint at the deepest point, by the program text.
fn deepest(stages: &[Stage]) -> u64 {
    // each stage: `descend` + 1 activations of `down` (n = descend ..= 0) and one of `bottom`
    stages.iter().map(|s| s.descend as u64 + 2).sum()
}

fn n_interrupts(p: &Nesting) -> usize { p.first.iter().chain(p.second.iter()).filter(|s| s.interrupt.is_some()).count() + p.middle.is_some() as usize }

/// imports: 0 invoke, 1 upgrade. functions: 2 entry (receive), 3 down(n), 4 bottom, 5 entry (init, v1),
/// global 0: the index of the next stage.
fn nesting_module(p: &Nesting, mem: &[u8], v0: bool, v0_receive: bool) -> Vec<u8> {
    let mut m = Module::default();
    m.types.push(FuncType { params: vec![VT::I32, VT::I32, VT::I32], result: Some(VT::I64) }); // 0 invoke
    m.types.push(FuncType { params: vec![VT::I32], result: Some(VT::I64) }); // 1 upgrade
    m.types.push(FuncType { params: vec![VT::I64], result: Some(VT::I32) }); // 2 entry
    m.types.push(FuncType { params: vec![VT::I32], result: None }); // 3 down
    m.types.push(FuncType { params: vec![], result: None }); // 4 bottom
    m.types.push(FuncType { params: vec![], result: Some(VT::I32) }); // 5 accept (v0)
    let n_imports = if !v0 { 2 } else if v0_receive { 1 } else { 0 };
    if v0_receive {
        m.imports.push(Import { module: "concordium".into(), name: "accept".into(), ty: 5 });
    }
    if !v0 {
        m.imports.push(Import { module: "concordium".into(), name: "invoke".into(), ty: 0 });
        m.imports.push(Import { module: "concordium".into(), name: "upgrade".into(), ty: 1 });
    }
    let (entry, down, bottom) = (n_imports, n_imports + 1, n_imports + 2);
    let stages: Vec<&Stage> = p.first.iter().chain(p.second.iter()).collect();
    // entry
    let mut body = vec![];
    if let Some(s) = p.first.first() {
        body.extend([Instr::I32Const(s.descend as i32), Instr::Call(down)]);
    }
    if let Some(k) = p.middle {
        emit_interrupt(k, 0, 1, &mut body);
    }
    if let Some(s) = p.second.first() {
        // the stage counter continues at the first stage of the second descent
        body.extend([Instr::I32Const(p.first.len() as i32), Instr::GlobalSet(0), Instr::I32Const(s.descend as i32), Instr::Call(down)]);
    }
    // a v0 receive function returns the index of an action
    body.push(if v0_receive { Instr::Call(0) } else { Instr::I32Const(0) });
    m.funcs.push(Func { ty: 2, locals: vec![], body });
    // down(n): if n == 0 { bottom() } else { down(n - 1) }
    m.funcs.push(Func { ty: 3, locals: vec![], body: vec![Instr::LocalGet(0), Instr::Num(0x45), Instr::If(BT::Empty), Instr::Call(bottom), Instr::Else, Instr::LocalGet(0), Instr::I32Const(1), Instr::Num(0x6B), Instr::Call(down), Instr::End] });
    // bottom: stage i interrupts (if it says so) and starts stage i + 1 (if there is one in the same descent)
    let mut body = vec![];
    for (i, s) in stages.iter().enumerate() {
        body.extend([Instr::GlobalGet(0), Instr::I32Const(i as i32), Instr::Num(0x46), Instr::If(BT::Empty)]);
        body.extend([Instr::I32Const(i as i32 + 1), Instr::GlobalSet(0)]);
        if let Some(k) = s.interrupt {
            emit_interrupt(k, 0, 1, &mut body);
        }
        let last_of_descent = i + 1 == p.first.len() || i + 1 == stages.len();
        if !last_of_descent {
            body.extend([Instr::I32Const(stages[i + 1].descend as i32), Instr::Call(down)]);
        }
        body.extend([Instr::Return, Instr::End]);
    }
    m.funcs.push(Func { ty: 4, locals: vec![], body });
    m.globals.push(ast::Global { ty: VT::I32, mutable: true, init: 0 });
    m.memory = Some((1, Some(1)));
    m.data.push((SRC, mem[SRC as usize..SRC as usize + 0x100].to_vec()));
    m.exports.push(("init_c".into(), ExportKind::Func(entry)));
    m.exports.push(("c.run".into(), ExportKind::Func(entry)));
    m.encode()
}

fn nesting_json(p: &Nesting) -> J {
    let st = |v: &Vec<Stage>| v.iter().map(|s| json!({"descend": s.descend, "interrupt": s.interrupt})).collect::<Vec<_>>();
    json!({"first": st(&p.first), "middle": p.middle, "second": st(&p.second)})
}

#[derive(Clone, Copy, PartialEq, Debug)]
enum Kind {
    V1Receive,
    V1Init,
    V0Receive,
    V0Init,
}

/// `Ok(true)`: ran to the end; `Ok(false)`: runtime error.
fn run_nesting(p: &Nesting, kind: Kind, mem: &[u8]) -> Result<bool, String> {
    let n = n_interrupts(p);
    match kind {
        Kind::V1Receive => {
            let wasm = nesting_module(p, mem, false, false);
            let answers: Vec<Answer> = (0..n).map(|i| Answer { resp: Resp::Success { new_balance: 5, data: if i % 2 == 0 { None } else { Some(vec![1]) } }, state_updated: i % 3 == 2 }).collect();
            let r = run_real(&wasm, &ctx(P7), BUDGET, &answers)?;
            match r.outcome {
                Outcome::Success { .. } if r.sections.len() == n => Ok(true),
                Outcome::Trap => Ok(false),
                o => Err(format!("unexpected outcome {} after {} interrupts", short(&o).chars().take(200).collect::<String>(), r.sections.len())),
            }
        }
        Kind::V1Init => {
            let wasm = nesting_module(p, mem, false, false);
            let inst = instantiate_with_metering::<ProcessedImports>(ValidationConfig::V1, CostConfigurationV1, &ConcordiumAllowedImports { support_upgrade: true, enable_debug: false }, &wasm).map_err(|e| format!("module rejected: {e:#}"))?;
            let store: Vec<u8> = vec![];
            let loader = Loader::new(&store[..]);
            let policy: Vec<u8> = (100..112).collect();
            let ictx = v0::InitContext { metadata: ChainMetadata { slot_time: Timestamp::from_timestamp_millis(0) }, init_origin: AccountAddress([1; 32]), sender_policies: &policy[..] };
            mc_core::set_dirty_limit(MEM);
            let r = v1::invoke_init::<_, _, ()>(&inst.artifact, ictx, v1::InitInvocation { amount: Amount::from_micro_ccd(0), init_name: "init_c", parameter: &[], energy: InterpreterEnergy::new(BUDGET) }, false, loader).map_err(|e| format!("init: {e:?}"))?;
            match r {
                v1::InitResult::Success { .. } => Ok(true),
                v1::InitResult::Trap { .. } => Ok(false),
                _ => Err("unexpected init outcome".into()),
            }
        }
        Kind::V0Receive | Kind::V0Init => super::v0host::run_nesting_v0(&nesting_module(p, mem, true, kind == Kind::V0Receive), kind == Kind::V0Init),
    }
}

fn check_nesting(report: &Report, p: &Nesting, kind: Kind, mem: &[u8]) {
    report.eval(1);
    let limit = concordium_smart_contract_engine::constants::MAX_ACTIVATION_FRAMES as u64;
    debug_assert_eq!(limit, 1024);
    let depth = deepest(&p.first).max(deepest(&p.second));
    let expect_ok = depth <= 1024;
    let w = || json!({"program": nesting_json(p), "interface": format!("{kind:?}"), "deepest_nesting": depth, "limit": 1024});
    match mc_core::catch(|| run_nesting(p, kind, mem)) {
        Ok(Ok(ok)) => {
            report.trace(1);
            report.outcome(if ok { "nesting accepted" } else { "nesting trapped" }, 1);
            if ok && !expect_ok {
                report.violation("call-depth-limit-exceeded-without-error", w(), json!({"observed": "ran to the end", "expected": "runtime error: more than 1024 nested calls"}));
            } else if !ok && expect_ok {
                report.violation("call-depth-within-limit-rejected", w(), json!({"observed": "runtime error", "expected": "runs to the end"}));
            }
        }
        Ok(Err(msg)) => report.violation("machinery: nesting program not runnable", w(), json!({"error": msg})),
        Err(pn) => report.violation("host-function-panicked", w(), json!({"panic": pn})),
    }
}

fn nesting_programs(full: bool) -> Vec<Nesting> {
    let mut v = vec![];
    let st = |d: u32, i: Option<u8>| Stage { descend: d, interrupt: i };
    let kinds: Vec<Option<u8>> = vec![None, Some(0), Some(1), Some(2)];
    // one descent, no interrupt: the limit itself (depth = descend + 2)
    for total in [2u32, 3, 512, 1022, 1023, 1024, 1025, 1026, 2047, 2048, 2049, 3000] {
        v.push(Nesting { first: vec![st(total - 2, None)], middle: None, second: vec![] });
    }
    // two stages: total depth around the limit, split at every kind of place, every interrupt kind
    let totals: Vec<u32> = if full { vec![1000, 1023, 1024, 1025, 1026, 1500, 2047, 2048, 2049] } else { vec![1023, 1024, 1025, 2048] };
    let splits: Vec<u32> = if full { vec![2, 3, 100, 511, 512, 513, 1020, 1021, 1022] } else { vec![2, 512, 1021] };
    for &total in &totals {
        for &a in &splits {
            if total < a + 2 {
                continue;
            }
            let b = total - a; // depth of the second stage
            for k in &kinds {
                v.push(Nesting { first: vec![st(a - 2, *k), st(b - 2, None)], middle: None, second: vec![] });
                if full {
                    for k2 in [Some(0u8), Some(1)] {
                        v.push(Nesting { first: vec![st(a - 2, *k), st(b - 2, k2)], middle: None, second: vec![] });
                    }
                }
            }
        }
    }
    // three stages, two interrupts on the way down
    for &total in &totals {
        for (a, b) in [(2u32, 2u32), (300, 300), (2, 1000), (1000, 2), (500, 520)] {
            if total < a + b + 2 {
                continue;
            }
            let cdepth = total - a - b;
            for (k1, k2) in [(Some(0u8), Some(0u8)), (Some(1), Some(0)), (Some(0), None), (None, Some(2))] {
                v.push(Nesting { first: vec![st(a - 2, k1), st(b - 2, k2), st(cdepth - 2, None)], middle: None, second: vec![] });
            }
        }
    }
    // frames given back: a first descent returns completely, then a second one -- each alone within
    // the limit or not, with or without interrupts in the first, between, in the second
    for a in [2u32, 1000, 1024, 1025] {
        for b in [2u32, 1000, 1024, 1025] {
            for k1 in &kinds {
                for mid in &kinds {
                    if !full && k1.is_some() && mid.is_some() && k1 != mid {
                        continue;
                    }
                    v.push(Nesting { first: vec![st(a - 2, *k1)], middle: *mid, second: vec![st(b - 2, None)] });
                    if full {
                        v.push(Nesting { first: vec![st(a - 2, *k1)], middle: *mid, second: vec![st(2, Some(0)), st(b.saturating_sub(4).max(2) - 2, None)] });
                    }
                }
            }
        }
    }
    v
}

pub fn run_resume(report: &Report, tier: Tier, mem0: &[u8], atoms: &[Call]) {
    let quick = tier == Tier::Quick;
    let p7 = ctx(P7);
    let p4 = ctx(P4);
    // ---- one interrupt: [carried] interrupt answer [after] ------------------------------------
    let ints = interrupts();
    let ans = answers(!quick);
    let mut cases: Vec<(Script, Vec<Answer>)> = vec![];
    for pre in carried() {
        for int in &ints {
            let mut head = prefix();
            head.extend(pre.clone());
            head.push(int.clone());
            let n = head.len();
            let mut posts: Vec<Vec<Call>> = after(n);
            posts.push(vec![]);
            posts.extend(atoms.iter().map(|a| vec![a.clone()]));
            for a in &ans {
                for post in &posts {
                    let mut s = head.clone();
                    s.extend(post.iter().cloned());
                    cases.push((s, vec![a.clone()]));
                }
            }
        }
    }
    let one = cases.len();
    // ---- two interrupts: interrupt answer [carried] interrupt answer [after] ---------------------
    let ans2 = answers(false);
    for int1 in &ints {
        for a1 in &ans2 {
            for mid in carried() {
                for int2 in &ints {
                    let mut head = prefix();
                    head.push(int1.clone());
                    head.extend(mid.clone());
                    head.push(int2.clone());
                    let n = head.len();
                    let posts = after(n);
                    for a2 in &ans2 {
                        for post in &posts {
                            let mut s = head.clone();
                            s.extend(post.iter().cloned());
                            cases.push((s, vec![a1.clone(), a2.clone()]));
                        }
                    }
                }
            }
        }
    }
    // quick: every case with one interrupt, a fixed fifth of those with two
    let cases: Vec<(Script, Vec<Answer>)> = cases.into_iter().enumerate().filter(|(i, _)| !quick || *i < one || i % 5 == 0).map(|(_, x)| x).collect();
    report.set_extra("resume_cases", json!(cases.len()));
    cases.par_iter().enumerate().for_each(|(i, (s, a))| check_script_r(report, s, a, &p7, mem0, !quick || i % 64 == 0));
    // ---- limits across sections ---------------------------------------------------------------
    let mut special: Vec<(Ctx, Script, Vec<Answer>)> = vec![];
    let okn = |d: Option<Vec<u8>>| Answer { resp: Resp::Success { new_balance: 1, data: d }, state_updated: false };
    for cx in [&p4, &p7] {
        // the log limit counts per section: 64 logs, hand-over (or not), 64 more, one too many
        for int in [&ints[0], &ints[2]] {
            for (n1, n2) in [(64usize, 64usize), (64, 65), (65, 1), (10, 64), (63, 2)] {
                let mut s: Script = (0..n1).map(|i| c(F::LogEvent, &[SRC as u64, (i % 5) as u64])).collect();
                s.push(int.clone());
                s.extend((0..n2).map(|i| c(F::LogEvent, &[SRC as u64 + 1, (i % 3) as u64])));
                special.push((cx.clone(), s, vec![okn(None)]));
            }
        }
        // the return value survives interrupts and keeps its limit
        let s = vec![c(F::WriteOutput, &[0, 0x4000, 0]), ints[0].clone(), c(F::WriteOutput, &[SRC as u64, 2, 0x3fff]), ints[3].clone(), c(F::WriteOutput, &[SRC as u64, 2, 0x4000]), c(F::WriteOutput, &[SRC as u64, 2, 0x4001])];
        special.push((cx.clone(), s, vec![okn(None), okn(Some(vec![1]))]));
        // parameters accumulate: every answer with data is one more parameter
        let mut s = vec![];
        let mut a = vec![];
        for i in 0..6u64 {
            s.push(ints[(i % 4) as usize].clone());
            a.push(if i == 2 { okn(None) } else if i == 4 { Answer { resp: Resp::Reject { code: -9, data: vec![4; 4] }, state_updated: false } } else { okn(Some(vec![i as u8; i as usize + 1])) });
        }
        for idx in 0..8u64 {
            s.push(c(F::GetParameterSize, &[idx]));
            s.push(c(F::GetParameterSection, &[idx, SCRATCH as u64 + 8 * idx, 8, 0]));
        }
        special.push((cx.clone(), s, a));
        // an unanswered second interrupt after an answered first
        special.push((cx.clone(), vec![c(F::LogEvent, &[SRC as u64, 1]), ints[0].clone(), c(F::LogEvent, &[SRC as u64, 2]), ints[1].clone()], vec![okn(None)]));
    }
    report.set_extra("resume_context_cases", json!(special.len()));
    special.par_iter().for_each(|(cx, s, a)| check_script_r(report, s, a, cx, mem0, true));
    special.par_iter().for_each(|(cx, s, a)| budget_sweep(report, s, a, cx, mem0, quick));
    // ---- call depth ---------------------------------------------------------------------------
    let progs = nesting_programs(!quick);
    let mut jobs: Vec<(Nesting, Kind)> = vec![];
    for p in &progs {
        jobs.push((p.clone(), Kind::V1Receive));
        if n_interrupts(p) == 0 {
            jobs.push((p.clone(), Kind::V1Init));
            jobs.push((p.clone(), Kind::V0Receive));
            jobs.push((p.clone(), Kind::V0Init));
        }
    }
    report.set_extra("nesting_cases", json!(jobs.len()));
    jobs.par_iter().for_each(|(p, k)| check_nesting(report, p, *k, mem0));
}
