//! mc-host (C14): every v1 host function with the full cartesian product of a hostile
//! argument alphabet per parameter role, in several contexts and protocol parameter sets,
//! and all scripts of <= 3 host calls over a reduced alphabet. Each script is compiled to a
//! real contract and run through `invoke_receive`; a reference model of the documented host
//! interface predicts the outcome.

#[path = "../../mc-wasm/src/ast.rs"]
#[allow(dead_code)]
mod ast;
mod model;
mod imports;
mod resume;
mod v0host;

use ast::{ExportKind, Func, FuncType, Import, Instr, Module, VT};
use concordium_contracts_common::{AccountAddress, Address, Amount, ChainMetadata, ContractAddress, OwnedEntrypointName, OwnedReceiveName, Timestamp};
use concordium_smart_contract_engine::{
    v0,
    v1::{
        self,
        trie::{EmptyCollector, Loader, PersistentState},
        ConcordiumAllowedImports, DebugTracker, InstanceState, ProcessedImports, ReceiveContext, ReceiveInvocation, ReceiveParams, ReceiveResult,
    },
    InterpreterEnergy,
};
use concordium_wasm::{artifact::CompiledFunction, utils::instantiate_with_metering, validate::ValidationConfig, CostConfigurationV1};
use mc_core::{Cli, Report, Tier};
use model::*;
use rayon::prelude::*;
use serde_json::{json, Value as J};
use std::collections::BTreeMap;

// the interpreter allocates the full 32 MiB address range of a linear memory per run
#[global_allocator]
static ALLOC: mc_core::PoolAlloc = mc_core::PoolAlloc;

// ---- memory layout of the generated contract -------------------------------------------
const KEYS: u32 = 0x100; // 12 34 13 77 ...
const SRC: u32 = 0x200; // 256 patterned bytes
const PK: u32 = 0x400; // ed25519 public key (32) | signature (64) | message (5)
const SIGNATURE: u32 = 0x420;
const MSG: u32 = 0x460;
const CALLARGS: u32 = 0x500; // a well-formed `invoke` call payload
const SCRATCH: u32 = 0x1000; // 256 bytes of 0xAA, destination of in-bounds writes
const RES: u32 = 0x2000; // 8 bytes per step
const BIG: u32 = 0x3000; // case-specific payloads (zero in the common image)
const TAIL: u32 = 0xFFF0; // last 16 bytes of memory
const BUDGET: u64 = 1_000_000_000;

#[derive(Clone, Debug, PartialEq, Eq, Hash)]
enum Arg {
    C(u64),
    /// the result of an earlier step
    Res(usize),
}

#[derive(Clone, Debug, PartialEq, Eq, Hash)]
struct Call {
    f:    F,
    args: Vec<Arg>,
}

type Script = Vec<Call>;

fn script_json(s: &Script) -> J {
    J::Array(
        s.iter()
            .map(|c| {
                json!(format!(
                    "{}({})",
                    sig(c.f).0,
                    c.args
                        .iter()
                        .map(|a| match a {
                            Arg::C(v) => format!("{v:#x}"),
                            Arg::Res(i) => format!("result[{i}]"),
                        })
                        .collect::<Vec<_>>()
                        .join(", ")
                ))
            })
            .collect(),
    )
}

fn initial_memory(seed: u64) -> Vec<u8> {
    use ed25519_dalek::Signer;
    let mut m = vec![0u8; MEM];
    for i in 0..0x100usize {
        m[KEYS as usize + i] = (i * 7 + 3) as u8;
        m[SRC as usize + i] = (i * 5 + 1) as u8;
        m[SCRATCH as usize + i] = 0xAA;
    }
    m[KEYS as usize..KEYS as usize + 4].copy_from_slice(&[0x12, 0x34, 0x13, 0x77]);
    let sk = ed25519_dalek::SigningKey::from_bytes(&[(seed as u8).wrapping_add(7); 32]);
    let msg = [1u8, 2, 3, 4, 5];
    m[PK as usize..PK as usize + 32].copy_from_slice(sk.verifying_key().as_bytes());
    m[SIGNATURE as usize..SIGNATURE as usize + 64].copy_from_slice(&sk.sign(&msg).to_bytes());
    m[MSG as usize..MSG as usize + 5].copy_from_slice(&msg);
    // invoke payload: address (1, 2) | parameter length 3 | 9 9 9 | name length 2 | "ep" | amount 7
    let mut p = vec![];
    p.extend_from_slice(&1u64.to_le_bytes());
    p.extend_from_slice(&2u64.to_le_bytes());
    p.extend_from_slice(&3u16.to_le_bytes());
    p.extend_from_slice(&[9, 9, 9]);
    p.extend_from_slice(&2u16.to_le_bytes());
    p.extend_from_slice(b"ep");
    p.extend_from_slice(&7u64.to_le_bytes());
    m[CALLARGS as usize..CALLARGS as usize + p.len()].copy_from_slice(&p);
    for i in 0..16 {
        m[TAIL as usize + i] = 0xC0 + i as u8;
    }
    m
}
const CALLARGS_LEN: u32 = 16 + 2 + 3 + 2 + 2 + 8;

fn initial_state_of(c: &Ctx) -> Vec<(Vec<u8>, Vec<u8>)> {
    if c.init {
        vec![]
    } else {
        initial_state()
    }
}

fn initial_state() -> Vec<(Vec<u8>, Vec<u8>)> { vec![(vec![0x12], vec![1, 2, 3, 4, 5]), (vec![0x12, 0x34], (10..26).collect()), (vec![0x13], vec![])] }

fn ctx(p: Params) -> Ctx {
    let mut sender = vec![0u8];
    sender.extend_from_slice(&[0x5E; 32]);
    Ctx { params: p, parameter: vec![9, 8, 7, 6, 5], policy: (100..112).collect(), slot_time: 0x0102_0304_0506, invoker: [0x11; 32], self_address: (77, 3), self_balance: 123_456_789, sender, owner: [0x22; 32], entrypoint: b"run".to_vec(), init: false, init_origin: [0x33; 32] }
}

/// Compile a script into a v1 contract.
fn module_of(script: &Script, mem: &[u8]) -> Vec<u8> {
    let mut m = Module::default();
    let mut ty_index = |m: &mut Module, t: FuncType| -> u32 {
        if let Some(i) = m.types.iter().position(|x| *x == t) {
            i as u32
        } else {
            m.types.push(t);
            (m.types.len() - 1) as u32
        }
    };
    // imports: every function the script uses, plus write_output for the final dump
    let mut used: Vec<F> = script.iter().map(|c| c.f).collect();
    used.push(F::WriteOutput);
    used.sort();
    used.dedup();
    let mut import_idx = BTreeMap::new();
    for f in &used {
        let (name, ps, r) = sig(*f);
        let t = ty_index(&mut m, FuncType { params: ps.iter().map(|w| if *w { VT::I64 } else { VT::I32 }).collect(), result: r.map(|w| if w { VT::I64 } else { VT::I32 }) });
        import_idx.insert(*f, m.imports.len() as u32);
        m.imports.push(Import { module: "concordium".into(), name: name.into(), ty: t });
    }
    let entry_ty = ty_index(&mut m, FuncType { params: vec![VT::I64], result: Some(VT::I32) });
    let mut body = vec![];
    for (i, c) in script.iter().enumerate() {
        let (_, ps, r) = sig(c.f);
        for (a, wide) in c.args.iter().zip(ps.iter()) {
            match a {
                Arg::C(v) => body.push(if *wide { Instr::I64Const(*v as i64) } else { Instr::I32Const(*v as u32 as i32) }),
                Arg::Res(k) => {
                    body.push(Instr::I32Const((RES + 8 * *k as u32) as i32));
                    body.push(Instr::Load(0x29, 3, 0)); // i64.load
                    if !*wide {
                        body.push(Instr::Num(0xA7)); // i32.wrap_i64
                    }
                }
            }
        }
        body.push(Instr::Call(import_idx[&c.f]));
        match r {
            Some(true) => body.push(Instr::LocalSet(1)),
            Some(false) => {
                body.push(Instr::Num(0xAD)); // i64.extend_i32_u
                body.push(Instr::LocalSet(1));
            }
            None => {
                body.push(Instr::I64Const(0x5555));
                body.push(Instr::LocalSet(1));
            }
        }
        body.push(Instr::I32Const((RES + 8 * i as u32) as i32));
        body.push(Instr::LocalGet(1));
        body.push(Instr::Store(0x37, 3, 0)); // i64.store
    }
    // final dump: scratch window, the last 16 bytes of memory, the results -- appended to
    // whatever the script itself wrote to the return value
    // (the dump of the observation windows is part of the script itself, see `with_epilogue`)
    body.push(Instr::I32Const(0));
    m.funcs.push(Func { ty: entry_ty, locals: vec![VT::I64, VT::I32], body });
    let pages = (mem.len() / MEM) as u32;
    m.memory = Some((pages, Some(pages)));
    // data segments: only the non-zero parts of the initial memory
    for (off, len) in [(KEYS, 0x100u32), (SRC, 0x100), (PK, 0x80), (CALLARGS, 0x40), (SCRATCH, 0x100), (TAIL, 16)] {
        m.data.push((off, mem[off as usize..(off + len) as usize].to_vec()));
    }
    // case-specific data (zero in the common image): one segment per non-zero run
    let (mut i, hi) = (BIG as usize, TAIL as usize);
    while i < hi {
        if mem[i] != 0 {
            let j = i;
            while i < hi && mem[i] != 0 {
                i += 1;
            }
            m.data.push((j as u32, mem[j..i].to_vec()));
        } else {
            i += 1;
        }
    }
    let fidx = m.imports.len() as u32;
    m.exports.push(("init_c".into(), ExportKind::Func(fidx)));
    m.exports.push(("c.run".into(), ExportKind::Func(fidx)));
    m.encode()
}

/// The dump appended by the harness-generated epilogue: (memory offset, length).
const DUMPS: [(u32, u32); 2] = [(SCRATCH, 0x100), (TAIL, 16)];

/// Append the epilogue to a script's function body: `rv_len` is the length of the return
/// value after the script proper (known from the model).
fn with_epilogue(script: &Script, rv_len: u32, pages: usize) -> Script {
    let mut s = script.clone();
    let mut off = rv_len;
    let mut dumps = DUMPS.to_vec();
    if pages == 2 {
        // the first and the last 16 bytes of the second page
        dumps.push((0x10000, 16));
        dumps.push((0x1FFF0, 16));
    }
    for (start, len) in dumps {
        s.push(Call { f: F::WriteOutput, args: vec![Arg::C(start as u64), Arg::C(len as u64), Arg::C(off as u64)] });
        off += len;
    }
    let n = script.len() as u32;
    s.push(Call { f: F::WriteOutput, args: vec![Arg::C(RES as u64), Arg::C(8 * n as u64), Arg::C(off as u64)] });
    s
}

#[derive(Debug, Clone, PartialEq, Eq)]
enum Outcome {
    Success { rv: Vec<u8>, logs: Vec<Vec<u8>>, state: Vec<(Vec<u8>, Vec<u8>)> },
    Reject(i32),
    Trap,
    OutOfEnergy,
    Interrupt { what: String, logs: Vec<Vec<u8>> },
}

fn short(o: &Outcome) -> String {
    match o {
        Outcome::Success { rv, logs, state } => format!("success rv={} logs={:?} state={:?}", hex::encode(rv), logs, state),
        Outcome::Reject(n) => format!("reject {n}"),
        Outcome::Trap => "trap".into(),
        Outcome::OutOfEnergy => "out-of-energy".into(),
        Outcome::Interrupt { what, logs } => format!("interrupt {what} logs={logs:?}"),
    }
}

/// The chain's answer to one interrupt, and whether it says the instance state was updated
/// (then the state is frozen, thawed afresh and given one more entry, as a re-entrant call would).
#[derive(Clone, Debug, PartialEq, Eq)]
struct Answer {
    resp:          Resp,
    state_updated: bool,
}

const EXTERNAL_KEY: [u8; 1] = [0x99];
const EXTERNAL_VAL: [u8; 2] = [9, 9];

/// What an interrupt that was answered showed to the chain.
#[derive(Clone, Debug, PartialEq, Eq)]
struct Section {
    what:          String,
    logs:          Vec<Vec<u8>>,
    state_changed: bool,
}

struct RealRun {
    /// the answered interrupts, in order
    sections:  Vec<Section>,
    outcome:   Outcome,
    remaining: Option<u64>,
    /// energy charged per successfully completed host call, in order
    per_call:  Vec<(String, u64)>,
}

fn params_of(p: Params) -> ReceiveParams { ReceiveParams { max_parameter_size: p.max_param, limit_logs_and_return_values: p.limit, support_queries: p.queries, support_account_signature_checks: p.sig_checks, support_contract_inspection_queries: p.inspection } }

fn interrupt_text(i: &v1::Interrupt) -> String {
    match i {
        v1::Interrupt::Transfer { to, amount } => format!("{:?}", Interrupt::Transfer { to: to.0.to_vec(), amount: amount.micro_ccd }),
        v1::Interrupt::Call { address, parameter, name, amount } => format!("{:?}", Interrupt::Call { address: (address.index, address.subindex), parameter: parameter.clone(), name: name.to_string().into_bytes(), amount: amount.micro_ccd }),
        v1::Interrupt::Upgrade { module_ref } => format!("{:?}", Interrupt::Upgrade { module_ref: module_ref.as_ref().to_vec() }),
        v1::Interrupt::QueryAccountBalance { address } => format!("{:?}", Interrupt::QueryAccountBalance(address.0.to_vec())),
        v1::Interrupt::QueryContractBalance { address } => format!("{:?}", Interrupt::QueryContractBalance(address.index, address.subindex)),
        v1::Interrupt::QueryExchangeRates => format!("{:?}", Interrupt::QueryExchangeRates),
        v1::Interrupt::CheckAccountSignature { address, payload } => format!("{:?}", Interrupt::CheckAccountSignature { address: address.0.to_vec(), payload: payload.clone() }),
        v1::Interrupt::QueryAccountKeys { address } => format!("{:?}", Interrupt::QueryAccountKeys(address.0.to_vec())),
        v1::Interrupt::QueryContractModuleReference { address } => format!("{:?}", Interrupt::QueryContractModuleReference(address.index, address.subindex)),
        v1::Interrupt::QueryContractName { address } => format!("{:?}", Interrupt::QueryContractName(address.index, address.subindex)),
    }
}

/// The init entrypoint of the same module (`init_c`), on the empty state.
fn run_real_init(wasm: &[u8], c: &Ctx, budget: u64) -> Result<RealRun, String> {
    let inst = instantiate_with_metering::<ProcessedImports>(ValidationConfig::V1, CostConfigurationV1, &ConcordiumAllowedImports { support_upgrade: true, enable_debug: false }, wasm).map_err(|e| format!("module rejected: {e:#}"))?;
    let store: Vec<u8> = vec![];
    let mut loader = Loader::new(&store[..]);
    let policy = c.policy.clone();
    let ictx = v0::InitContext { metadata: ChainMetadata { slot_time: Timestamp::from_timestamp_millis(c.slot_time) }, init_origin: AccountAddress(c.init_origin), sender_policies: &policy[..] };
    mc_core::set_dirty_limit(2 * MEM);
    let r = v1::invoke_init::<_, _, DebugTracker>(&inst.artifact, ictx, v1::InitInvocation { amount: Amount::from_micro_ccd(0), init_name: "init_c", parameter: &c.parameter[..], energy: InterpreterEnergy::new(budget) }, c.params.limit, Loader::new(&store[..])).map_err(|e| format!("invalid return code: {e:?}"))?;
    let trace_of = |t: &DebugTracker| t.host_call_trace.iter().map(|(_, h)| (h.host_function.to_string(), h.energy_used.energy)).collect::<Vec<_>>();
    Ok(match r {
        v1::InitResult::Success { logs, return_value, remaining_energy, mut state, trace } => {
            let frozen = state.freeze(&mut loader, &mut EmptyCollector);
            let st: Vec<(Vec<u8>, Vec<u8>)> = frozen.into_iterator(&mut loader).collect();
            RealRun { sections: vec![], outcome: Outcome::Success { rv: return_value, logs: logs.iterate().cloned().collect(), state: st }, remaining: Some(remaining_energy.energy), per_call: trace_of(&trace) }
        }
        v1::InitResult::Reject { reason, remaining_energy, trace, .. } => RealRun { sections: vec![], outcome: Outcome::Reject(reason), remaining: Some(remaining_energy.energy), per_call: trace_of(&trace) },
        v1::InitResult::Trap { remaining_energy, trace, .. } => RealRun { sections: vec![], outcome: Outcome::Trap, remaining: Some(remaining_energy.energy), per_call: trace_of(&trace) },
        v1::InitResult::OutOfEnergy { trace } => RealRun { sections: vec![], outcome: Outcome::OutOfEnergy, remaining: None, per_call: trace_of(&trace) },
    })
}

fn run_real(wasm: &[u8], c: &Ctx, budget: u64, answers: &[Answer]) -> Result<RealRun, String> {
    if c.init {
        return run_real_init(wasm, c, budget);
    }
    let inst = instantiate_with_metering::<ProcessedImports>(ValidationConfig::V1, CostConfigurationV1, &ConcordiumAllowedImports { support_upgrade: true, enable_debug: false }, wasm).map_err(|e| format!("module rejected: {e:#}"))?;
    let artifact: concordium_wasm::artifact::Artifact<ProcessedImports, CompiledFunction> = inst.artifact;
    let init = initial_state();
    let persistent = PersistentState::from_iterator(init.iter().map(|(k, v)| (&k[..], v.clone())));
    let mut mutable = persistent.thaw();
    let store: Vec<u8> = vec![];
    let mut loader = Loader::new(&store[..]);
    let sender = Address::Account(AccountAddress([0x5E; 32]));
    let policy = c.policy.clone();
    let rc: ReceiveContext<&[u8]> = ReceiveContext {
        common:     v0::ReceiveContext { metadata: ChainMetadata { slot_time: Timestamp::from_timestamp_millis(c.slot_time) }, invoker: AccountAddress(c.invoker), self_address: ContractAddress::new(c.self_address.0, c.self_address.1), self_balance: Amount::from_micro_ccd(c.self_balance), sender, owner: AccountAddress(c.owner), sender_policies: &policy[..] },
        entrypoint: OwnedEntrypointName::new_unchecked("run".into()),
    };
    let name = OwnedReceiveName::new_unchecked("c.run".into());
    // the contract's memory is one page: at most 64 KiB of a pooled block get dirty
    mc_core::set_dirty_limit(2 * MEM);
    let result = {
        let inner = mutable.get_inner(&mut loader);
        let state = InstanceState::new(Loader::new(&store[..]), inner);
        let inv = ReceiveInvocation { amount: Amount::from_micro_ccd(0), receive_name: name.as_receive_name(), parameter: &c.parameter[..], energy: InterpreterEnergy::new(budget) };
        v1::invoke_receive::<_, _, CompiledFunction, _, _, ReceiveContext<Vec<u8>>, DebugTracker>(std::sync::Arc::new(artifact), rc, inv, state, params_of(c.params))
    };
    let mut result = result.map_err(|e| format!("invalid return code: {e:?}"))?;
    let trace_of = |t: &DebugTracker| t.host_call_trace.iter().map(|(_, h)| (h.host_function.to_string(), h.energy_used.energy)).collect::<Vec<_>>();
    let logs_of = |l: &v0::Logs| l.iterate().cloned().collect::<Vec<_>>();
    let mut sections = vec![];
    let mut per_call = vec![];
    let mut answers = answers.iter();
    loop {
        match result {
            ReceiveResult::Interrupt { remaining_energy, state_changed, logs, config, interrupt, trace } => {
                per_call.extend(trace_of(&trace));
                let Some(ans) = answers.next() else {
                    return Ok(RealRun { sections, outcome: Outcome::Interrupt { what: interrupt_text(&interrupt), logs: logs_of(&logs) }, remaining: Some(remaining_energy.energy), per_call });
                };
                sections.push(Section { what: interrupt_text(&interrupt), logs: logs_of(&logs), state_changed });
                if ans.state_updated {
                    // what the chain does for a re-entrant update: the state is persisted, the inner
                    // call works on a fresh copy, and the outer call is resumed on the result
                    let frozen = mutable.freeze(&mut loader, &mut EmptyCollector);
                    let mut entries: Vec<(Vec<u8>, Vec<u8>)> = frozen.into_iterator(&mut loader).collect();
                    entries.retain(|(k, _)| k[..] != EXTERNAL_KEY[..]);
                    entries.push((EXTERNAL_KEY.to_vec(), EXTERNAL_VAL.to_vec()));
                    mutable = PersistentState::from_iterator(entries.iter().map(|(k, v)| (&k[..], v.clone()))).thaw();
                }
                let response = match &ans.resp {
                    Resp::Success { new_balance, data } => v1::InvokeResponse::Success { new_balance: Amount::from_micro_ccd(*new_balance), data: data.clone() },
                    Resp::Reject { code, data } => v1::InvokeResponse::Failure { kind: v1::InvokeFailure::ContractReject { code: *code, data: data.clone() } },
                    Resp::Fail(k) => v1::InvokeResponse::Failure {
                        kind: match k {
                            1 => v1::InvokeFailure::InsufficientAmount,
                            2 => v1::InvokeFailure::NonExistentAccount,
                            3 => v1::InvokeFailure::NonExistentContract,
                            4 => v1::InvokeFailure::NonExistentEntrypoint,
                            5 => v1::InvokeFailure::SendingV0Failed,
                            6 => v1::InvokeFailure::RuntimeError,
                            7 => v1::InvokeFailure::UpgradeInvalidModuleRef,
                            8 => v1::InvokeFailure::UpgradeInvalidContractName,
                            9 => v1::InvokeFailure::UpgradeInvalidVersion,
                            10 => v1::InvokeFailure::SignatureDataMalformed,
                            _ => v1::InvokeFailure::SignatureCheckFailed,
                        },
                    },
                };
                result = v1::resume_receive::<_, DebugTracker>(config, response, remaining_energy, &mut mutable, ans.state_updated, Loader::new(&store[..])).map_err(|e| format!("resume failed: {e:?}"))?;
            }
            ReceiveResult::Success { logs, return_value, remaining_energy, trace, .. } => {
                per_call.extend(trace_of(&trace));
                let frozen = mutable.freeze(&mut loader, &mut EmptyCollector);
                let state: Vec<(Vec<u8>, Vec<u8>)> = frozen.into_iterator(&mut loader).collect();
                return Ok(RealRun { sections, outcome: Outcome::Success { rv: return_value, logs: logs_of(&logs), state }, remaining: Some(remaining_energy.energy), per_call });
            }
            ReceiveResult::Reject { reason, remaining_energy, trace, .. } => {
                per_call.extend(trace_of(&trace));
                return Ok(RealRun { sections, outcome: Outcome::Reject(reason), remaining: Some(remaining_energy.energy), per_call });
            }
            ReceiveResult::Trap { remaining_energy, trace, .. } => {
                per_call.extend(trace_of(&trace));
                return Ok(RealRun { sections, outcome: Outcome::Trap, remaining: Some(remaining_energy.energy), per_call });
            }
            ReceiveResult::OutOfEnergy { trace } => {
                per_call.extend(trace_of(&trace));
                return Ok(RealRun { sections, outcome: Outcome::OutOfEnergy, remaining: None, per_call });
            }
        }
    }
}

/// What the model allows for a script.
struct Expect {
    /// the answered interrupts: what the chain must have been shown, and whether the section
    /// before it modified the state
    sections: Vec<(Section, bool)>,
    /// acceptable outcomes (more than one where charging and bounds checking may come in either order)
    allowed:  Vec<Outcome>,
    per_call: Vec<(F, u128)>,
    /// the script as run (with the dump epilogue)
    full:     Script,
}

fn clears_logs(i: &Interrupt) -> bool { matches!(i, Interrupt::Transfer { .. } | Interrupt::Call { .. } | Interrupt::Upgrade { .. }) }

fn flat(m: &Model) -> Vec<(Vec<u8>, Vec<u8>)> { m.map.iter().map(|(k, e)| (k.clone(), e.val.clone())).collect() }

/// Run the model over `s`, answering interrupts from `answers`. Returns the model, the sections,
/// the outcomes allowed so far, whether the end of the script was reached, and the per-call costs.
fn model_run(s: &Script, answers: &[Answer], c: &Ctx, mem0: &[u8]) -> (Model, Vec<(Section, bool)>, Vec<Outcome>, bool, Vec<(F, u128)>) {
    let mut m = Model::new(c.clone(), mem0.to_vec(), &initial_state_of(c));
    let mut results: Vec<u64> = vec![];
    let mut per = vec![];
    let mut allowed = vec![];
    let mut sections = vec![];
    let mut answers = answers.iter();
    let mut snapshot = flat(&m);
    for call in s {
        let (_, ps, r) = sig(call.f);
        // i32 parameters see the low 32 bits
        let args: Vec<u64> = call.args.iter().zip(ps.iter()).map(|(a, w)| { let v = match a { Arg::C(v) => *v, Arg::Res(k) => results[*k] }; if *w { v } else { v & 0xffff_ffff } }).collect();
        let cr = m.call(call.f, &args);
        per.push((call.f, cr.cost));
        let margin = 2_000_000u128;
        if m.cost > BUDGET as u128 + margin {
            // cannot be paid for: out of energy -- unless a bounds / argument check comes first
            allowed.push(Outcome::OutOfEnergy);
            if cr.step == Step::Trap {
                allowed.push(Outcome::Trap);
            }
            return (m, sections, allowed, false, per);
        }
        let near = m.cost > (BUDGET as u128).saturating_sub(margin);
        if near {
            allowed.push(Outcome::OutOfEnergy);
        }
        let value = match cr.step {
            Step::Ret(v) => v,
            Step::Trap => {
                allowed.push(Outcome::Trap);
                return (m, sections, allowed, false, per);
            }
            Step::Interrupt(i) => {
                // logs are handed over per section by the interrupts that leave the contract
                let logs = if clears_logs(&i) { std::mem::take(&mut m.logs) } else { vec![] };
                let Some(ans) = answers.next() else {
                    allowed.push(Outcome::Interrupt { what: format!("{i:?}"), logs });
                    return (m, sections, allowed, false, per);
                };
                sections.push((Section { what: format!("{i:?}"), logs, state_changed: false }, flat(&m) != snapshot));
                let v = m.resume(&ans.resp, if ans.state_updated { Some((&EXTERNAL_KEY, &EXTERNAL_VAL)) } else { None });
                if ans.state_updated {
                    snapshot = flat(&m);
                }
                Some(v)
            }
        };
        let stored = match r {
            None => 0x5555,
            Some(true) => value.unwrap_or(0),
            Some(false) => value.unwrap_or(0) & 0xffff_ffff,
        };
        results.push(stored);
        let at = RES as usize + 8 * (results.len() - 1);
        m.mem[at..at + 8].copy_from_slice(&stored.to_le_bytes());
    }
    (m, sections, allowed, true, per)
}

fn expect(script: &Script, answers: &[Answer], c: &Ctx, mem0: &[u8]) -> Expect {
    // pass 1: the script proper, to learn the return value length; pass 2 with the epilogue
    let (m1, _, _, completed1, _) = model_run(script, answers, c, mem0);
    let rv_len = if completed1 { m1.rv.len() as u32 } else { 0 };
    let full = with_epilogue(script, rv_len, mem0.len() / MEM);
    let (m, sections, mut allowed, completed, per) = model_run(&full, answers, c, mem0);
    if completed {
        allowed.push(Outcome::Success { rv: m.rv.clone(), logs: m.logs.clone(), state: flat(&m) });
    }
    Expect { sections, allowed, per_call: per, full }
}

fn check_script(report: &Report, script: &Script, c: &Ctx, mem0: &[u8], energy_probe: bool) { check_script_r(report, script, &[], c, mem0, energy_probe) }

fn check_script_r(report: &Report, script: &Script, answers: &[Answer], c: &Ctx, mem0: &[u8], energy_probe: bool) {
    report.eval(1);
    let w = || {
        let mut j = json!({"params": c.params.name, "script": script_json(script)});
        if !answers.is_empty() {
            j["answers"] = json!(answers.iter().map(|a| format!("{:?} state_updated={}", a.resp, a.state_updated).chars().take(200).collect::<String>()).collect::<Vec<_>>());
        }
        if c.parameter.len() != 5 {
            j["parameter_len"] = json!(c.parameter.len());
        }
        if c.init {
            j["entrypoint"] = json!("init");
        }
        if mem0.len() != MEM {
            j["memory_pages"] = json!(mem0.len() / MEM);
        }
        if mem0[BIG as usize..TAIL as usize].iter().any(|b| *b != 0) {
            use sha2::Digest;
            j["payload_at_0x3000"] = json!({"first_bytes": hex::encode(&mem0[BIG as usize..BIG as usize + 24]), "sha256_of_region": hex::encode(&sha2::Sha256::digest(&mem0[BIG as usize..TAIL as usize])[..8])});
        }
        j
    };
    let e = expect(script, answers, c, mem0);
    let wasm = module_of(&e.full, mem0);
    let real = match mc_core::catch(|| run_real(&wasm, c, BUDGET, answers)) {
        Ok(Ok(r)) => r,
        Ok(Err(msg)) => {
            report.violation("machinery: generated contract not runnable", w(), json!({"error": msg}));
            return;
        }
        Err(p) => {
            report.violation("host-function-panicked", w(), json!({"panic": p}));
            return;
        }
    };
    report.trace(1);
    // the answered interrupts: payload and the logs handed over, in order; a section that
    // modified the state must say so
    for (i, obs) in real.sections.iter().enumerate() {
        match e.sections.get(i) {
            None => {
                report.violation("outcome-differs-from-host-interface", w(), json!({"observed": format!("interrupt #{i}: {}", obs.what), "expected": "no further interrupt"}));
                return;
            }
            Some((exp, modified)) => {
                if exp.what != obs.what || exp.logs != obs.logs {
                    report.violation("outcome-differs-from-host-interface", w(), json!({"observed": format!("interrupt #{i}: {} logs={:?}", obs.what, obs.logs), "expected": format!("{} logs={:?}", exp.what, exp.logs)}));
                    return;
                }
                if *modified && !obs.state_changed {
                    report.violation("state-modification-not-reported-at-interrupt", w(), json!({"interrupt": i, "what": obs.what}));
                    return;
                }
            }
        }
    }
    if real.sections.len() < e.sections.len() && !matches!(real.outcome, Outcome::OutOfEnergy) {
        report.violation("outcome-differs-from-host-interface", w(), json!({"observed": format!("{} after {} interrupts", short(&real.outcome).chars().take(300).collect::<String>(), real.sections.len()), "expected": format!("{} interrupts", e.sections.len())}));
        return;
    }
    if !e.allowed.contains(&real.outcome) {
        report.violation("outcome-differs-from-host-interface", w(), json!({"observed": short(&real.outcome).chars().take(700).collect::<String>(), "expected": e.allowed.iter().map(|o| short(o).chars().take(700).collect::<String>()).collect::<Vec<_>>()}));
        return;
    }
    report.outcome(
        match &real.outcome {
            Outcome::Success { .. } => "success",
            Outcome::Reject(_) => "reject",
            Outcome::Trap => "trap",
            Outcome::OutOfEnergy => "out of energy",
            Outcome::Interrupt { .. } => "interrupt",
        },
        1,
    );
    // every completed host call charged at least its scheduled energy
    // (a call that ended the run by a trap or by running out of energy did not complete: the
    // model's figure for it includes charges the implementation never reached)
    let completed = match real.outcome {
        Outcome::Trap | Outcome::OutOfEnergy => e.per_call.len().saturating_sub(1),
        _ => e.per_call.len(),
    };
    // (`upgrade` is not part of the implementation's host call trace)
    let scheduled: Vec<&(F, u128)> = e.per_call.iter().take(completed).filter(|(f, _)| *f != F::Upgrade).collect();
    for (i, (name, used)) in real.per_call.iter().enumerate() {
        if let Some((f, sched)) = scheduled.get(i) {
            if sig(*f).0 != name {
                report.violation("machinery: host call trace out of step", w(), json!({"index": i, "traced": name, "model": sig(*f).0}));
                return;
            }
            if (*used as u128) < *sched {
                report.violation("host-call-charged-less-than-scheduled", w(), json!({"call": i, "function": name, "charged": used, "scheduled": sched.to_string()}));
                return;
            }
        }
    }
    // with one unit of energy less than the run consumed, the run must not succeed
    if energy_probe {
        if let (Outcome::Success { .. }, Some(rem)) = (&real.outcome, real.remaining) {
            let used = BUDGET - rem;
            report.eval(2);
            match (mc_core::catch(|| run_real(&wasm, c, used, answers)), mc_core::catch(|| run_real(&wasm, c, used.saturating_sub(1), answers))) {
                (Ok(Ok(exact)), Ok(Ok(less))) => {
                    if exact.outcome != real.outcome {
                        report.violation("energy-accounting-not-deterministic", w(), json!({"budget": used, "observed": short(&exact.outcome).chars().take(300).collect::<String>()}));
                    }
                    if less.outcome != Outcome::OutOfEnergy {
                        report.violation("run-completes-with-less-energy-than-it-consumes", w(), json!({"budget": used - 1, "observed": short(&less.outcome).chars().take(300).collect::<String>()}));
                    }
                }
                (a, b) => report.violation("host-function-panicked", w(), json!({"exact": format!("{:?}", a.map(|x| x.map(|y| short(&y.outcome)))), "less": format!("{:?}", b.map(|x| x.map(|y| short(&y.outcome))))})),
            }
        }
    }
}

/// All energy budgets on a grid that is dense at both ends: with less than the run consumes
/// the run must end out of energy (it is a prefix of the same deterministic execution), with
/// `used + d` it must end exactly as before with `d` left.
fn budget_sweep(report: &Report, script: &Script, answers: &[Answer], c: &Ctx, mem0: &[u8], quick: bool) {
    let w = |b: u64| json!({"params": c.params.name, "script": script_json(script), "answers": answers.iter().map(|a| format!("{:?} state_updated={}", a.resp, a.state_updated)).collect::<Vec<_>>(), "budget": b});
    let e = expect(script, answers, c, mem0);
    let wasm = module_of(&e.full, mem0);
    let Ok(Ok(full)) = mc_core::catch(|| run_real(&wasm, c, BUDGET, answers)) else { return };
    let Some(rem) = full.remaining else { return };
    let used = BUDGET - rem;
    let (dense, spread) = if quick { (300u64, 100u64) } else { (3000, 1500) };
    let mut grid: Vec<u64> = (0..=dense.min(used)).collect();
    grid.extend((1..spread).map(|i| (used as u128 * i as u128 / spread as u128) as u64));
    grid.extend(used.saturating_sub(dense)..=used + 1);
    grid.push(used + 1000);
    grid.sort();
    grid.dedup();
    report.eval(grid.len() as u64);
    for b in grid {
        match mc_core::catch(|| run_real(&wasm, c, b, answers)) {
            Ok(Ok(r)) => {
                report.trace(1);
                if b < used {
                    if r.outcome != Outcome::OutOfEnergy {
                        report.violation("run-completes-with-less-energy-than-it-consumes", w(b), json!({"consumed_with_ample_budget": used, "observed": short(&r.outcome).chars().take(300).collect::<String>()}));
                        return;
                    }
                } else if r.outcome != full.outcome || r.remaining != Some(b - used) || r.sections != full.sections {
                    report.violation("energy-accounting-not-deterministic", w(b), json!({"consumed_with_ample_budget": used, "observed": short(&r.outcome).chars().take(300).collect::<String>(), "remaining": r.remaining}));
                    return;
                }
            }
            other => {
                report.violation("host-function-panicked", w(b), json!({"result": format!("{:?}", other.map(|x| x.map(|y| short(&y.outcome))))}));
                return;
            }
        }
    }
    report.outcome("budget sweep completed", 1);
}

// ---- alphabets ------------------------------------------------------------------------------

#[derive(Clone, Copy, PartialEq)]
enum Role {
    /// pointer to readable / writable contract memory
    Ptr,
    /// pointer to a key
    KeyPtr,
    Len,
    KeyLen,
    Off,
    Entry,
    Iter,
    ParamIdx,
    Tag,
    Size,
    /// pointer + exact length pairs are handled by the function's own list
    Fixed(u64),
}

fn roles(f: F) -> Vec<Role> {
    use Role::*;
    match f {
        F::GetParameterSize => vec![ParamIdx],
        F::GetParameterSection => vec![ParamIdx, Ptr, Len, Off],
        F::GetPolicySection => vec![Ptr, Len, Off],
        F::LogEvent => vec![Ptr, Len],
        F::GetSlotTime | F::GetReceiveSelfBalance | F::GetReceiveEntrypointSize => vec![],
        F::WriteOutput => vec![Ptr, Len, Off],
        F::StateLookupEntry | F::StateCreateEntry | F::StateDeleteEntry | F::StateDeletePrefix | F::StateIteratePrefix => vec![KeyPtr, KeyLen],
        F::StateIteratorNext | F::StateIteratorDelete | F::StateIteratorKeySize => vec![Iter],
        F::StateIteratorKeyRead => vec![Iter, Ptr, Len, Off],
        F::StateEntryRead | F::StateEntryWrite => vec![Entry, Ptr, Len, Off],
        F::StateEntrySize => vec![Entry],
        F::StateEntryResize => vec![Entry, Size],
        F::VerifyEd25519 => vec![Ptr, Ptr, Ptr, Len],
        F::VerifySecp256k1 => vec![Ptr, Ptr, Ptr],
        F::HashSha2 | F::HashSha3 | F::HashKeccak => vec![Ptr, Len, Ptr],
        F::Invoke => vec![Tag, Ptr, Len],
        F::GetReceiveInvoker | F::GetReceiveSelfAddress | F::GetReceiveSender | F::GetReceiveOwner | F::GetReceiveEntrypoint | F::Upgrade | F::GetInitOrigin => vec![Ptr],
    }
}

/// `full`: the hostile alphabet; otherwise one well-formed and one hostile value.
fn alphabet(r: Role, full: bool, n_entries: usize, n_iters: usize) -> Vec<Arg> {
    let c = |v: &[u64]| v.iter().map(|x| Arg::C(*x)).collect::<Vec<_>>();
    match r {
        Role::Ptr => {
            if full {
                c(&[0, SRC as u64, SCRATCH as u64, TAIL as u64 + 8, 0xFFFF, 0x10000, 0x10001, 0x7FFF_FFFF, 0xFFFF_FFFF, PK as u64, SIGNATURE as u64, MSG as u64, CALLARGS as u64])
            } else {
                c(&[SCRATCH as u64, 0xFFFF])
            }
        }
        Role::KeyPtr => {
            if full {
                c(&[KEYS as u64, KEYS as u64 + 2, KEYS as u64 + 3, 0xFFFF, 0x10000, 0xFFFF_FFFF])
            } else {
                c(&[KEYS as u64, KEYS as u64 + 2, 0xFFFF])
            }
        }
        Role::Len => {
            if full {
                c(&[0, 1, 5, 8, 32, 40, CALLARGS_LEN as u64, 0x100, 512, 513, 0xFFFF, 0x10000, 0x10001, 0xFFFF_FFFF])
            } else {
                c(&[5, 0x10001])
            }
        }
        Role::KeyLen => {
            if full {
                c(&[0, 1, 2, 3, 0x100, 0xFFFF, 0x10000, 0xFFFF_FFFF])
            } else {
                c(&[1, 2, 0x10000])
            }
        }
        Role::Off => {
            if full {
                c(&[0, 1, 4, 5, 6, 11, 12, 13, 16, 17, 0x110, 16383, 16384, 0xFFFF_FFFF])
            } else {
                c(&[0, 6])
            }
        }
        Role::Entry | Role::Iter => {
            let n = if r == Role::Entry { n_entries } else { n_iters };
            let mut v: Vec<Arg> = (0..n).map(Arg::Res).collect();
            if full {
                v.extend(c(&[0, 1, 7, 1 << 32, (1 << 32) | 1, u64::MAX, ERR64, u64::MAX >> 1]));
            } else {
                v.extend(c(&[7]));
            }
            v
        }
        Role::ParamIdx => c(&[0, 1, 0xFFFF_FFFF]),
        Role::Tag => c(&[0, 1, 2, 3, 4, 5, 6, 7, 8, 9, 0xFFFF_FFFF]),
        Role::Size => {
            if full {
                c(&[0, 1, 5, 16, 17, 0x1000, 1 << 20, (1 << 30) - 1, 1 << 30, (1 << 30) + 1, 0xFFFF_FFFF])
            } else {
                c(&[3, (1 << 30) + 1])
            }
        }
        Role::Fixed(v) => c(&[v]),
    }
}

fn product(lists: &[Vec<Arg>]) -> Vec<Vec<Arg>> {
    let mut out = vec![vec![]];
    for l in lists {
        let mut next = vec![];
        for p in &out {
            for a in l {
                let mut q = p.clone();
                q.push(a.clone());
                next.push(q);
            }
        }
        out = next;
    }
    out
}

/// Steps that give later calls something to refer to: result[0] = handle of entry 12,
/// result[1] = handle of entry 12 34, result[2] = iterator over prefix 12.
fn prefix() -> Script {
    vec![
        Call { f: F::StateLookupEntry, args: vec![Arg::C(KEYS as u64), Arg::C(1)] },
        Call { f: F::StateLookupEntry, args: vec![Arg::C(KEYS as u64), Arg::C(2)] },
        Call { f: F::StateIteratePrefix, args: vec![Arg::C(KEYS as u64), Arg::C(1)] },
    ]
}

fn arg_lists(f: F, full: bool) -> Vec<Vec<Arg>> {
    let lists: Vec<Vec<Arg>> = roles(f)
        .iter()
        .map(|r| match r {
            // within the prefix: entries are results 0 and 1, the iterator is result 2
            Role::Entry => {
                let mut v = vec![Arg::Res(0), Arg::Res(1)];
                v.extend(alphabet(Role::Entry, full, 0, 0));
                v
            }
            Role::Iter => {
                let mut v = vec![Arg::Res(2)];
                v.extend(alphabet(Role::Iter, full, 0, 0));
                v
            }
            r => alphabet(*r, full, 0, 0),
        })
        .collect();
    product(&lists)
}

/// Argument lists for a contract with two pages of memory: the bounds are at 128 KiB now, the
/// old bound (64 KiB) is an ordinary address.
fn arg_lists_two_pages(f: F) -> Vec<Vec<Arg>> {
    let c = |v: &[u64]| v.iter().map(|x| Arg::C(*x)).collect::<Vec<_>>();
    let lists: Vec<Vec<Arg>> = roles(f)
        .iter()
        .map(|r| match r {
            Role::Ptr => c(&[SCRATCH as u64, 0xFFFF, 0x10000, 0x1FFF8, 0x1FFFF, 0x20000, 0xFFFF_FFFF]),
            Role::KeyPtr => c(&[KEYS as u64, 0xFFFF, 0x1FFFF, 0x20000]),
            Role::Len => c(&[0, 1, 8, 40, 0x10000, 0x10001, 0x1FFFF, 0x20000]),
            Role::KeyLen => c(&[1, 2, 0x10000, 0x1FFFF]),
            Role::Off => c(&[0, 1, 5]),
            Role::Entry => vec![Arg::Res(0), Arg::Res(1)],
            Role::Iter => vec![Arg::Res(2)],
            Role::ParamIdx => c(&[0]),
            Role::Tag => c(&[0, 1, 2]),
            Role::Size => c(&[3, 0x1FFFF]),
            Role::Fixed(v) => c(&[*v]),
        })
        .collect();
    product(&lists)
}

fn run_engine(cli: &Cli, report: &Report) {
    let quick = cli.tier == Tier::Quick;
    let mem0 = initial_memory(cli.seed);
    // ---- layer 1: every function x the full argument product, after the common prefix ----
    let param_sets: Vec<Params> = vec![P4, P5, P6, P7];
    let mut cases: Vec<(Params, Script)> = vec![];
    for f in ALL {
        let lists = arg_lists(f, true);
        // quick: the largest products are thinned deterministically
        let stride = if quick { lists.len().div_ceil(40_000).max(1) } else { 1 };
        for (i, args) in lists.into_iter().enumerate() {
            if i % stride != 0 {
                continue;
            }
            for p in &param_sets {
                // functions that do not depend on the parameter set: once
                if *p != param_sets[0] && !matches!(f, F::Invoke | F::LogEvent | F::WriteOutput) {
                    continue;
                }
                let mut s = prefix();
                s.push(Call { f, args: args.clone() });
                cases.push((*p, s));
            }
        }
    }
    report.set_extra("single_call_cases", json!(cases.len()));
    cases.par_iter().enumerate().for_each(|(i, (p, s))| check_script(report, s, &ctx(*p), &mem0, !quick || i % 16 == 0));
    // ---- layer 1b: the init entrypoint (empty state; the prefix creates what it refers to) -----
    let prefix_init: Script = vec![
        Call { f: F::StateCreateEntry, args: vec![Arg::C(KEYS as u64), Arg::C(1)] },
        Call { f: F::StateCreateEntry, args: vec![Arg::C(KEYS as u64), Arg::C(2)] },
        Call { f: F::StateIteratePrefix, args: vec![Arg::C(KEYS as u64), Arg::C(1)] },
    ];
    let mut init_cases: Vec<(Params, Script)> = vec![];
    for f in ALL {
        let lists = arg_lists(f, true);
        let stride = if quick { lists.len().div_ceil(8_000).max(1) } else { 1 };
        for (i, args) in lists.into_iter().enumerate() {
            if i % stride != 0 {
                continue;
            }
            for p in [P4, P7] {
                if p != P4 && !matches!(f, F::LogEvent | F::WriteOutput) {
                    continue;
                }
                let mut s = prefix_init.clone();
                s.push(Call { f, args: args.clone() });
                init_cases.push((p, s));
            }
        }
    }
    for p in [P4, P7] {
        let cc = |f: F, a: &[u64]| Call { f, args: a.iter().map(|x| Arg::C(*x)).collect() };
        for n in [63usize, 64, 65] {
            init_cases.push((p, (0..n).map(|i| cc(F::LogEvent, &[SRC as u64, (i % 7) as u64])).collect()));
        }
        for (len, off) in [(0x4000u64, 0x4000u64), (2, 0x3fff), (2, 0x4000)] {
            init_cases.push((p, vec![cc(F::WriteOutput, &[0, 0x4000, 0]), cc(F::WriteOutput, &[SRC as u64, len, off])]));
        }
        init_cases.push((p, vec![cc(F::StateCreateEntry, &[KEYS as u64 + 3, 1]), Call { f: F::StateEntryWrite, args: vec![Arg::Res(0), Arg::C(SRC as u64), Arg::C(8), Arg::C(0)] }, cc(F::GetInitOrigin, &[SCRATCH as u64]), cc(F::GetParameterSize, &[0]), cc(F::GetParameterSection, &[0, SCRATCH as u64 + 64, 5, 0])]));
    }
    report.set_extra("init_cases", json!(init_cases.len()));
    init_cases.par_iter().enumerate().for_each(|(i, (p, s))| {
        let mut cx = ctx(*p);
        cx.init = true;
        check_script(report, s, &cx, &mem0, i % 16 == 0)
    });
    // ---- layer 2: contexts that single calls do not reach ------------------------------------
    let mut special: Vec<(Params, Script)> = vec![];
    let c = |f: F, a: &[u64]| Call { f, args: a.iter().map(|x| Arg::C(*x)).collect() };
    for p in [P4, P7] {
        // log limit: 64 logs, then more
        for n in [63usize, 64, 65, 66] {
            special.push((p, (0..n).map(|i| c(F::LogEvent, &[SRC as u64, (i % 7) as u64])).collect()));
        }
        // log size limit
        for len in [511u64, 512, 513] {
            special.push((p, vec![c(F::LogEvent, &[SRC as u64 - 0x100, len])]));
        }
        // return value at its limit (P4: capped at 16384 bytes)
        for (len, off_delta) in [(0x4000u64, 0i64), (0x3fff, 0), (0x4001, 0), (2, -1), (2, 0), (1, 1)] {
            let mut s = vec![c(F::WriteOutput, &[0, 0x4000, 0])];
            s.push(c(F::WriteOutput, &[SRC as u64, len, (0x4000 + off_delta) as u64]));
            special.push((p, s));
        }
        // writing at an offset beyond the current end of the return value
        special.push((p, vec![c(F::WriteOutput, &[SRC as u64, 4, 1])]));
        // entries: create, write beyond the end, resize, read back; iterators and locks
        special.push((p, vec![c(F::StateCreateEntry, &[KEYS as u64 + 3, 1]), Call { f: F::StateEntryWrite, args: vec![Arg::Res(0), Arg::C(SRC as u64), Arg::C(8), Arg::C(0)] }, Call { f: F::StateEntryWrite, args: vec![Arg::Res(0), Arg::C(SRC as u64), Arg::C(4), Arg::C(9)] }, Call { f: F::StateEntryWrite, args: vec![Arg::Res(0), Arg::C(SRC as u64), Arg::C(4), Arg::C(8)] }, Call { f: F::StateEntryRead, args: vec![Arg::Res(0), Arg::C(SCRATCH as u64), Arg::C(32), Arg::C(2)] }, Call { f: F::StateEntrySize, args: vec![Arg::Res(0)] }]));
        special.push((p, vec![c(F::StateIteratePrefix, &[KEYS as u64, 1]), c(F::StateCreateEntry, &[KEYS as u64, 2]), c(F::StateDeleteEntry, &[KEYS as u64, 1]), c(F::StateDeletePrefix, &[KEYS as u64, 0]), Call { f: F::StateIteratorDelete, args: vec![Arg::Res(0)] }, c(F::StateDeleteEntry, &[KEYS as u64, 1]), Call { f: F::StateIteratorNext, args: vec![Arg::Res(0)] }, Call { f: F::StateIteratorDelete, args: vec![Arg::Res(0)] }]));
        // an iterator run to exhaustion, then asked for its key, advanced again and deleted
        special.push((p, vec![c(F::StateIteratePrefix, &[KEYS as u64, 1]), Call { f: F::StateIteratorNext, args: vec![Arg::Res(0)] }, Call { f: F::StateIteratorNext, args: vec![Arg::Res(0)] }, Call { f: F::StateIteratorNext, args: vec![Arg::Res(0)] }, Call { f: F::StateIteratorKeySize, args: vec![Arg::Res(0)] }, Call { f: F::StateIteratorKeyRead, args: vec![Arg::Res(0), Arg::C(SCRATCH as u64), Arg::C(8), Arg::C(0)] }, Call { f: F::StateIteratorNext, args: vec![Arg::Res(0)] }, Call { f: F::StateIteratorDelete, args: vec![Arg::Res(0)] }]));
        // an entry deleted under a live handle
        special.push((p, vec![c(F::StateLookupEntry, &[KEYS as u64, 2]), c(F::StateDeleteEntry, &[KEYS as u64, 2]), Call { f: F::StateEntrySize, args: vec![Arg::Res(0)] }, Call { f: F::StateEntryRead, args: vec![Arg::Res(0), Arg::C(SCRATCH as u64), Arg::C(4), Arg::C(0)] }, Call { f: F::StateEntryWrite, args: vec![Arg::Res(0), Arg::C(SRC as u64), Arg::C(4), Arg::C(0)] }, Call { f: F::StateEntryResize, args: vec![Arg::Res(0), Arg::C(3)] }]));
    }
    // calls whose work is proportional to a length (these matter most for the budget sweep)
    for p in [P4, P7] {
        let pre = prefix();
        let heavy: Vec<Call> = vec![
            c(F::HashSha2, &[0, 0xF000, SCRATCH as u64]),
            c(F::HashSha3, &[0, 0xF000, SCRATCH as u64]),
            c(F::HashKeccak, &[0, 0xF000, SCRATCH as u64]),
            c(F::VerifyEd25519, &[PK as u64, SIGNATURE as u64, MSG as u64, 5]),
            c(F::VerifyEd25519, &[PK as u64, SIGNATURE as u64, 0, 0xF000]),
            c(F::WriteOutput, &[0, 0x8000, 0]),
            c(F::LogEvent, &[0, 512]),
            c(F::GetParameterSection, &[0, SCRATCH as u64, 5, 0]),
            c(F::GetPolicySection, &[SCRATCH as u64, 12, 0]),
            Call { f: F::StateEntryResize, args: vec![Arg::Res(0), Arg::C(0x8000)] },
            Call { f: F::StateEntryWrite, args: vec![Arg::Res(0), Arg::C(0), Arg::C(0x4000), Arg::C(0)] },
            Call { f: F::StateEntryRead, args: vec![Arg::Res(1), Arg::C(SCRATCH as u64), Arg::C(16), Arg::C(0)] },
            Call { f: F::StateIteratorNext, args: vec![Arg::Res(2)] },
            Call { f: F::StateIteratorKeyRead, args: vec![Arg::Res(2), Arg::C(SCRATCH as u64), Arg::C(4), Arg::C(0)] },
            c(F::StateCreateEntry, &[SRC as u64, 0x100]),
            c(F::StateDeletePrefix, &[KEYS as u64 + 2, 1]),
            c(F::Invoke, &[1, CALLARGS as u64, CALLARGS_LEN as u64]),
        ];
        for h in heavy {
            let mut s = pre.clone();
            s.push(h);
            special.push((p, s));
        }
    }
    // contracts with two pages of memory: the same functions at the new bounds
    let mut mem2 = mem0.clone();
    mem2.resize(2 * MEM, 0);
    let mut two_page: Vec<Script> = vec![];
    for f in ALL {
        if roles(f).iter().all(|r| !matches!(r, Role::Ptr | Role::KeyPtr)) {
            continue;
        }
        for args in arg_lists_two_pages(f) {
            let mut s = prefix();
            s.push(Call { f, args });
            two_page.push(s);
        }
    }
    report.set_extra("two_page_memory_cases", json!(two_page.len()));
    let p7c = ctx(P7);
    two_page.par_iter().enumerate().for_each(|(i, s)| check_script(report, s, &p7c, &mem2, i % 16 == 0));
    // all parameter sizes that matter: empty, one byte, the limits of the parameter sets
    let mut param_cases: Vec<(Ctx, Script)> = vec![];
    for p in [P4, P7] {
        for plen in [0usize, 1, 1024, 65535] {
            let mut cx = ctx(p);
            cx.parameter = (0..plen).map(|i| (i * 13 + 5) as u8).collect();
            param_cases.push((cx.clone(), vec![c(F::GetParameterSize, &[0])]));
            let pl = plen as u64;
            let mut lens = vec![0, 1, pl.saturating_sub(1), pl, pl + 1, 0xFFFF, 0x10000];
            lens.sort();
            lens.dedup();
            let mut offs = vec![0, 1, pl.saturating_sub(1), pl, pl + 1];
            offs.sort();
            offs.dedup();
            for ptr in [0u64, 1, SCRATCH as u64] {
                for len in &lens {
                    for off in &offs {
                        param_cases.push((cx.clone(), vec![c(F::GetParameterSection, &[0, ptr, *len, *off])]));
                    }
                }
            }
        }
    }
    report.set_extra("parameter_size_cases", json!(param_cases.len()));
    param_cases.par_iter().for_each(|(cx, s)| check_script(report, s, cx, &mem0, true));
    // `invoke` of another contract: parameter length around the limit of the parameter set
    // (1024 before P5, 65535 from P5), entrypoint name lengths around 100 and characters
    // outside the name alphabet, payload one byte short / exact / one byte long
    let mut payload_cases: Vec<(Params, Script, Vec<u8>)> = vec![];
    for p in [P4, P5, P7] {
        for plen in [0usize, 1, 1023, 1024, 1025, 4096, 40000] {
            for (nlen, ch) in [(0usize, b'a'), (1, b'a'), (99, b'z'), (100, b'a'), (101, b'a'), (3, b' '), (3, 0x7f), (3, 0xC3), (2, b'.')] {
                let mut mem = mem0.clone();
                let b = BIG as usize;
                mem[b..b + 8].copy_from_slice(&9u64.to_le_bytes());
                mem[b + 16..b + 18].copy_from_slice(&(plen as u16).to_le_bytes());
                for i in 0..plen.min(64) {
                    mem[b + 18 + i] = 0x40 + (i % 7) as u8;
                }
                let at = b + 18 + plen;
                mem[at..at + 2].copy_from_slice(&(nlen as u16).to_le_bytes());
                for i in 0..nlen {
                    mem[at + 2 + i] = ch;
                }
                mem[at + 2 + nlen..at + 2 + nlen + 8].copy_from_slice(&5u64.to_le_bytes());
                let total = (18 + plen + 2 + nlen + 8) as u64;
                for len in [total - 1, total, total + 1] {
                    payload_cases.push((p, vec![c(F::Invoke, &[1, BIG as u64, len])], mem.clone()));
                }
            }
        }
    }
    report.set_extra("invoke_payload_cases", json!(payload_cases.len()));
    payload_cases.par_iter().for_each(|(p, s, mem)| check_script(report, s, &ctx(*p), mem, true));
    report.set_extra("context_cases", json!(special.len()));
    special.par_iter().for_each(|(p, s)| check_script(report, s, &ctx(*p), &mem0, true));
    special.par_iter().for_each(|(p, s)| budget_sweep(report, s, &[], &ctx(*p), &mem0, quick));
    // ---- layer 3: all scripts of <= 2 (thorough 3) calls over the reduced alphabet ------------
    let mut atoms: Vec<Call> = vec![];
    for f in ALL {
        if matches!(f, F::VerifyEd25519 | F::VerifySecp256k1) {
            continue;
        }
        for args in arg_lists(f, false) {
            atoms.push(Call { f, args });
        }
    }
    let state_atoms: Vec<Call> = atoms.iter().filter(|a| matches!(a.f, F::StateLookupEntry | F::StateCreateEntry | F::StateDeleteEntry | F::StateDeletePrefix | F::StateIteratePrefix | F::StateIteratorNext | F::StateIteratorDelete | F::StateIteratorKeySize | F::StateEntryWrite | F::StateEntryResize | F::StateEntrySize)).cloned().collect();
    let mut scripts: Vec<Script> = vec![];
    for a in &atoms {
        for b in &atoms {
            let mut s = prefix();
            s.push(a.clone());
            s.push(b.clone());
            scripts.push(s);
        }
    }
    let pairs = scripts.len();
    let tstride = if quick { 3 } else { 1 };
    let mut k = 0usize;
    for a in &state_atoms {
        for b in &state_atoms {
            for cc in &state_atoms {
                k += 1;
                if k % tstride != 0 {
                    continue;
                }
                let mut s = prefix();
                s.push(a.clone());
                s.push(b.clone());
                s.push(cc.clone());
                scripts.push(s);
            }
        }
    }
    let pstride = 1;
    let scripts: Vec<Script> = scripts.into_iter().enumerate().filter(|(i, _)| *i >= pairs || i % pstride == 0).map(|(_, s)| s).collect();
    report.set_extra("reduced_alphabet_atoms", json!(atoms.len()));
    report.set_extra("script_cases", json!(scripts.len()));
    let p7 = ctx(P7);
    scripts.par_iter().for_each(|s| check_script(report, s, &p7, &mem0, false));
    if !quick {
        // thorough: the pairs once more under the oldest parameter set (limits on, no queries), and
        // all scripts of four state operations over the well-formed half of the state alphabet
        let p4 = ctx(P4);
        scripts.par_iter().take(pairs).for_each(|s| check_script(report, s, &p4, &mem0, false));
        let core: Vec<Call> = state_atoms.iter().filter(|a| a.args.iter().all(|x| !matches!(x, Arg::C(v) if *v >= 0xFFFF))).cloned().collect();
        let mut quads: Vec<Script> = vec![];
        for a in &core {
            for b in &core {
                for cc in &core {
                    for d in &core {
                        let mut s = prefix();
                        s.extend([a.clone(), b.clone(), cc.clone(), d.clone()]);
                        quads.push(s);
                    }
                }
            }
        }
        report.set_extra("state_quadruple_cases", json!({"alphabet": core.len(), "scripts": quads.len()}));
        quads.par_iter().for_each(|s| check_script(report, s, &p7, &mem0, false));
    }
    // ---- layer 4: interrupts answered and resumed; call depth ---------------------------------
    resume::run_resume(report, cli.tier, &mem0, &atoms);
    // ---- layer 5: import and export declarations ----------------------------------------------
    imports::run_imports(report);
    // ---- the legacy (v0) interface -------------------------------------------------------------
    v0host::run_v0(report, cli.tier, &mem0);
}

fn main() {
    let cli = mc_core::parse_cli();
    mc_core::quiet_panics();
    if cli.property != "C14" && cli.property != "C13" {
        mc_core::machinery_error(&format!("mc-host does not serve property {}", cli.property));
    }
    let report = Report::new(&cli);
    if cli.property == "C13" {
        // the chain-level part of C13 (embedded in mc-wasm's check): executions interrupted at
        // invoke / upgrade, answered and resumed, against the reference model
        let mem0 = initial_memory(cli.seed);
        let mut atoms: Vec<Call> = vec![];
        for f in ALL {
            if matches!(f, F::VerifyEd25519 | F::VerifySecp256k1) {
                continue;
            }
            for args in arg_lists(f, false) {
                atoms.push(Call { f, args });
            }
        }
        resume::run_resume(&report, cli.tier, &mem0, &atoms);
        report.set_technique("interrupts of v1 receive executions answered and resumed through resume_receive: [carried-over effect] interrupt answer [follow-up call], one and two interrupts, limits across sections, nesting programs with interrupts - each compared with the reference model of the host interface (what an uninterrupted execution with the same answers does)");
        report.finish(true, json!({"part": "chain-level resume"}));
    }
    run_engine(&cli, &report);
    let n = report.evaluations.load(std::sync::atomic::Ordering::Relaxed);
    report.state(n);
    report.transition(report.traces.load(std::sync::atomic::Ordering::Relaxed));
    report.nontrivial(n);
    report.sample(json!({"params": "P4", "script": ["state_lookup_entry(0x100, 0x1)", "state_lookup_entry(0x100, 0x2)", "state_iterate_prefix(0x100, 0x1)", "state_entry_read(result[0], 0xffff, 0x5, 0x1)"], "expected": "trap (destination window leaves the linear memory)"}));
    report.sample(json!({"params": "P4", "script": ["write_output(0x0, 0x4000, 0x0)", "write_output(0x200, 0x2, 0x3fff)"], "expected": "second call writes 1 byte (return value capped at 16384 under P4), 2 bytes under P7"}));
    report.set_technique("exhaustive enumeration: every v1 host function x the full cartesian product of a hostile argument alphabet per parameter role (pointers at 0 / in range / last byte / one past / 2^31 / 2^32-1, lengths 0..2^32-1 at the memory, log and parameter boundaries, offsets around every object size, valid / stale / foreign / sentinel handles, every invoke tag and one undefined) after a common state prefix, under protocol parameter sets P4..P7; targeted limit contexts; all scripts of <= 2 (thorough 3) calls over a reduced alphabet; each compiled to a real contract, run through invoke_receive and compared with a reference model of the documented host interface; interrupts answered and resumed through resume_receive (one and two interrupts x answers x carried-over effects x follow-up calls); recursive nesting programs around the 1024-frame limit with interrupts at stage boundaries on v1 receive / v1 init / v0; the same product scheme for the 19 v0 host functions");
    report.set_rule("one case = one generated contract executed once (plus, for a sixteenth - thorough: all - of the successful single calls and all context cases, twice more with the exact and the exact-minus-one energy budget): the outcome (success with return value, logs and final state / trap / out of energy / interrupt with payload) must be one the model allows, no panic, and every completed host call charges at least its scheduled energy; for answered interrupts also the payload, the logs handed over, the state-changed flag and the value returned to the contract; a nesting program ends normally iff its deepest nesting is <= 1024");
    report.assume("secp256k1 verification is only exercised with invalid signatures (the engine is built against a stand-in for the uncached secp256k1 crate); ed25519 goes through ed25519-dalek in both the stand-in and the model");
    report.assume("energy the model cannot bound from the documentation (trie traversal steps) is treated as a lower bound: charged >= scheduled");
    report.finish(true, json!({"functions": ALL.len(), "tier": format!("{:?}", cli.tier)}));
}
