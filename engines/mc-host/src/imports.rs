//! Layer 5: what the chain lets a contract import and export. The host functions take their
//! arguments off the interpreter stack without checks of their own; that is safe only because
//! validation admits an import only under its exact name and type. Every host function of both
//! interfaces is declared under every near-miss of its type (each proper prefix of the parameter
//! list, one parameter more of either type, each parameter and the result of the other type,
//! result added / removed) and under near-miss names; entrypoint exports under near-miss types and
//! names. A module is admitted exactly when the documented table says so, and an admitted module
//! is then run (arguments all zero): no panic.
use super::*;
use super::ast::BT;

#[derive(Clone, Debug, PartialEq)]
struct Ty {
    params: Vec<VT>,
    result: Option<VT>,
}

fn other(t: VT) -> VT {
    if t == VT::I32 {
        VT::I64
    } else {
        VT::I32
    }
}

fn near_misses(t: &Ty) -> Vec<(String, Ty)> {
    let mut v = vec![];
    for k in 0..t.params.len() {
        v.push((format!("only the first {k} parameters"), Ty { params: t.params[..k].to_vec(), result: t.result }));
    }
    for extra in [VT::I32, VT::I64] {
        let mut p = t.params.clone();
        p.push(extra);
        v.push((format!("one more parameter ({})", extra.name()), Ty { params: p, result: t.result }));
        let mut p = vec![extra];
        p.extend(t.params.iter().copied());
        v.push((format!("one more parameter in front ({})", extra.name()), Ty { params: p, result: t.result }));
    }
    for k in 0..t.params.len() {
        let mut p = t.params.clone();
        p[k] = other(p[k]);
        v.push((format!("parameter {k} of the other type"), Ty { params: p, result: t.result }));
    }
    match t.result {
        Some(r) => {
            v.push(("result of the other type".into(), Ty { params: t.params.clone(), result: Some(other(r)) }));
            v.push(("result removed".into(), Ty { params: t.params.clone(), result: None }));
        }
        None => {
            v.push(("result added (i32)".into(), Ty { params: t.params.clone(), result: Some(VT::I32) }));
            v.push(("result added (i64)".into(), Ty { params: t.params.clone(), result: Some(VT::I64) }));
        }
    }
    v
}

/// A module importing `module.name : ty`, calling it once with zero arguments from the entrypoint,
/// exported as `export` with type `entry_ty` (and as the other kind of entrypoint with the right
/// type when `export` is neither).
fn module_with(import: Option<(&str, &str, &Ty)>, exports: &[(&str, Ty)], v0_receive_accept: bool) -> Vec<u8> {
    let mut m = Module::default();
    let mut body = vec![];
    if let Some((mn, name, ty)) = import {
        m.types.push(FuncType { params: ty.params.clone(), result: ty.result });
        m.imports.push(Import { module: mn.into(), name: name.into(), ty: 0 });
        for p in &ty.params {
            body.push(if *p == VT::I32 { Instr::I32Const(0) } else { Instr::I64Const(0) });
        }
        body.push(Instr::Call(0));
        if ty.result.is_some() {
            body.push(Instr::Drop);
        }
    }
    let _ = v0_receive_accept;
    let _ = BT::Empty;
    let n_imports = m.imports.len() as u32;
    for (i, (name, ty)) in exports.iter().enumerate() {
        let ti = m.types.len() as u32;
        m.types.push(FuncType { params: ty.params.clone(), result: ty.result });
        let mut b = if i == 0 { body.clone() } else { vec![] };
        match ty.result {
            Some(VT::I32) => b.push(Instr::I32Const(0)),
            Some(VT::I64) => b.push(Instr::I64Const(0)),
            None => {}
        }
        m.funcs.push(Func { ty: ti, locals: vec![], body: b });
        m.exports.push((name.to_string(), ExportKind::Func(n_imports + i as u32)));
    }
    m.memory = Some((1, Some(1)));
    m.encode()
}

fn entry_ty() -> Ty { Ty { params: vec![VT::I64], result: Some(VT::I32) } }

fn admitted_v1(wasm: &[u8], support_upgrade: bool) -> Result<bool, String> {
    match mc_core::catch(|| instantiate_with_metering::<ProcessedImports>(ValidationConfig::V1, CostConfigurationV1, &ConcordiumAllowedImports { support_upgrade, enable_debug: false }, wasm).is_ok()) {
        Ok(b) => Ok(b),
        Err(p) => Err(p),
    }
}

fn admitted_v0(wasm: &[u8]) -> Result<bool, String> {
    use concordium_smart_contract_engine::v0;
    use concordium_wasm::CostConfigurationV0;
    match mc_core::catch(|| instantiate_with_metering::<v0::ProcessedImports>(ValidationConfig::V0, CostConfigurationV0, &v0::ConcordiumAllowedImports, wasm).is_ok()) {
        Ok(b) => Ok(b),
        Err(p) => Err(p),
    }
}

pub fn run_imports(report: &Report) {
    let vt = |w: &bool| if *w { VT::I64 } else { VT::I32 };
    // ---- v1 imports ------------------------------------------------------------------------------
    let mut cases: Vec<(bool, String, String, String, Ty, bool)> = vec![]; // (v0?, module, name, what, type, expected)
    for f in ALL {
        let (name, ps, r) = sig(f);
        let good = Ty { params: ps.iter().map(vt).collect(), result: r.as_ref().map(vt) };
        cases.push((false, "concordium".into(), name.into(), "documented type".into(), good.clone(), true));
        for (what, t) in near_misses(&good) {
            cases.push((false, "concordium".into(), name.into(), what, t, false));
        }
        for mn in ["Concordium", "concordium ", "env", ""] {
            cases.push((false, mn.into(), name.into(), format!("module name {mn:?}"), good.clone(), false));
        }
        cases.push((false, "concordium".into(), format!("{name}2"), "name with a suffix".into(), good.clone(), false));
        cases.push((false, "concordium".into(), name.to_uppercase(), "upper-case name".into(), good.clone(), false));
    }
    // v0-only names under v1 and v1-only names under v0
    for (name, ps, r) in [("accept", vec![], Some(VT::I32)), ("send", vec![VT::I64, VT::I64, VT::I32, VT::I32, VT::I64, VT::I32, VT::I32], Some(VT::I32)), ("load_state", vec![VT::I32, VT::I32, VT::I32], Some(VT::I32)), ("state_size", vec![], Some(VT::I32))] {
        cases.push((false, "concordium".into(), name.into(), "a v0 function".into(), Ty { params: ps, result: r }, false));
    }
    for f in super::v0host::ALL0 {
        let (name, ps, r) = super::v0host::sig0_pub(f);
        let good = Ty { params: ps.iter().map(vt).collect(), result: r.as_ref().map(vt) };
        cases.push((true, "concordium".into(), name.into(), "documented type".into(), good.clone(), true));
        for (what, t) in near_misses(&good) {
            cases.push((true, "concordium".into(), name.into(), what, t, false));
        }
        cases.push((true, "Concordium".into(), name.into(), "module name Concordium".into(), good.clone(), false));
        cases.push((true, "concordium".into(), format!("{name}_"), "name with a suffix".into(), good.clone(), false));
    }
    for (name, ps, r) in [("state_lookup_entry", vec![VT::I32, VT::I32], Some(VT::I64)), ("invoke", vec![VT::I32, VT::I32, VT::I32], Some(VT::I64)), ("write_output", vec![VT::I32, VT::I32, VT::I32], Some(VT::I32)), ("upgrade", vec![VT::I32], Some(VT::I64))] {
        cases.push((true, "concordium".into(), name.into(), "a v1 function".into(), Ty { params: ps, result: r }, false));
    }
    report.set_extra("import_declaration_cases", json!(cases.len()));
    cases.par_iter().for_each(|(is_v0, mn, name, what, ty, want)| {
        report.eval(1);
        let w = json!({"layer": "import declarations", "interface": if *is_v0 { "v0" } else { "v1" }, "import": format!("{mn}.{name}"), "declared_as": what, "type": format!("{:?} -> {:?}", ty.params.iter().map(|t| t.name()).collect::<Vec<_>>(), ty.result.map(|t| t.name()))});
        let wasm = module_with(Some((mn, name, ty)), &[("init_c", entry_ty()), ("c.run", entry_ty())], false);
        let got = if *is_v0 { admitted_v0(&wasm) } else { admitted_v1(&wasm, true) };
        report.trace(1);
        match got {
            Err(p) => report.violation("validation-panicked", w, json!({"panic": p})),
            Ok(g) if g == *want => report.outcome(if g { "import admitted" } else { "import refused" }, 1),
            Ok(true) => {
                // admitted although it must not be: run it to show what happens
                let ran = if *is_v0 { mc_core::catch(|| super::v0host::run_nesting_v0(&wasm, true)).map(|r| format!("{r:?}")) } else { mc_core::catch(|| run_real(&wasm, &{ let mut c = ctx(P7); c.init = true; c }, BUDGET, &[]).map(|r| short(&r.outcome))).map(|r| format!("{r:?}")) };
                report.violation("mistyped-or-unknown-host-import-admitted", w, json!({"running_it": format!("{ran:?}").chars().take(300).collect::<String>()}));
            }
            Ok(false) => report.violation("documented-host-import-refused", w, json!({})),
        }
    });
    // upgrade is only importable where the protocol supports it
    for (support, want) in [(true, true), (false, false)] {
        report.eval(1);
        let wasm = module_with(Some(("concordium", "upgrade", &Ty { params: vec![VT::I32], result: Some(VT::I64) })), &[("init_c", entry_ty()), ("c.run", entry_ty())], false);
        if admitted_v1(&wasm, support) != Ok(want) {
            report.violation("upgrade-import-not-gated-by-protocol-support", json!({"layer": "import declarations", "support_upgrade": support}), json!({}));
        }
    }
    // ---- exports -----------------------------------------------------------------------------------
    // documented: names of at most 100 ASCII alphanumeric / punctuation characters; `init_` names
    // without a dot and names with a dot (not starting with `init_`) are entrypoints and must have
    // type (i64) -> i32; v1 admits other exports with any type, v0 admits entrypoints only
    let mut ex: Vec<(String, Ty, bool, bool)> = vec![]; // name, type, admitted by v1, admitted by v0
    let tys = [
        (entry_ty(), true),
        (Ty { params: vec![VT::I64], result: Some(VT::I64) }, false),
        (Ty { params: vec![VT::I32], result: Some(VT::I32) }, false),
        (Ty { params: vec![], result: Some(VT::I32) }, false),
        (Ty { params: vec![VT::I64, VT::I64], result: Some(VT::I32) }, false),
        (Ty { params: vec![VT::I64], result: None }, false),
    ];
    let mut names: Vec<String> = ["init_c", "c.run", "c.", ".run", "init_c.x", "init_", "helper", "init", "c run", "c.r\u{7f}n", "."].iter().map(|s| s.to_string()).collect();
    for n in [99usize, 100, 101] {
        names.push(format!("init_{}", "c".repeat(n - 5)));
        names.push(format!("{}.{}", "c".repeat(n / 2), "d".repeat(n - n / 2 - 1)));
        names.push("h".repeat(n));
    }
    for (t, entry_type) in &tys {
        for name in &names {
            let valid_name = name.len() <= 100 && name.chars().all(|c| c.is_ascii_alphanumeric() || c.is_ascii_punctuation());
            let is_entry = if name.starts_with("init_") { !name.contains('.') } else { name.contains('.') };
            let v1 = valid_name && (!is_entry || *entry_type);
            let v0 = valid_name && is_entry && *entry_type;
            ex.push((name.clone(), t.clone(), v1, v0));
        }
    }
    report.set_extra("export_declaration_cases", json!(ex.len()));
    ex.par_iter().for_each(|(name, ty, want_v1, want_v0)| {
        report.eval(2);
        let w = json!({"layer": "export declarations", "export": name, "type": format!("{:?} -> {:?}", ty.params.iter().map(|t| t.name()).collect::<Vec<_>>(), ty.result.map(|t| t.name()))});
        let wasm = module_with(None, &[(name.as_str(), ty.clone())], false);
        report.trace(2);
        for (iface, got, want) in [("v1", admitted_v1(&wasm, true), want_v1), ("v0", admitted_v0(&wasm), want_v0)] {
            match got {
                Err(p) => report.violation("validation-panicked", w.clone(), json!({"panic": p, "interface": iface})),
                Ok(g) if g == *want => report.outcome(if g { "export admitted" } else { "export refused" }, 1),
                Ok(g) => report.violation(if g { "ill-formed-export-admitted" } else { "well-formed-export-refused" }, w.clone(), json!({"interface": iface})),
            }
        }
    });
}
