//! Reference model of the documented v1 host interface: flat contract memory, parameters,
//! policy bytes, an ordered-map state with entry and iterator handles, logs, return value.
//! Written from the host-function documentation; each call yields what the contract sees
//! (return value, bytes written to its memory), the scheduled energy, and whether an
//! argument addresses memory outside the contract's linear memory.

use concordium_smart_contract_engine::constants as k;
use sha2::Digest;
use std::collections::BTreeMap;

pub const MEM: usize = 65536;
pub const NONE64: u64 = u64::MAX;
pub const ERR64: u64 = u64::MAX & !(1u64 << 62);
pub const INVALID: u32 = u32::MAX;

#[derive(Clone, Copy, Debug, PartialEq, Eq, Hash, PartialOrd, Ord)]
pub enum F {
    GetParameterSize,
    GetParameterSection,
    GetPolicySection,
    LogEvent,
    GetSlotTime,
    WriteOutput,
    StateLookupEntry,
    StateCreateEntry,
    StateDeleteEntry,
    StateDeletePrefix,
    StateIteratePrefix,
    StateIteratorNext,
    StateIteratorDelete,
    StateIteratorKeySize,
    StateIteratorKeyRead,
    StateEntryRead,
    StateEntryWrite,
    StateEntrySize,
    StateEntryResize,
    VerifyEd25519,
    VerifySecp256k1,
    HashSha2,
    HashSha3,
    HashKeccak,
    Invoke,
    GetReceiveInvoker,
    GetReceiveSelfAddress,
    GetReceiveSelfBalance,
    GetReceiveSender,
    GetReceiveOwner,
    GetReceiveEntrypointSize,
    GetReceiveEntrypoint,
    Upgrade,
    GetInitOrigin,
}

pub const ALL: [F; 34] = [
    F::GetParameterSize,
    F::GetParameterSection,
    F::GetPolicySection,
    F::LogEvent,
    F::GetSlotTime,
    F::WriteOutput,
    F::StateLookupEntry,
    F::StateCreateEntry,
    F::StateDeleteEntry,
    F::StateDeletePrefix,
    F::StateIteratePrefix,
    F::StateIteratorNext,
    F::StateIteratorDelete,
    F::StateIteratorKeySize,
    F::StateIteratorKeyRead,
    F::StateEntryRead,
    F::StateEntryWrite,
    F::StateEntrySize,
    F::StateEntryResize,
    F::VerifyEd25519,
    F::VerifySecp256k1,
    F::HashSha2,
    F::HashSha3,
    F::HashKeccak,
    F::Invoke,
    F::GetReceiveInvoker,
    F::GetReceiveSelfAddress,
    F::GetReceiveSelfBalance,
    F::GetReceiveSender,
    F::GetReceiveOwner,
    F::GetReceiveEntrypointSize,
    F::GetReceiveEntrypoint,
    F::Upgrade,
    F::GetInitOrigin,
];

/// (import name, parameter widths: false = i32 / true = i64, result: None / Some(is64))
pub fn sig(f: F) -> (&'static str, &'static [bool], Option<bool>) {
    match f {
        F::GetParameterSize => ("get_parameter_size", &[false], Some(false)),
        F::GetParameterSection => ("get_parameter_section", &[false, false, false, false], Some(false)),
        F::GetPolicySection => ("get_policy_section", &[false, false, false], Some(false)),
        F::LogEvent => ("log_event", &[false, false], Some(false)),
        F::GetSlotTime => ("get_slot_time", &[], Some(true)),
        F::WriteOutput => ("write_output", &[false, false, false], Some(false)),
        F::StateLookupEntry => ("state_lookup_entry", &[false, false], Some(true)),
        F::StateCreateEntry => ("state_create_entry", &[false, false], Some(true)),
        F::StateDeleteEntry => ("state_delete_entry", &[false, false], Some(false)),
        F::StateDeletePrefix => ("state_delete_prefix", &[false, false], Some(false)),
        F::StateIteratePrefix => ("state_iterate_prefix", &[false, false], Some(true)),
        F::StateIteratorNext => ("state_iterator_next", &[true], Some(true)),
        F::StateIteratorDelete => ("state_iterator_delete", &[true], Some(false)),
        F::StateIteratorKeySize => ("state_iterator_key_size", &[true], Some(false)),
        F::StateIteratorKeyRead => ("state_iterator_key_read", &[true, false, false, false], Some(false)),
        F::StateEntryRead => ("state_entry_read", &[true, false, false, false], Some(false)),
        F::StateEntryWrite => ("state_entry_write", &[true, false, false, false], Some(false)),
        F::StateEntrySize => ("state_entry_size", &[true], Some(false)),
        F::StateEntryResize => ("state_entry_resize", &[true, false], Some(false)),
        F::VerifyEd25519 => ("verify_ed25519_signature", &[false, false, false, false], Some(false)),
        F::VerifySecp256k1 => ("verify_ecdsa_secp256k1_signature", &[false, false, false], Some(false)),
        F::HashSha2 => ("hash_sha2_256", &[false, false, false], None),
        F::HashSha3 => ("hash_sha3_256", &[false, false, false], None),
        F::HashKeccak => ("hash_keccak_256", &[false, false, false], None),
        F::Invoke => ("invoke", &[false, false, false], Some(true)),
        F::GetReceiveInvoker => ("get_receive_invoker", &[false], None),
        F::GetReceiveSelfAddress => ("get_receive_self_address", &[false], None),
        F::GetReceiveSelfBalance => ("get_receive_self_balance", &[], Some(true)),
        F::GetReceiveSender => ("get_receive_sender", &[false], None),
        F::GetReceiveOwner => ("get_receive_owner", &[false], None),
        F::GetReceiveEntrypointSize => ("get_receive_entrypoint_size", &[], Some(false)),
        F::GetReceiveEntrypoint => ("get_receive_entrypoint", &[false], None),
        F::Upgrade => ("upgrade", &[false], Some(true)),
        F::GetInitOrigin => ("get_init_origin", &[false], None),
    }
}

/// Protocol parameter set (the fields of `ReceiveParams`).
#[derive(Clone, Copy, Debug, PartialEq, Eq)]
pub struct Params {
    pub name:       &'static str,
    pub max_param:  usize,
    pub limit:      bool,
    pub queries:    bool,
    pub sig_checks: bool,
    pub inspection: bool,
}

pub const P4: Params = Params { name: "P4", max_param: 1024, limit: true, queries: false, sig_checks: false, inspection: false };
pub const P5: Params = Params { name: "P5", max_param: 65535, limit: false, queries: true, sig_checks: false, inspection: false };
pub const P6: Params = Params { name: "P6", max_param: 65535, limit: false, queries: true, sig_checks: true, inspection: false };
pub const P7: Params = Params { name: "P7", max_param: 65535, limit: false, queries: true, sig_checks: true, inspection: true };

#[derive(Clone, Debug)]
pub struct Entry {
    pub inc: u64,
    pub val: Vec<u8>,
}

#[derive(Clone, Debug)]
pub struct Iter {
    root:    Vec<u8>,
    keys:    Vec<Vec<u8>>,
    pos:     usize,
    current: Option<Vec<u8>>,
    deleted: bool,
}

/// Fixed context data the contract can ask for.
#[derive(Clone, Debug)]
pub struct Ctx {
    pub params:       Params,
    pub parameter:    Vec<u8>,
    pub policy:       Vec<u8>,
    pub slot_time:    u64,
    pub invoker:      [u8; 32],
    pub self_address: (u64, u64),
    pub self_balance: u64,
    /// serialised `Address` of the sender (tag + bytes)
    pub sender:       Vec<u8>,
    pub owner:        [u8; 32],
    pub entrypoint:   Vec<u8>,
    /// the contract's init function is run (no receive-only functions, empty initial state)
    pub init:         bool,
    pub init_origin:  [u8; 32],
}

#[derive(Clone, Debug)]
pub struct Model {
    pub mem:      Vec<u8>,
    pub ctx:      Ctx,
    pub map:      BTreeMap<Vec<u8>, Entry>,
    next_inc:     u64,
    locks:        Vec<Vec<u8>>,
    handles:      Vec<(Vec<u8>, u64)>,
    iters:        Vec<Iter>,
    pub logs:     Vec<Vec<u8>>,
    pub rv:       Vec<u8>,
    /// scheduled energy of the host calls so far
    pub cost:     u128,
    pub per_call: Vec<u128>,
    /// bumped when an interrupt is resumed with "the state was updated": every handle of an
    /// earlier generation is then invalid
    pub generation:   u64,
    /// return data of resumed interrupts: parameter indices 1, 2, ...
    pub extra_params: Vec<Vec<u8>>,
}

/// The answer the chain gives to an interrupt.
#[derive(Clone, Debug, PartialEq, Eq)]
pub enum Resp {
    Success { new_balance: u64, data: Option<Vec<u8>> },
    Reject { code: i32, data: Vec<u8> },
    /// the environment failures, by their documented code 1..=0xb
    Fail(u8),
}

#[derive(Clone, Debug, PartialEq, Eq)]
pub enum Interrupt {
    Transfer { to: Vec<u8>, amount: u64 },
    Call { address: (u64, u64), parameter: Vec<u8>, name: Vec<u8>, amount: u64 },
    Upgrade { module_ref: Vec<u8> },
    QueryAccountBalance(Vec<u8>),
    QueryContractBalance(u64, u64),
    QueryExchangeRates,
    CheckAccountSignature { address: Vec<u8>, payload: Vec<u8> },
    QueryAccountKeys(Vec<u8>),
    QueryContractModuleReference(u64, u64),
    QueryContractName(u64, u64),
}

/// What one call does.
#[derive(Clone, Debug, PartialEq, Eq)]
pub enum Step {
    /// returns normally with this value (None for functions without result)
    Ret(Option<u64>),
    /// the documented interface says: runtime error
    Trap,
    Interrupt(Interrupt),
}

pub struct CallResult {
    pub step: Step,
    /// some pointer / length argument reaches outside the linear memory
    pub oob:  bool,
    pub cost: u128,
}

impl Model {
    pub fn new(ctx: Ctx, mem: Vec<u8>, init: &[(Vec<u8>, Vec<u8>)]) -> Model {
        let mut m = Model { mem, ctx, map: BTreeMap::new(), next_inc: 0, locks: vec![], handles: vec![], iters: vec![], logs: vec![], rv: vec![], cost: 0, per_call: vec![], generation: 0, extra_params: vec![] };
        for (k, v) in init {
            let inc = m.next_inc;
            m.next_inc += 1;
            m.map.insert(k.clone(), Entry { inc, val: v.clone() });
        }
        m
    }

    fn locked(&self, key: &[u8]) -> bool { self.locks.iter().any(|p| key.starts_with(p)) }

    fn prefix_locked(&self, p: &[u8]) -> bool { self.locks.iter().any(|l| p.starts_with(l) || l.starts_with(p)) }

    fn new_handle(&mut self, key: &[u8]) -> u64 {
        let inc = self.map[key].inc;
        self.handles.push((key.to_vec(), inc));
        (self.generation << 32) | (self.handles.len() - 1) as u64
    }

    fn handle(&self, raw: u64) -> Option<Vec<u8>> {
        if raw >> 32 != self.generation {
            return None;
        }
        let (key, inc) = self.handles.get((raw & 0xffff_ffff) as usize)?;
        match self.map.get(key) {
            Some(e) if e.inc == *inc => Some(key.clone()),
            _ => None,
        }
    }

    fn iter_mut(&mut self, raw: u64) -> Option<&mut Iter> {
        if raw >> 32 != self.generation {
            return None;
        }
        self.iters.get_mut((raw & 0xffff_ffff) as usize)
    }

    fn range(&self, start: u32, len: u32) -> Option<std::ops::Range<usize>> {
        let (s, l) = (start as usize, len as usize);
        if s + l <= self.mem.len() {
            Some(s..s + l)
        } else {
            None
        }
    }

    fn param(&self, idx: u32) -> Option<&[u8]> {
        if idx == 0 {
            Some(&self.ctx.parameter)
        } else {
            self.extra_params.get(idx as usize - 1).map(|v| &v[..])
        }
    }

    /// The interrupted `invoke` / `upgrade` returns: the value it returns to the contract.
    /// `updated`: the chain says the instance state was changed meanwhile (a re-entrant call
    /// worked on a fresh copy of the persisted state and set this entry): every handle and
    /// iterator -- and with the iterators their locks -- are gone.
    pub fn resume(&mut self, resp: &Resp, updated: Option<(&[u8], &[u8])>) -> u64 {
        let state_updated = updated.is_some();
        if let Some((k, v)) = updated {
            self.generation += 1;
            self.handles.clear();
            self.iters.clear();
            self.locks.clear();
            let inc = self.next_inc;
            self.next_inc += 1;
            self.map.insert(k.to_vec(), Entry { inc, val: v.to_vec() });
        }
        match resp {
            Resp::Success { new_balance, data } => {
                self.ctx.self_balance = *new_balance;
                let tag: u64 = if state_updated { 1 << 23 } else { 0 };
                match data {
                    Some(d) => {
                        self.extra_params.push(d.clone());
                        (self.extra_params.len() as u64 | tag) << 40
                    }
                    None => tag << 40,
                }
            }
            Resp::Reject { code, data } => {
                self.extra_params.push(data.clone());
                ((self.extra_params.len() as u64) << 40) | (*code as u32 as u64)
            }
            Resp::Fail(k) => (*k as u64) << 32,
        }
    }

    /// Execute one call. `a` are the argument values in declaration order.
    pub fn call(&mut self, f: F, a: &[u64]) -> CallResult {
        let receive_only = matches!(f, F::Invoke | F::Upgrade | F::GetReceiveInvoker | F::GetReceiveSelfAddress | F::GetReceiveSelfBalance | F::GetReceiveSender | F::GetReceiveOwner | F::GetReceiveEntrypointSize | F::GetReceiveEntrypoint);
        if (self.ctx.init && receive_only) || (!self.ctx.init && f == F::GetInitOrigin) {
            // a function of the other kind of entrypoint: runtime error
            self.per_call.push(0);
            return CallResult { step: Step::Trap, oob: false, cost: 0 };
        }
        let a32 = |i: usize| a[i] as u32;
        let mut cost: u128 = 0;
        let mut oob = false;
        let mut trap = false;
        let mut ret: Option<u64> = None;
        let mut interrupt = None;
        macro_rules! rng {
            ($s:expr, $l:expr) => {
                match self.range($s, $l) {
                    Some(r) => r,
                    None => {
                        oob = true;
                        0..0
                    }
                }
            };
        }
        match f {
            F::GetParameterSize => ret = Some(match self.param(a32(0)) { Some(p) => p.len() as u32, None => u32::MAX } as u64),
            F::GetParameterSection => {
                let (idx, start, len, off) = (a32(0), a32(1), a32(2), a32(3));
                cost += k::copy_parameter_cost(len) as u128;
                if self.param(idx).is_none() {
                    ret = Some(u32::MAX as u64);
                } else {
                    let r = rng!(start, len);
                    let p = self.param(idx).unwrap().to_vec();
                    let end = (off as usize + len as usize).min(p.len());
                    if (off as usize) > end {
                        trap = true;
                    } else if !oob {
                        let n = end - off as usize;
                        self.mem[r.start..r.start + n].copy_from_slice(&p[off as usize..end]);
                        ret = Some(n as u64);
                    }
                }
            }
            F::GetPolicySection => {
                let (start, len, off) = (a32(0), a32(1), a32(2));
                cost += k::copy_from_host_cost(len) as u128;
                let r = rng!(start, len);
                let p = self.ctx.policy.clone();
                let end = (off as usize + len as usize).min(p.len());
                if (off as usize) > end {
                    trap = true;
                } else if !oob {
                    let n = end - off as usize;
                    self.mem[r.start..r.start + n].copy_from_slice(&p[off as usize..end]);
                    ret = Some(n as u64);
                }
            }
            F::LogEvent => {
                let (start, len) = (a32(0), a32(1));
                let r = rng!(start, len);
                if len <= k::MAX_LOG_SIZE {
                    cost += k::log_event_cost(len) as u128;
                    if !oob {
                        if !self.ctx.params.limit || self.logs.len() < k::MAX_NUM_LOGS {
                            self.logs.push(self.mem[r].to_vec());
                            ret = Some(1);
                        } else {
                            ret = Some(0);
                        }
                    }
                } else {
                    ret = Some(u32::MAX as u64);
                }
            }
            F::GetSlotTime => ret = Some(self.ctx.slot_time),
            F::WriteOutput => {
                let (start, len, off) = (a32(0), a32(1), a32(2));
                cost += k::write_output_cost(len) as u128;
                let r = rng!(start, len);
                if !oob {
                    let off = off as usize;
                    if off > self.rv.len() {
                        trap = true;
                    } else {
                        let mut end = off + len as usize;
                        if self.ctx.params.limit {
                            end = end.min(k::MAX_CONTRACT_STATE as usize);
                        }
                        if self.rv.len() < end {
                            cost += k::additional_output_size_cost((end - self.rv.len()) as u64) as u128;
                            self.rv.resize(end, 0);
                        }
                        // `off <= rv.len()` held before a possible resize; with the cap `end` may be below `off`
                        if end < off {
                            trap = true;
                        } else {
                            let n = end - off;
                            let src = self.mem[r.start..r.start + n].to_vec();
                            self.rv[off..end].copy_from_slice(&src);
                            ret = Some(n as u64);
                        }
                    }
                }
            }
            F::StateLookupEntry => {
                cost += k::lookup_entry_cost(a32(1)) as u128;
                let r = rng!(a32(0), a32(1));
                if !oob {
                    let key = self.mem[r].to_vec();
                    ret = Some(if self.map.contains_key(&key) { self.new_handle(&key) } else { NONE64 });
                }
            }
            F::StateCreateEntry => {
                cost += k::create_entry_cost(a32(1)) as u128;
                let r = rng!(a32(0), a32(1));
                if !oob {
                    let key = self.mem[r].to_vec();
                    if self.locked(&key) {
                        ret = Some(NONE64);
                    } else {
                        match self.map.get_mut(&key) {
                            Some(e) => e.val = vec![],
                            None => {
                                let inc = self.next_inc;
                                self.next_inc += 1;
                                self.map.insert(key.clone(), Entry { inc, val: vec![] });
                            }
                        }
                        ret = Some(self.new_handle(&key));
                    }
                }
            }
            F::StateDeleteEntry => {
                cost += k::delete_entry_cost(a32(1)) as u128;
                let r = rng!(a32(0), a32(1));
                if !oob {
                    let key = self.mem[r].to_vec();
                    ret = Some(if self.locked(&key) {
                        0
                    } else if self.map.remove(&key).is_some() {
                        2
                    } else {
                        1
                    });
                }
            }
            F::StateDeletePrefix => {
                cost += k::delete_prefix_find_cost(a32(1)) as u128;
                let r = rng!(a32(0), a32(1));
                if !oob {
                    let key = self.mem[r].to_vec();
                    ret = Some(if self.map.is_empty() {
                        1
                    } else if self.prefix_locked(&key) {
                        0
                    } else {
                        let under: Vec<Vec<u8>> = self.map.keys().filter(|x| x.starts_with(&key)).cloned().collect();
                        for u in &under {
                            self.map.remove(u);
                        }
                        if under.is_empty() {
                            1
                        } else {
                            2
                        }
                    });
                }
            }
            F::StateIteratePrefix => {
                cost += k::new_iterator_cost(a32(1)) as u128;
                let r = rng!(a32(0), a32(1));
                if !oob {
                    let key = self.mem[r].to_vec();
                    let under: Vec<Vec<u8>> = self.map.keys().filter(|x| x.starts_with(&key)).cloned().collect();
                    ret = Some(if under.is_empty() {
                        NONE64
                    } else {
                        self.locks.push(key.clone());
                        self.iters.push(Iter { root: key, keys: under, pos: 0, current: None, deleted: false });
                        (self.generation << 32) | (self.iters.len() - 1) as u64
                    });
                }
            }
            F::StateIteratorNext => {
                cost += k::ITERATOR_NEXT_COST as u128;
                let next = match self.iter_mut(a[0]) {
                    Some(it) if !it.deleted => {
                        if it.pos < it.keys.len() {
                            let key = it.keys[it.pos].clone();
                            it.pos += 1;
                            it.current = Some(key.clone());
                            Ok(Some(key))
                        } else {
                            // an exhausted iterator has walked back up to where it started: the
                            // key it points at is the starting key again (the documentation does
                            // not say; the model follows the implementation here)
                            it.current = None;
                            Ok(None)
                        }
                    }
                    _ => Err(()),
                };
                ret = Some(match next {
                    Err(()) => ERR64,
                    Ok(None) => NONE64,
                    Ok(Some(key)) => self.new_handle(&key),
                });
            }
            F::StateIteratorDelete => {
                cost += k::DELETE_ITERATOR_BASE_COST as u128;
                let r = match self.iter_mut(a[0]) {
                    None => INVALID,
                    Some(it) if it.deleted => 0,
                    Some(it) => {
                        it.deleted = true;
                        let root = it.root.clone();
                        let klen = it.current.as_ref().map(|x| x.len()).unwrap_or(root.len());
                        cost += k::delete_iterator_cost(klen as u32) as u128;
                        if let Some(p) = self.locks.iter().position(|x| *x == root) {
                            self.locks.remove(p);
                        }
                        1
                    }
                };
                ret = Some(r as u64);
            }
            F::StateIteratorKeySize => {
                cost += k::ITERATOR_KEY_SIZE_COST as u128;
                ret = Some(match self.iter_mut(a[0]) {
                    Some(it) if !it.deleted => it.current.clone().unwrap_or_else(|| it.root.clone()).len() as u32,
                    _ => INVALID,
                } as u64);
            }
            F::StateIteratorKeyRead => {
                let (start, len, off) = (a32(1), a32(2), a32(3));
                cost += k::copy_from_host_cost(len) as u128;
                let r = rng!(start, len);
                if !oob {
                    let key = match self.iter_mut(a[0]) {
                        Some(it) if !it.deleted => Some(it.current.clone().unwrap_or_else(|| it.root.clone())),
                        _ => None,
                    };
                    ret = Some(match key {
                        None => INVALID as u64,
                        Some(key) => {
                            let off = (off as usize).min(key.len());
                            let n = (key.len() - off).min(len as usize);
                            self.mem[r.start..r.start + n].copy_from_slice(&key[off..off + n]);
                            n as u64
                        }
                    });
                }
            }
            F::StateEntryRead => {
                let (start, len, off) = (a32(1), a32(2), a32(3));
                cost += k::read_entry_cost(len) as u128;
                let r = rng!(start, len);
                if !oob {
                    ret = Some(match self.handle(a[0]) {
                        None => INVALID as u64,
                        Some(key) => {
                            let v = self.map[&key].val.clone();
                            let off = (off as usize).min(v.len());
                            let n = (v.len() - off).min(len as usize);
                            self.mem[r.start..r.start + n].copy_from_slice(&v[off..off + n]);
                            n as u64
                        }
                    });
                }
            }
            F::StateEntryWrite => {
                let (start, len, off) = (a32(1), a32(2), a32(3));
                cost += k::write_entry_cost(len) as u128;
                let r = rng!(start, len);
                if !oob {
                    ret = Some(match self.handle(a[0]) {
                        None => INVALID as u64,
                        Some(key) => {
                            let src = self.mem[r].to_vec();
                            let v = &mut self.map.get_mut(&key).unwrap().val;
                            let off = off as usize;
                            if off <= v.len() {
                                let end = (off + src.len()).min(k::MAX_ENTRY_SIZE);
                                if v.len() < end {
                                    cost += k::additional_entry_size_cost((end - v.len()) as u64) as u128;
                                    v.resize(end, 0);
                                }
                                v[off..end].copy_from_slice(&src[..end - off]);
                                (end - off) as u64
                            } else {
                                0
                            }
                        }
                    });
                }
            }
            F::StateEntrySize => {
                cost += k::ENTRY_SIZE_COST as u128;
                ret = Some(match self.handle(a[0]) {
                    None => INVALID,
                    Some(key) => self.map[&key].val.len() as u32,
                } as u64);
            }
            F::StateEntryResize => {
                cost += k::RESIZE_ENTRY_BASE_COST as u128;
                let new = a32(1) as usize;
                // a handle that was handed out (even if its entry has been deleted since) with a
                // size above the limit reports "too large"; the liveness of the entry is looked
                // at afterwards
                let handed_out = a[0] >> 32 == self.generation && ((a[0] & 0xffff_ffff) as usize) < self.handles.len();
                ret = Some(match self.handle(a[0]) {
                    _ if handed_out && new > k::MAX_ENTRY_SIZE => 0,
                    None => INVALID as u64,
                    Some(key) => {
                        let v = &mut self.map.get_mut(&key).unwrap().val;
                        if new > v.len() {
                            cost += k::additional_entry_size_cost((new - v.len()) as u64) as u128;
                        }
                        // (do not materialise entries the budget can never pay for)
                        if new <= 1 << 22 {
                            v.resize(new, 0);
                        }
                        1
                    }
                });
            }
            F::VerifyEd25519 => {
                let (pk, sg, ms, ml) = (a32(0), a32(1), a32(2), a32(3));
                let rm = rng!(ms, ml);
                let rp = rng!(pk, 32);
                let rs = rng!(sg, 64);
                cost += k::verify_ed25519_cost(ml) as u128;
                if !oob {
                    use ed25519_dalek::Verifier;
                    let okv = (|| {
                        let key = ed25519_dalek::VerifyingKey::from_bytes(self.mem[rp].try_into().ok()?).ok()?;
                        let sig = ed25519_dalek::Signature::from_bytes(self.mem[rs].try_into().ok()?);
                        key.verify(&self.mem[rm], &sig).ok()
                    })()
                    .is_some();
                    ret = Some(okv as u64);
                }
            }
            F::VerifySecp256k1 => {
                let _ = rng!(a32(2), 32);
                let _ = rng!(a32(0), 33);
                let _ = rng!(a32(1), 64);
                cost += k::VERIFY_ECDSA_SECP256K1_COST as u128;
                // the fixtures never contain a valid secp256k1 signature
                ret = Some(0);
            }
            F::HashSha2 | F::HashSha3 | F::HashKeccak => {
                let (ds, dl, out) = (a32(0), a32(1), a32(2));
                let rd = rng!(ds, dl);
                let ro = rng!(out, 32);
                cost += match f {
                    F::HashSha2 => k::hash_sha2_256_cost(dl),
                    F::HashSha3 => k::hash_sha3_256_cost(dl),
                    _ => k::hash_keccak_256_cost(dl),
                } as u128;
                if !oob {
                    let h: Vec<u8> = match f {
                        F::HashSha2 => sha2::Sha256::digest(&self.mem[rd]).to_vec(),
                        F::HashSha3 => sha3::Sha3_256::digest(&self.mem[rd]).to_vec(),
                        _ => sha3::Keccak256::digest(&self.mem[rd]).to_vec(),
                    };
                    self.mem[ro].copy_from_slice(&h);
                }
            }
            F::Invoke => {
                cost += k::INVOKE_BASE_COST as u128;
                let (tag, start, len) = (a32(0), a32(1), a32(2));
                let p = self.ctx.params;
                let exact = |n: usize| len as usize == n;
                let u64at = |m: &Model, at: usize| u64::from_le_bytes(m.mem[at..at + 8].try_into().unwrap());
                let s = start as usize;
                match tag {
                    0 => {
                        if !exact(40) {
                            trap = true;
                        } else {
                            let r = rng!(start, len);
                            if !oob {
                                interrupt = Some(Interrupt::Transfer { to: self.mem[r.start..r.start + 32].to_vec(), amount: u64at(self, s + 32) });
                            }
                        }
                    }
                    1 => {
                        let r = rng!(start, len);
                        if !oob {
                            // address (16) | parameter length (2) | parameter | name length (2) | name | amount (8)
                            let d = self.mem[r].to_vec();
                            let parsed = (|| {
                                if d.len() < 18 {
                                    return Err(());
                                }
                                let address = (u64::from_le_bytes(d[0..8].try_into().unwrap()), u64::from_le_bytes(d[8..16].try_into().unwrap()));
                                let plen = u16::from_le_bytes(d[16..18].try_into().unwrap()) as usize;
                                if plen > p.max_param {
                                    return Err(());
                                }
                                cost += k::copy_parameter_cost(plen as u32) as u128;
                                if 18 + plen > d.len() {
                                    return Err(());
                                }
                                let parameter = d[18..18 + plen].to_vec();
                                let mut at = 18 + plen;
                                if at + 2 > d.len() {
                                    return Err(());
                                }
                                let nlen = u16::from_le_bytes(d[at..at + 2].try_into().unwrap()) as usize;
                                at += 2;
                                if at + nlen > d.len() {
                                    return Err(());
                                }
                                let name = d[at..at + nlen].to_vec();
                                // entrypoint names: ASCII alphanumeric / punctuation, shorter than 100
                                if nlen >= 100 || !name.iter().all(|c| c.is_ascii_alphanumeric() || c.is_ascii_punctuation()) {
                                    return Err(());
                                }
                                at += nlen;
                                if at + 8 > d.len() {
                                    return Err(());
                                }
                                let amount = u64::from_le_bytes(d[at..at + 8].try_into().unwrap());
                                Ok(Interrupt::Call { address, parameter, name, amount })
                            })();
                            match parsed {
                                Ok(i) => interrupt = Some(i),
                                Err(()) => trap = true,
                            }
                        }
                    }
                    2 if p.queries => {
                        if !exact(32) {
                            trap = true;
                        } else {
                            let r = rng!(start, len);
                            if !oob {
                                interrupt = Some(Interrupt::QueryAccountBalance(self.mem[r].to_vec()));
                            }
                        }
                    }
                    3 if p.queries => {
                        if !exact(16) {
                            trap = true;
                        } else {
                            let _ = rng!(start, len);
                            if !oob {
                                interrupt = Some(Interrupt::QueryContractBalance(u64at(self, s), u64at(self, s + 8)));
                            }
                        }
                    }
                    4 if p.queries => {
                        if !exact(0) {
                            trap = true;
                        } else {
                            interrupt = Some(Interrupt::QueryExchangeRates);
                        }
                    }
                    5 if p.sig_checks => {
                        if (len as usize) < 32 {
                            trap = true;
                        } else {
                            let r = rng!(start, len);
                            cost += k::copy_to_host_cost(len) as u128;
                            if !oob {
                                interrupt = Some(Interrupt::CheckAccountSignature { address: self.mem[r.start..r.start + 32].to_vec(), payload: self.mem[r.start + 32..r.end].to_vec() });
                            }
                        }
                    }
                    6 if p.sig_checks => {
                        if !exact(32) {
                            trap = true;
                        } else {
                            let r = rng!(start, len);
                            if !oob {
                                interrupt = Some(Interrupt::QueryAccountKeys(self.mem[r].to_vec()));
                            }
                        }
                    }
                    7 if p.inspection => {
                        if !exact(16) {
                            trap = true;
                        } else {
                            let _ = rng!(start, len);
                            if !oob {
                                interrupt = Some(Interrupt::QueryContractModuleReference(u64at(self, s), u64at(self, s + 8)));
                            }
                        }
                    }
                    8 if p.inspection => {
                        if !exact(16) {
                            trap = true;
                        } else {
                            let _ = rng!(start, len);
                            if !oob {
                                interrupt = Some(Interrupt::QueryContractName(u64at(self, s), u64at(self, s + 8)));
                            }
                        }
                    }
                    _ => trap = true,
                }
            }
            F::GetReceiveInvoker | F::GetReceiveOwner => {
                let r = rng!(a32(0), 32);
                if !oob {
                    let src = if f == F::GetReceiveInvoker { self.ctx.invoker } else { self.ctx.owner };
                    self.mem[r].copy_from_slice(&src);
                }
            }
            F::GetReceiveSelfAddress => {
                let r = rng!(a32(0), 16);
                if !oob {
                    self.mem[r.start..r.start + 8].copy_from_slice(&self.ctx.self_address.0.to_le_bytes());
                    self.mem[r.start + 8..r.end].copy_from_slice(&self.ctx.self_address.1.to_le_bytes());
                }
            }
            F::GetReceiveSelfBalance => ret = Some(self.ctx.self_balance),
            F::GetReceiveSender => {
                let n = self.ctx.sender.len() as u32;
                let r = rng!(a32(0), n);
                if !oob {
                    let s = self.ctx.sender.clone();
                    self.mem[r].copy_from_slice(&s);
                }
            }
            F::GetReceiveEntrypointSize => ret = Some(self.ctx.entrypoint.len() as u64),
            F::GetReceiveEntrypoint => {
                let n = self.ctx.entrypoint.len() as u32;
                let r = rng!(a32(0), n);
                if !oob {
                    let s = self.ctx.entrypoint.clone();
                    self.mem[r].copy_from_slice(&s);
                }
            }
            F::Upgrade => {
                let r = rng!(a32(0), 32);
                cost += k::INVOKE_BASE_COST as u128;
                if !oob {
                    interrupt = Some(Interrupt::Upgrade { module_ref: self.mem[r].to_vec() });
                }
            }
            F::GetInitOrigin => {
                let r = rng!(a32(0), 32);
                if !oob {
                    let o = self.ctx.init_origin;
                    self.mem[r].copy_from_slice(&o);
                }
            }
        }
        self.cost += cost;
        self.per_call.push(cost);
        let step = if oob || trap {
            Step::Trap
        } else if let Some(i) = interrupt {
            Step::Interrupt(i)
        } else {
            Step::Ret(ret)
        };
        CallResult { step, oob, cost }
    }
}
