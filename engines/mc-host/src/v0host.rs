//! The v0 (legacy) host interface: flat contract state of at most 16 KiB, action trees,
//! logs. Same scheme as the v1 layer: every function x the full hostile argument product,
//! limit contexts, all pairs over a reduced alphabet; each script compiled to a real v0
//! contract and run through `v0::invoke_receive`.

use super::ast::{ExportKind, Func, FuncType, Import, Instr, Module, VT};
use super::{product, Arg, BUDGET, KEYS, RES, SCRATCH, SRC, TAIL};
use crate::model::MEM;
use concordium_contracts_common::{AccountAddress, Address, Amount, ChainMetadata, ContractAddress, Timestamp};
use concordium_smart_contract_engine::{constants as k, v0, InterpreterEnergy};
use concordium_wasm::{artifact::CompiledFunction, utils::instantiate_with_metering, validate::ValidationConfig, CostConfigurationV0};
use mc_core::{Report, Tier};
use rayon::prelude::*;
use serde_json::{json, Value as J};
use std::collections::BTreeMap;

#[derive(Clone, Copy, Debug, PartialEq, Eq, Hash, PartialOrd, Ord)]
pub enum F0 {
    Accept,
    SimpleTransfer,
    Send,
    CombineAnd,
    CombineOr,
    GetParameterSize,
    GetParameterSection,
    GetPolicySection,
    LogEvent,
    LoadState,
    WriteState,
    ResizeState,
    StateSize,
    GetReceiveInvoker,
    GetReceiveSelfAddress,
    GetReceiveSelfBalance,
    GetReceiveSender,
    GetReceiveOwner,
    GetSlotTime,
    GetInitOrigin,
}

pub const ALL0: [F0; 20] = [F0::Accept, F0::SimpleTransfer, F0::Send, F0::CombineAnd, F0::CombineOr, F0::GetParameterSize, F0::GetParameterSection, F0::GetPolicySection, F0::LogEvent, F0::LoadState, F0::WriteState, F0::ResizeState, F0::StateSize, F0::GetReceiveInvoker, F0::GetReceiveSelfAddress, F0::GetReceiveSelfBalance, F0::GetReceiveSender, F0::GetReceiveOwner, F0::GetSlotTime, F0::GetInitOrigin];

pub fn sig0_pub(f: F0) -> (&'static str, &'static [bool], Option<bool>) { sig0(f) }

fn sig0(f: F0) -> (&'static str, &'static [bool], Option<bool>) {
    match f {
        F0::Accept => ("accept", &[], Some(false)),
        F0::SimpleTransfer => ("simple_transfer", &[false, true], Some(false)),
        F0::Send => ("send", &[true, true, false, false, true, false, false], Some(false)),
        F0::CombineAnd => ("combine_and", &[false, false], Some(false)),
        F0::CombineOr => ("combine_or", &[false, false], Some(false)),
        F0::GetParameterSize => ("get_parameter_size", &[], Some(false)),
        F0::GetParameterSection => ("get_parameter_section", &[false, false, false], Some(false)),
        F0::GetPolicySection => ("get_policy_section", &[false, false, false], Some(false)),
        F0::LogEvent => ("log_event", &[false, false], Some(false)),
        F0::LoadState => ("load_state", &[false, false, false], Some(false)),
        F0::WriteState => ("write_state", &[false, false, false], Some(false)),
        F0::ResizeState => ("resize_state", &[false], Some(false)),
        F0::StateSize => ("state_size", &[], Some(false)),
        F0::GetReceiveInvoker => ("get_receive_invoker", &[false], None),
        F0::GetReceiveSelfAddress => ("get_receive_self_address", &[false], None),
        F0::GetReceiveSelfBalance => ("get_receive_self_balance", &[], Some(true)),
        F0::GetReceiveSender => ("get_receive_sender", &[false], None),
        F0::GetReceiveOwner => ("get_receive_owner", &[false], None),
        F0::GetSlotTime => ("get_slot_time", &[], Some(true)),
        F0::GetInitOrigin => ("get_init_origin", &[false], None),
    }
}

#[derive(Clone, Debug, PartialEq, Eq, Hash)]
pub struct Call0 {
    f:    F0,
    args: Vec<Arg>,
}
type Script0 = Vec<Call0>;

fn script_json(s: &Script0) -> J {
    J::Array(
        s.iter()
            .map(|c| {
                json!(format!(
                    "{}({})",
                    sig0(c.f).0,
                    c.args
                        .iter()
                        .map(|a| match a {
                            Arg::C(v) => format!("{v:#x}"),
                            Arg::Res(i) => format!("result[{i}]"),
                        })
                        .collect::<Vec<_>>()
                        .join(", ")
                ))
            })
            .collect(),
    )
}

#[derive(Clone, Debug, PartialEq, Eq)]
enum Action {
    Accept,
    Transfer { to: Vec<u8>, amount: u64 },
    Send { to: (u64, u64), name: Vec<u8>, amount: u64, parameter: Vec<u8> },
    And(u32, u32),
    Or(u32, u32),
}

#[derive(Clone, Debug)]
struct Ctx0 {
    limit:        bool,
    max_param:    usize,
    parameter:    Vec<u8>,
    policy:       Vec<u8>,
    slot_time:    u64,
    invoker:      [u8; 32],
    self_address: (u64, u64),
    self_balance: u64,
    sender:       Vec<u8>,
    owner:        [u8; 32],
    /// the init function is run: empty state, no actions, no receive context
    init:         bool,
}

fn ctx0(limit: bool) -> Ctx0 {
    let mut sender = vec![1u8];
    sender.extend_from_slice(&5u64.to_le_bytes());
    sender.extend_from_slice(&6u64.to_le_bytes());
    Ctx0 { limit, max_param: if limit { 1024 } else { 65535 }, parameter: vec![9, 8, 7, 6, 5], policy: (100..112).collect(), slot_time: 0x0102_0304_0506, invoker: [0x11; 32], self_address: (77, 3), self_balance: 123_456_789, sender, owner: [0x22; 32], init: false }
}

fn initial_state0() -> Vec<u8> { (0..20u8).map(|i| 0x40 + i).collect() }

struct Model0 {
    mem:      Vec<u8>,
    ctx:      Ctx0,
    state:    Vec<u8>,
    logs:     Vec<Vec<u8>>,
    actions:  Vec<Action>,
    cost:     u128,
}

enum Step0 {
    Ret(Option<u64>),
    Trap,
}

impl Model0 {
    fn range(&self, s: u32, l: u32) -> Option<std::ops::Range<usize>> {
        let (s, l) = (s as usize, l as usize);
        if s + l <= self.mem.len() {
            Some(s..s + l)
        } else {
            None
        }
    }

    fn call(&mut self, f: F0, a: &[u64]) -> (Step0, u128) {
        let receive_only = matches!(f, F0::Accept | F0::SimpleTransfer | F0::Send | F0::CombineAnd | F0::CombineOr | F0::GetReceiveInvoker | F0::GetReceiveSelfAddress | F0::GetReceiveSelfBalance | F0::GetReceiveSender | F0::GetReceiveOwner);
        if (self.ctx.init && receive_only) || (!self.ctx.init && f == F0::GetInitOrigin) {
            return (Step0::Trap, 0);
        }
        let a32 = |i: usize| a[i] as u32;
        let mut cost = 0u128;
        let mut trap = false;
        let mut ret = None;
        macro_rules! rng {
            ($s:expr, $l:expr) => {
                match self.range($s, $l) {
                    Some(r) => r,
                    None => {
                        trap = true;
                        0..0
                    }
                }
            };
        }
        match f {
            F0::Accept => {
                cost += k::BASE_ACTION_COST as u128;
                self.actions.push(Action::Accept);
                ret = Some(self.actions.len() as u64 - 1);
            }
            F0::SimpleTransfer => {
                cost += k::BASE_ACTION_COST as u128;
                let r = rng!(a32(0), 32);
                if !trap {
                    self.actions.push(Action::Transfer { to: self.mem[r].to_vec(), amount: a[1] });
                    ret = Some(self.actions.len() as u64 - 1);
                }
            }
            F0::Send => {
                // index, subindex, name start, name length, amount, parameter start, parameter length
                let (ns, nl, ps, pl) = (a32(2), a32(3), a32(5), a32(6));
                cost += k::action_send_cost(pl) as u128;
                let rp = rng!(ps, pl);
                let rn = rng!(ns, nl);
                if !trap {
                    let name = self.mem[rn].to_vec();
                    let ok_name = name.contains(&b'.') && name.len() <= 100 && name.iter().all(|c| c.is_ascii_alphanumeric() || c.is_ascii_punctuation());
                    if !ok_name || pl as usize > self.ctx.max_param {
                        trap = true;
                    } else {
                        self.actions.push(Action::Send { to: (a[0], a[1]), name, amount: a[4], parameter: self.mem[rp].to_vec() });
                        ret = Some(self.actions.len() as u64 - 1);
                    }
                }
            }
            F0::CombineAnd | F0::CombineOr => {
                cost += k::BASE_ACTION_COST as u128;
                let n = self.actions.len() as u32;
                if a32(0) < n && a32(1) < n {
                    self.actions.push(if f == F0::CombineAnd { Action::And(a32(0), a32(1)) } else { Action::Or(a32(0), a32(1)) });
                    ret = Some(n as u64);
                } else {
                    trap = true;
                }
            }
            F0::GetParameterSize => ret = Some(self.ctx.parameter.len() as u64),
            F0::GetParameterSection | F0::GetPolicySection => {
                let (start, len, off) = (a32(0), a32(1), a32(2));
                cost += if f == F0::GetParameterSection { k::copy_parameter_cost(len) } else { k::copy_from_host_cost(len) } as u128;
                let r = rng!(start, len);
                let p = if f == F0::GetParameterSection { self.ctx.parameter.clone() } else { self.ctx.policy.clone() };
                let end = (off as usize + len as usize).min(p.len());
                if (off as usize) > end {
                    trap = true;
                } else if !trap {
                    let n = end - off as usize;
                    self.mem[r.start..r.start + n].copy_from_slice(&p[off as usize..end]);
                    ret = Some(n as u64);
                }
            }
            F0::LogEvent => {
                let (start, len) = (a32(0), a32(1));
                let r = rng!(start, len);
                if len <= k::MAX_LOG_SIZE {
                    cost += k::log_event_cost(len) as u128;
                    if !trap {
                        if !self.ctx.limit || self.logs.len() < k::MAX_NUM_LOGS {
                            self.logs.push(self.mem[r].to_vec());
                            ret = Some(1);
                        } else {
                            ret = Some(0);
                        }
                    }
                } else {
                    ret = Some(u32::MAX as u64);
                }
            }
            F0::LoadState => {
                let (start, len, off) = (a32(0), a32(1), a32(2));
                cost += k::copy_from_host_cost(len) as u128;
                let r = rng!(start, len);
                if !trap {
                    if off as usize > self.state.len() {
                        trap = true;
                    } else {
                        let n = (self.state.len() - off as usize).min(len as usize);
                        let src = self.state[off as usize..off as usize + n].to_vec();
                        self.mem[r.start..r.start + n].copy_from_slice(&src);
                        ret = Some(n as u64);
                    }
                }
            }
            F0::WriteState => {
                let (start, len, off) = (a32(0), a32(1), a32(2));
                cost += k::copy_to_host_cost(len) as u128;
                let r = rng!(start, len);
                if !trap {
                    let off = off as usize;
                    if off > self.state.len() {
                        trap = true;
                    } else {
                        // the state never grows beyond 16 KiB
                        let end = (off + len as usize).min(k::MAX_CONTRACT_STATE as usize);
                        if self.state.len() < end {
                            self.state.resize(end, 0);
                        }
                        let n = end - off;
                        let src = self.mem[r.start..r.start + n].to_vec();
                        self.state[off..end].copy_from_slice(&src);
                        ret = Some(n as u64);
                    }
                }
            }
            F0::ResizeState => {
                let new = a32(0);
                if new as usize > self.state.len() {
                    cost += k::additional_state_size_cost((new as usize - self.state.len()) as u64) as u128;
                }
                if new > k::MAX_CONTRACT_STATE {
                    ret = Some(0);
                } else {
                    self.state.resize(new as usize, 0);
                    ret = Some(1);
                }
            }
            F0::StateSize => ret = Some(self.state.len() as u64),
            F0::GetReceiveInvoker | F0::GetReceiveOwner | F0::GetInitOrigin => {
                let r = rng!(a32(0), 32);
                if !trap {
                    let src = if f == F0::GetReceiveInvoker { self.ctx.invoker } else if f == F0::GetInitOrigin { [0x33; 32] } else { self.ctx.owner };
                    self.mem[r].copy_from_slice(&src);
                }
            }
            F0::GetReceiveSelfAddress => {
                let r = rng!(a32(0), 16);
                if !trap {
                    self.mem[r.start..r.start + 8].copy_from_slice(&self.ctx.self_address.0.to_le_bytes());
                    self.mem[r.start + 8..r.end].copy_from_slice(&self.ctx.self_address.1.to_le_bytes());
                }
            }
            F0::GetReceiveSelfBalance => ret = Some(self.ctx.self_balance),
            F0::GetReceiveSender => {
                let n = self.ctx.sender.len() as u32;
                let r = rng!(a32(0), n);
                if !trap {
                    let s = self.ctx.sender.clone();
                    self.mem[r].copy_from_slice(&s);
                }
            }
            F0::GetSlotTime => ret = Some(self.ctx.slot_time),
        }
        self.cost += cost;
        (if trap { Step0::Trap } else { Step0::Ret(ret) }, cost)
    }
}

#[derive(Debug, Clone, PartialEq, Eq)]
enum Outcome0 {
    Success { state: Vec<u8>, logs: Vec<Vec<u8>>, actions: Vec<Action> },
    Reject(i32),
    Trap,
    OutOfEnergy,
}

fn short(o: &Outcome0) -> String {
    match o {
        Outcome0::Success { state, logs, actions } => format!("success state={} logs={} actions={:?}", hex::encode(&state[..state.len().min(64)]), logs.iter().map(hex::encode).collect::<Vec<_>>().join(","), actions),
        x => format!("{x:?}"),
    }
}

/// The epilogue dumps the observation windows into logs (scratch, last 16 bytes, results)
/// and returns the index of a final `accept`.
fn with_epilogue(script: &Script0, pages: usize, init: bool) -> Script0 {
    let mut s = script.clone();
    s.push(Call0 { f: F0::LogEvent, args: vec![Arg::C(SCRATCH as u64), Arg::C(0x100)] });
    s.push(Call0 { f: F0::LogEvent, args: vec![Arg::C(TAIL as u64), Arg::C(16)] });
    if pages == 2 {
        s.push(Call0 { f: F0::LogEvent, args: vec![Arg::C(0x10000), Arg::C(16)] });
        s.push(Call0 { f: F0::LogEvent, args: vec![Arg::C(0x1FFF0), Arg::C(16)] });
    }
    s.push(Call0 { f: F0::LogEvent, args: vec![Arg::C(RES as u64), Arg::C(8 * script.len() as u64)] });
    if !init {
        s.push(Call0 { f: F0::Accept, args: vec![] });
    }
    s
}

fn module_of(full: &Script0, mem: &[u8], init: bool) -> Vec<u8> {
    let mut m = Module::default();
    let ty_index = |m: &mut Module, t: FuncType| -> u32 {
        if let Some(i) = m.types.iter().position(|x| *x == t) {
            i as u32
        } else {
            m.types.push(t);
            (m.types.len() - 1) as u32
        }
    };
    let mut used: Vec<F0> = full.iter().map(|c| c.f).collect();
    used.sort();
    used.dedup();
    let mut import_idx = BTreeMap::new();
    for f in &used {
        let (name, ps, r) = sig0(*f);
        let t = ty_index(&mut m, FuncType { params: ps.iter().map(|w| if *w { VT::I64 } else { VT::I32 }).collect(), result: r.map(|w| if w { VT::I64 } else { VT::I32 }) });
        import_idx.insert(*f, m.imports.len() as u32);
        m.imports.push(Import { module: "concordium".into(), name: name.into(), ty: t });
    }
    let entry_ty = ty_index(&mut m, FuncType { params: vec![VT::I64], result: Some(VT::I32) });
    let mut body = vec![];
    for (i, c) in full.iter().enumerate() {
        let (_, ps, r) = sig0(c.f);
        for (a, wide) in c.args.iter().zip(ps.iter()) {
            match a {
                Arg::C(v) => body.push(if *wide { Instr::I64Const(*v as i64) } else { Instr::I32Const(*v as u32 as i32) }),
                Arg::Res(k) => {
                    body.push(Instr::I32Const((RES + 8 * *k as u32) as i32));
                    body.push(Instr::Load(0x29, 3, 0));
                    if !*wide {
                        body.push(Instr::Num(0xA7));
                    }
                }
            }
        }
        body.push(Instr::Call(import_idx[&c.f]));
        match r {
            Some(true) => body.push(Instr::LocalSet(1)),
            Some(false) => {
                body.push(Instr::Num(0xAD));
                body.push(Instr::LocalSet(1));
            }
            None => {
                body.push(Instr::I64Const(0x5555));
                body.push(Instr::LocalSet(1));
            }
        }
        body.push(Instr::I32Const((RES + 8 * i as u32) as i32));
        body.push(Instr::LocalGet(1));
        body.push(Instr::Store(0x37, 3, 0));
    }
    // return the result of the final accept (receive) / success (init)
    if init {
        body.push(Instr::I32Const(0));
    } else {
        body.push(Instr::LocalGet(1));
        body.push(Instr::Num(0xA7));
    }
    m.funcs.push(Func { ty: entry_ty, locals: vec![VT::I64], body });
    let pages = (mem.len() / MEM) as u32;
    m.memory = Some((pages, Some(pages)));
    for (off, len) in [(KEYS, 0x100u32), (SRC, 0x100), (super::PK, 0x80), (super::CALLARGS, 0x40), (SCRATCH, 0x100), (TAIL, 16)] {
        m.data.push((off, mem[off as usize..(off + len) as usize].to_vec()));
    }
    let fidx = m.imports.len() as u32;
    m.exports.push(("init_c".into(), ExportKind::Func(fidx)));
    m.exports.push(("c.run".into(), ExportKind::Func(fidx)));
    m.encode()
}

fn run_real(wasm: &[u8], c: &Ctx0, budget: u64) -> Result<(Outcome0, Option<u64>), String> {
    let inst = instantiate_with_metering::<v0::ProcessedImports>(ValidationConfig::V0, CostConfigurationV0, &v0::ConcordiumAllowedImports, wasm).map_err(|e| format!("module rejected: {e:#}"))?;
    let artifact: concordium_wasm::artifact::Artifact<v0::ProcessedImports, CompiledFunction> = inst.artifact;
    let policy = c.policy.clone();
    let rc: v0::ReceiveContext<&[u8]> = v0::ReceiveContext { metadata: ChainMetadata { slot_time: Timestamp::from_timestamp_millis(c.slot_time) }, invoker: AccountAddress(c.invoker), self_address: ContractAddress::new(c.self_address.0, c.self_address.1), self_balance: Amount::from_micro_ccd(c.self_balance), sender: Address::Contract(ContractAddress::new(5, 6)), owner: AccountAddress(c.owner), sender_policies: &policy[..] };
    mc_core::set_dirty_limit(2 * MEM);
    if c.init {
        let ictx: v0::InitContext<&[u8]> = v0::InitContext { metadata: ChainMetadata { slot_time: Timestamp::from_timestamp_millis(c.slot_time) }, init_origin: AccountAddress([0x33; 32]), sender_policies: &policy[..] };
        let inv = v0::InitInvocation { amount: 0, init_name: "init_c", parameter: concordium_contracts_common::Parameter::new_unchecked(&c.parameter[..]), energy: InterpreterEnergy::new(budget) };
        return match v0::invoke_init(&artifact, ictx, inv, c.limit) {
            Err(_) => Ok((Outcome0::Trap, None)),
            Ok(v0::InitResult::OutOfEnergy) => Ok((Outcome0::OutOfEnergy, None)),
            Ok(v0::InitResult::Reject { reason, remaining_energy }) => Ok((Outcome0::Reject(reason), Some(remaining_energy.energy))),
            Ok(v0::InitResult::Success { state, logs, remaining_energy }) => Ok((Outcome0::Success { state: state.state, logs: logs.iterate().cloned().collect(), actions: vec![] }, Some(remaining_energy.energy))),
        };
    }
    let inv = v0::ReceiveInvocation { amount: 0, receive_name: "c.run", parameter: concordium_contracts_common::Parameter::new_unchecked(&c.parameter[..]), energy: InterpreterEnergy::new(budget) };
    let st = initial_state0();
    match v0::invoke_receive(&artifact, rc, inv, &st[..], c.max_param, c.limit) {
        Err(_) => Ok((Outcome0::Trap, None)),
        Ok(v0::ReceiveResult::OutOfEnergy) => Ok((Outcome0::OutOfEnergy, None)),
        Ok(v0::ReceiveResult::Reject { reason, remaining_energy }) => Ok((Outcome0::Reject(reason), Some(remaining_energy.energy))),
        Ok(v0::ReceiveResult::Success { state, logs, actions, remaining_energy }) => {
            let actions = actions
                .iter()
                .map(|a| match a {
                    v0::Action::Accept => Action::Accept,
                    v0::Action::SimpleTransfer { data } => Action::Transfer { to: data.to_addr.0.to_vec(), amount: data.amount.micro_ccd },
                    v0::Action::Send { data } => Action::Send { to: (data.to_addr.index, data.to_addr.subindex), name: data.name.to_string().into_bytes(), amount: data.amount.micro_ccd, parameter: data.parameter.as_ref().to_vec() },
                    v0::Action::And { l, r } => Action::And(*l, *r),
                    v0::Action::Or { l, r } => Action::Or(*l, *r),
                })
                .collect();
            Ok((Outcome0::Success { state: state.state, logs: logs.iterate().cloned().collect(), actions }, Some(remaining_energy.energy)))
        }
    }
}

fn expect(full: &Script0, c: &Ctx0, mem0: &[u8]) -> (Vec<Outcome0>, u128) {
    let mut m = Model0 { mem: mem0.to_vec(), ctx: c.clone(), state: if c.init { vec![] } else { initial_state0() }, logs: vec![], actions: vec![], cost: 0 };
    let mut results: Vec<u64> = vec![];
    let mut allowed = vec![];
    for call in full {
        let (_, ps, r) = sig0(call.f);
        let args: Vec<u64> = call
            .args
            .iter()
            .zip(ps.iter())
            .map(|(a, w)| {
                let v = match a {
                    Arg::C(v) => *v,
                    Arg::Res(k) => results[*k],
                };
                if *w {
                    v
                } else {
                    v & 0xffff_ffff
                }
            })
            .collect();
        let (step, _) = m.call(call.f, &args);
        let margin = 2_000_000u128;
        if m.cost > BUDGET as u128 + margin {
            allowed.push(Outcome0::OutOfEnergy);
            if matches!(step, Step0::Trap) {
                allowed.push(Outcome0::Trap);
            }
            return (allowed, m.cost);
        }
        if m.cost > (BUDGET as u128).saturating_sub(margin) {
            allowed.push(Outcome0::OutOfEnergy);
        }
        match step {
            Step0::Trap => {
                allowed.push(Outcome0::Trap);
                return (allowed, m.cost);
            }
            Step0::Ret(v) => {
                let stored = match r {
                    None => 0x5555,
                    Some(true) => v.unwrap_or(0),
                    Some(false) => v.unwrap_or(0) & 0xffff_ffff,
                };
                results.push(stored);
                let at = RES as usize + 8 * (results.len() - 1);
                m.mem[at..at + 8].copy_from_slice(&stored.to_le_bytes());
            }
        }
    }
    // the contract returns the index of the last action (the final accept): everything is kept
    allowed.push(Outcome0::Success { state: m.state.clone(), logs: m.logs.clone(), actions: m.actions.clone() });
    (allowed, m.cost)
}

fn check_script(report: &Report, script: &Script0, c: &Ctx0, mem0: &[u8], energy_probe: bool) {
    // (the context is part of the witness only where it differs from the default)
    report.eval(1);
    let w = || {
        let mut j = json!({"interface": "v0", "limits": c.limit, "script": script_json(script)});
        if c.parameter.len() != 5 {
            j["parameter_len"] = json!(c.parameter.len());
        }
        if mem0.len() != MEM {
            j["memory_pages"] = json!(mem0.len() / MEM);
        }
        if c.init {
            j["entrypoint"] = json!("init");
        }
        j
    };
    let full = with_epilogue(script, mem0.len() / MEM, c.init);
    let (allowed, model_cost) = expect(&full, c, mem0);
    let wasm = module_of(&full, mem0, c.init);
    let (real, remaining) = match mc_core::catch(|| run_real(&wasm, c, BUDGET)) {
        Ok(Ok(r)) => r,
        Ok(Err(msg)) => {
            report.violation("machinery: generated contract not runnable", w(), json!({"error": msg}));
            return;
        }
        Err(p) => {
            report.violation("host-function-panicked", w(), json!({"panic": p}));
            return;
        }
    };
    report.trace(1);
    if !allowed.contains(&real) {
        let mut diff = json!(null);
        if let (Some(Outcome0::Success { state: s1, logs: l1, actions: a1 }), Outcome0::Success { state: s2, logs: l2, actions: a2 }) = (allowed.last(), &real) {
            let first = s1.iter().zip(s2.iter()).position(|(x, y)| x != y);
            diff = json!({"state_lengths": [s1.len(), s2.len()], "first_state_difference": first, "expected_there": first.map(|i| hex::encode(&s1[i..(i + 8).min(s1.len())])), "observed_there": first.map(|i| hex::encode(&s2[i..(i + 8).min(s2.len())])), "logs_equal": l1 == l2, "actions_equal": a1 == a2});
        }
        report.violation("outcome-differs-from-host-interface", w(), json!({"difference": diff, "observed": short(&real).chars().take(300).collect::<String>(), "expected": allowed.iter().map(|o| short(o).chars().take(300).collect::<String>()).collect::<Vec<_>>()}));
        return;
    }
    if let Outcome0::Success { state, .. } = &real {
        if state.len() > k::MAX_CONTRACT_STATE as usize {
            report.violation("legacy-state-exceeds-16-KiB", w(), json!({"length": state.len()}));
        }
    }
    report.outcome(
        match &real {
            Outcome0::Success { .. } => "v0 success",
            Outcome0::Reject(_) => "v0 reject",
            Outcome0::Trap => "v0 trap",
            Outcome0::OutOfEnergy => "v0 out of energy",
        },
        1,
    );
    // the whole run charged at least the scheduled energy of its host calls
    if let (Outcome0::Success { .. }, Some(rem)) = (&real, remaining) {
        let used = BUDGET - rem;
        if (used as u128) < model_cost {
            report.violation("host-call-charged-less-than-scheduled", w(), json!({"charged_total": used, "scheduled_total": model_cost.to_string()}));
        }
        if energy_probe {
            report.eval(2);
            match (mc_core::catch(|| run_real(&wasm, c, used)), mc_core::catch(|| run_real(&wasm, c, used.saturating_sub(1)))) {
                (Ok(Ok((exact, _))), Ok(Ok((less, _)))) => {
                    if exact != real {
                        report.violation("energy-accounting-not-deterministic", w(), json!({"budget": used}));
                    }
                    if less != Outcome0::OutOfEnergy {
                        report.violation("run-completes-with-less-energy-than-it-consumes", w(), json!({"budget": used - 1, "observed": short(&less).chars().take(300).collect::<String>()}));
                    }
                }
                _ => report.violation("host-function-panicked", w(), json!({"where": "energy probe"})),
            }
        }
    }
}

fn cs(v: &[u64]) -> Vec<Arg> { v.iter().map(|x| Arg::C(*x)).collect() }

fn arg_lists(f: F0, full: bool) -> Vec<Vec<Arg>> {
    let ptr = if full { cs(&[0, SRC as u64, SCRATCH as u64, TAIL as u64 + 8, 0xFFFF, 0x10000, 0x10001, 0x7FFF_FFFF, 0xFFFF_FFFF]) } else { cs(&[SCRATCH as u64, 0xFFFF]) };
    let len = if full { cs(&[0, 1, 5, 12, 20, 0x100, 512, 513, 16383, 16384, 16385, 0xFFFF, 0x10000, 0x10001, 0xFFFF_FFFF]) } else { cs(&[5, 0x10001]) };
    let off = if full { cs(&[0, 1, 4, 5, 6, 11, 12, 13, 19, 20, 21, 16383, 16384, 0xFFFF_FFFF]) } else { cs(&[0, 21]) };
    let act = if full { cs(&[0, 1, 2, 3, 0xFFFF_FFFF]) } else { cs(&[0, 5]) };
    let lists: Vec<Vec<Arg>> = match f {
        F0::Accept | F0::GetParameterSize | F0::StateSize | F0::GetReceiveSelfBalance | F0::GetSlotTime => vec![],
        F0::SimpleTransfer => vec![ptr, cs(&[0, u64::MAX])],
        // name at KEYS+0x10 ("a.b"), set up in the initial memory
        F0::Send => vec![cs(&[1, u64::MAX]), cs(&[2]), if full { cs(&[KEYS as u64 + 0x10, KEYS as u64, 0xFFFF, 0xFFFF_FFFF]) } else { cs(&[KEYS as u64 + 0x10]) }, if full { cs(&[0, 1, 3, 4, 100, 101, 0x10001]) } else { cs(&[3, 1]) }, cs(&[7]), if full { cs(&[SRC as u64, 0xFFFF, 0x10000, 0xFFFF_FFFF]) } else { cs(&[SRC as u64]) }, if full { cs(&[0, 5, 1024, 1025, 65535, 65536, 0xFFFF_FFFF]) } else { cs(&[5, 1025]) }],
        F0::CombineAnd | F0::CombineOr => vec![act.clone(), act],
        F0::GetParameterSection | F0::GetPolicySection | F0::LoadState | F0::WriteState => vec![ptr, len, off],
        F0::LogEvent => vec![ptr, len],
        F0::ResizeState => vec![if full { cs(&[0, 1, 19, 20, 21, 16383, 16384, 16385, 0x7FFF_FFFF, 0xFFFF_FFFF]) } else { cs(&[3, 16385]) }],
        F0::GetReceiveInvoker | F0::GetReceiveSelfAddress | F0::GetReceiveSender | F0::GetReceiveOwner | F0::GetInitOrigin => vec![ptr],
    };
    product(&lists)
}

pub fn run_v0(report: &Report, tier: Tier, mem_v1: &[u8]) {
    let quick = tier == Tier::Quick;
    // the v0 memory additionally holds a receive name at KEYS + 0x10
    let mut mem0 = mem_v1.to_vec();
    mem0[KEYS as usize + 0x10..KEYS as usize + 0x13].copy_from_slice(b"a.b");
    let c = |f: F0, a: &[u64]| Call0 { f, args: cs(a) };
    // two actions exist before the call under test, so that action indices 0 and 1 are valid
    let prefix = vec![c(F0::Accept, &[]), c(F0::SimpleTransfer, &[SRC as u64, 9])];
    let mut cases: Vec<(bool, Script0)> = vec![];
    for f in ALL0 {
        let lists = arg_lists(f, true);
        let stride = if quick { lists.len().div_ceil(20_000).max(1) } else { 1 };
        for (i, args) in lists.into_iter().enumerate() {
            if i % stride != 0 {
                continue;
            }
            for limit in [true, false] {
                if !limit && !matches!(f, F0::Send | F0::LogEvent) {
                    continue;
                }
                let mut s = prefix.clone();
                s.push(Call0 { f, args: args.clone() });
                cases.push((limit, s));
            }
        }
    }
    report.set_extra("v0_single_call_cases", json!(cases.len()));
    cases.par_iter().enumerate().for_each(|(i, (limit, s))| check_script(report, s, &ctx0(*limit), &mem0, i % 16 == 0));
    // limit contexts: the 16 KiB state limit from every direction, the log limits
    let mut special: Vec<(bool, Script0)> = vec![];
    for limit in [true, false] {
        for (len, off) in [(16384u64, 0u64), (16385, 0), (0xFFFF, 0), (2, 16383), (2, 16384), (1, 16384), (0, 16384), (1, 16385)] {
            special.push((limit, vec![c(F0::ResizeState, &[16384]), c(F0::WriteState, &[0, len.min(0xFFFF), off]), c(F0::StateSize, &[])]));
            special.push((limit, vec![c(F0::WriteState, &[0, 0x10000, 0]), c(F0::WriteState, &[SRC as u64, len.min(0x100), off.min(16384)]), c(F0::StateSize, &[]), c(F0::LoadState, &[SCRATCH as u64, 8, 16380])]));
        }
        for n in [16383u64, 16384, 16385] {
            special.push((limit, vec![c(F0::ResizeState, &[n]), c(F0::StateSize, &[]), c(F0::ResizeState, &[0]), c(F0::StateSize, &[]), c(F0::LoadState, &[SCRATCH as u64, 4, 1])]));
        }
        for n in [63usize, 64, 65] {
            special.push((limit, (0..n).map(|i| c(F0::LogEvent, &[SRC as u64, (i % 5) as u64])).collect()));
        }
        for len in [511u64, 512, 513] {
            special.push((limit, vec![c(F0::LogEvent, &[0, len])]));
        }
        // combining actions: indices of existing, the current and future actions
        special.push((limit, vec![c(F0::Accept, &[]), c(F0::Accept, &[]), c(F0::CombineAnd, &[0, 1]), c(F0::CombineOr, &[2, 0]), c(F0::CombineAnd, &[3, 3])]));
        special.push((limit, vec![c(F0::Accept, &[]), c(F0::CombineOr, &[0, 1])]));
    }
    report.set_extra("v0_context_cases", json!(special.len()));
    special.par_iter().for_each(|(limit, s)| check_script(report, s, &ctx0(*limit), &mem0, true));
    // the init entrypoint: empty state, no actions; receive-only functions must fail
    let mut init_cases: Vec<(bool, Script0)> = vec![];
    let prefix_init = vec![c(F0::WriteState, &[SRC as u64, 20, 0])];
    for f in ALL0 {
        let lists = arg_lists(f, true);
        let stride = if quick { lists.len().div_ceil(4_000).max(1) } else { 1 };
        for (i, args) in lists.into_iter().enumerate() {
            if i % stride != 0 {
                continue;
            }
            let mut s = prefix_init.clone();
            s.push(Call0 { f, args });
            init_cases.push((true, s));
        }
    }
    for limit in [true, false] {
        for (len, off) in [(16384u64, 0u64), (16385, 0), (2, 16383), (1, 16384)] {
            init_cases.push((limit, vec![c(F0::ResizeState, &[16384]), c(F0::WriteState, &[0, len, off]), c(F0::StateSize, &[])]));
        }
        for n in [64usize, 65] {
            init_cases.push((limit, (0..n).map(|i| c(F0::LogEvent, &[SRC as u64, (i % 5) as u64])).collect()));
        }
    }
    report.set_extra("v0_init_cases", json!(init_cases.len()));
    init_cases.par_iter().enumerate().for_each(|(i, (limit, s))| {
        let mut cx = ctx0(*limit);
        cx.init = true;
        check_script(report, s, &cx, &mem0, i % 16 == 0)
    });
    // contracts with two pages of memory: the bounds are at 128 KiB
    let mut mem2 = mem0.clone();
    mem2.resize(2 * MEM, 0);
    let ptr2 = cs(&[SCRATCH as u64, 0xFFFF, 0x10000, 0x1FFF8, 0x1FFFF, 0x20000, 0xFFFF_FFFF]);
    let len2 = cs(&[0, 1, 8, 20, 0x4000, 0x10000, 0x10001, 0x1FFFF, 0x20000]);
    let mut two_page: Vec<Script0> = vec![];
    for f in ALL0 {
        let lists: Vec<Vec<Arg>> = match f {
            F0::SimpleTransfer => vec![ptr2.clone(), cs(&[3])],
            F0::Send => vec![cs(&[1]), cs(&[2]), cs(&[KEYS as u64 + 0x10, 0x1FFFD, 0x1FFFE, 0x20000]), cs(&[3]), cs(&[7]), ptr2.clone(), cs(&[0, 5, 1024, 1025])],
            F0::GetParameterSection | F0::GetPolicySection | F0::LoadState | F0::WriteState => vec![ptr2.clone(), len2.clone(), cs(&[0, 1])],
            F0::LogEvent => vec![ptr2.clone(), cs(&[0, 1, 8, 512, 513])],
            F0::GetReceiveInvoker | F0::GetReceiveSelfAddress | F0::GetReceiveSender | F0::GetReceiveOwner => vec![ptr2.clone()],
            _ => continue,
        };
        for args in product(&lists) {
            let mut s = prefix.clone();
            s.push(Call0 { f, args });
            two_page.push(s);
        }
    }
    report.set_extra("v0_two_page_memory_cases", json!(two_page.len()));
    let c1 = ctx0(true);
    two_page.par_iter().enumerate().for_each(|(i, s)| check_script(report, s, &c1, &mem2, i % 16 == 0));
    // parameter sizes: empty, one byte, the limits
    let mut param_cases: Vec<(Ctx0, Script0)> = vec![];
    for limit in [true, false] {
        for plen in [0usize, 1, 1024, 65535] {
            let mut cx = ctx0(limit);
            if plen > cx.max_param {
                continue;
            }
            cx.parameter = (0..plen).map(|i| (i * 11 + 3) as u8).collect();
            param_cases.push((cx.clone(), vec![c(F0::GetParameterSize, &[])]));
            let pl = plen as u64;
            let mut lens = vec![0, 1, pl.saturating_sub(1), pl, pl + 1, 0xFFFF, 0x10000];
            lens.sort();
            lens.dedup();
            let mut offs = vec![0, 1, pl.saturating_sub(1), pl, pl + 1];
            offs.sort();
            offs.dedup();
            for ptr in [0u64, 1, SCRATCH as u64] {
                for len in &lens {
                    for off in &offs {
                        param_cases.push((cx.clone(), vec![c(F0::GetParameterSection, &[ptr, *len, *off])]));
                    }
                }
            }
        }
    }
    report.set_extra("v0_parameter_size_cases", json!(param_cases.len()));
    param_cases.par_iter().for_each(|(cx, s)| check_script(report, s, cx, &mem0, true));
    // all pairs (thorough: triples of the state functions) over the reduced alphabet
    let mut atoms: Vec<Call0> = vec![];
    for f in ALL0 {
        for args in arg_lists(f, false) {
            atoms.push(Call0 { f, args });
        }
    }
    let mut scripts: Vec<Script0> = vec![];
    for a in &atoms {
        for b in &atoms {
            let mut s = prefix.clone();
            s.push(a.clone());
            s.push(b.clone());
            scripts.push(s);
        }
    }
    if !quick {
        let st: Vec<Call0> = atoms.iter().filter(|a| matches!(a.f, F0::LoadState | F0::WriteState | F0::ResizeState | F0::StateSize | F0::LogEvent | F0::Accept | F0::CombineAnd)).cloned().collect();
        for a in &st {
            for b in &st {
                for d in &st {
                    let mut s = prefix.clone();
                    s.push(a.clone());
                    s.push(b.clone());
                    s.push(d.clone());
                    scripts.push(s);
                }
            }
        }
    }
    report.set_extra("v0_script_cases", json!(scripts.len()));
    let c0 = ctx0(true);
    scripts.par_iter().for_each(|s| check_script(report, s, &c0, &mem0, false));
}

/// A nesting program (see `resume.rs`) on the v0 interface. `Ok(true)`: ran to the end,
/// `Ok(false)`: runtime error.
pub fn run_nesting_v0(wasm: &[u8], init: bool) -> Result<bool, String> {
    let inst = instantiate_with_metering::<v0::ProcessedImports>(ValidationConfig::V0, CostConfigurationV0, &v0::ConcordiumAllowedImports, wasm).map_err(|e| format!("module rejected: {e:#}"))?;
    let artifact: concordium_wasm::artifact::Artifact<v0::ProcessedImports, CompiledFunction> = inst.artifact;
    let policy: Vec<u8> = (100..112).collect();
    mc_core::set_dirty_limit(MEM);
    if init {
        let ictx: v0::InitContext<&[u8]> = v0::InitContext { metadata: ChainMetadata { slot_time: Timestamp::from_timestamp_millis(0) }, init_origin: AccountAddress([1; 32]), sender_policies: &policy[..] };
        let inv = v0::InitInvocation { amount: 0, init_name: "init_c", parameter: concordium_contracts_common::Parameter::new_unchecked(&[]), energy: InterpreterEnergy::new(BUDGET) };
        match v0::invoke_init(&artifact, ictx, inv, false) {
            Err(_) => Ok(false),
            Ok(v0::InitResult::Success { .. }) => Ok(true),
            Ok(_) => Err("unexpected v0 init outcome".into()),
        }
    } else {
        let rc: v0::ReceiveContext<&[u8]> = v0::ReceiveContext { metadata: ChainMetadata { slot_time: Timestamp::from_timestamp_millis(0) }, invoker: AccountAddress([1; 32]), self_address: ContractAddress::new(1, 0), self_balance: Amount::from_micro_ccd(0), sender: Address::Contract(ContractAddress::new(5, 6)), owner: AccountAddress([2; 32]), sender_policies: &policy[..] };
        let inv = v0::ReceiveInvocation { amount: 0, receive_name: "c.run", parameter: concordium_contracts_common::Parameter::new_unchecked(&[]), energy: InterpreterEnergy::new(BUDGET) };
        let st = initial_state0();
        match v0::invoke_receive(&artifact, rc, inv, &st[..], 1024, false) {
            Err(_) => Ok(false),
            Ok(v0::ReceiveResult::Success { .. }) => Ok(true),
            Ok(_) => Err("unexpected v0 receive outcome".into()),
        }
    }
}
