//! Reference interpreter: a plain operand-stack machine over the structured AST, one
//! match arm per instruction, following the execution rules of the specification
//! (section 4.4). No register allocation, no unsafe, no code shared with the
//! implementation under test. Optionally accumulates the pinned energy cost of every
//! executed instruction and reports host-call checkpoints.

use crate::{
    ast::{Instr, Module, BT, VT},
    cost::{self, CostV},
    ops::{mem_load, mem_store, num_eval, num_sig, Trap, Val},
};

pub const PAGE: usize = 65536;
/// The implementation caps memories at 512 pages (documented, allowed by the spec since
/// memory.grow may fail).
pub const MAX_PAGES: u32 = 512;

#[derive(Clone, Debug, PartialEq, Eq)]
pub enum Event {
    /// Host function `import index` called with args; `cost` = pinned cost of all
    /// instructions executed so far, including the call instruction itself.
    HostCall { import: u32, args: Vec<i64>, cost: [u64; 2] },
    /// `memory.grow n` reached with the memory having `old_pages`; `cost` as above
    /// (including the memory.grow instruction).
    MemGrow { n: u32, old_pages: u32, cost: [u64; 2], seg_charged: [u64; 2] },
}

#[derive(Clone, Debug, PartialEq, Eq)]
pub enum Stop {
    Trap,
    /// the reference's own step limit was hit: the program is "long running" and only its
    /// budgeted behaviour is compared
    StepLimit,
    /// a host call asked to stop (used to model out-of-energy inside the host)
    HostStop,
}

#[derive(Clone, Debug, PartialEq, Eq)]
pub struct RefResult {
    pub outcome:  Result<Option<Val>, Stop>,
    pub memory:   Vec<u8>,
    pub globals:  Vec<Val>,
    /// total pinned cost of executed instructions (incl. invoke_after of entered functions)
    pub cost:     [u64; 2],
    /// cost that the segment-wise charging must have taken at the end of the run:
    /// `cost` + static cost of the not-executed rest of the current straight-line segment
    /// (only differs from `cost` when the run trapped in the middle of a segment).
    pub charged:  [u64; 2],
    pub events:   Vec<Event>,
    pub steps:    u64,
    pub max_depth: u32,
}

/// Host behaviour for imported functions in the reference run.
pub trait RefHost {
    /// Return the result value (if the import has one), or `Err` to trap.
    fn call(&mut self, import: u32, args: &[Val], mem: &mut Vec<u8>) -> Result<Option<Val>, Trap>;
}

pub struct NoHost;
impl RefHost for NoHost {
    fn call(&mut self, _: u32, _: &[Val], _: &mut Vec<u8>) -> Result<Option<Val>, Trap> { Err(Trap) }
}

struct FnInfo {
    /// body with the final End appended
    body:        Vec<Instr>,
    /// for Block/Loop/If at i: index of the matching End
    end_of:      Vec<usize>,
    /// for If at i: index of its Else (if any); for Else at i: index of the matching End
    else_of:     Vec<usize>,
    /// static per-instruction cost (0 if no cost version)
    cost:        Vec<[u64; 2]>,
    /// for BrIf at i: extra cost when the branch is taken
    taken_cost:  Vec<[u64; 2]>,
    /// static cost of the rest of the segment AFTER instruction i (0 if i is a boundary)
    rest_of_seg: Vec<[u64; 2]>,
    entry_cost:  [u64; 2],
    locals:      Vec<VT>,
    nparams:     usize,
    result:      Option<VT>,
}

pub struct RefMachine<'a> {
    m:          &'a Module,
    fns:        Vec<FnInfo>,
    pub step_limit: u64,
    pub max_call_depth: u32,
}

const NONE: usize = usize::MAX;

fn analyse(m: &Module, fi: usize, with_cost: bool) -> FnInfo {
    let f = &m.funcs[fi];
    let ft = &m.types[f.ty as usize];
    let mut body = f.body.clone();
    body.push(Instr::End);
    let n = body.len();
    let mut end_of = vec![NONE; n];
    let mut else_of = vec![NONE; n];
    let mut open: Vec<usize> = vec![];
    for (i, ins) in body.iter().enumerate() {
        match ins {
            Instr::Block(_) | Instr::Loop(_) | Instr::If(_) => open.push(i),
            Instr::Else => {
                let o = *open.last().expect("validated: else inside if");
                else_of[o] = i;
            }
            Instr::End => {
                if let Some(o) = open.pop() {
                    end_of[o] = i;
                    if else_of[o] != NONE {
                        let e = else_of[o];
                        else_of[e] = i;
                    }
                }
            }
            _ => {}
        }
    }
    let mut cost = vec![[0u64; 2]; n];
    let mut taken_cost = vec![[0u64; 2]; n];
    let mut rest_of_seg = vec![[0u64; 2]; n];
    let mut entry_cost = [0u64; 2];
    for (vi, v) in [CostV::V0, CostV::V1].into_iter().enumerate() {
        if !with_cost {
            break;
        }
        let func_sig = |idx: u32| {
            let t = m.func_type(idx).expect("validated");
            (t.params.len(), t.result.is_some() as usize)
        };
        let type_sig = |idx: u32| {
            let t = &m.types[idx as usize];
            (t.params.len(), t.result.is_some() as usize)
        };
        let mut labels: Vec<BT> = vec![match ft.result {
            None => BT::Empty,
            Some(v) => BT::Val(v),
        }];
        for (i, ins) in body.iter().enumerate() {
            if labels.is_empty() {
                break;
            }
            cost[i][vi] = cost::instr_cost(v, ins, &labels, &func_sig, &type_sig);
            match ins {
                Instr::Block(b) => labels.push(*b),
                Instr::Loop(_) => labels.push(BT::Empty),
                Instr::If(b) => labels.push(*b),
                Instr::End => {
                    labels.pop();
                }
                Instr::BrIf(l) => {
                    let ar = labels[labels.len() - 1 - *l as usize].arity();
                    taken_cost[i][vi] = cost::branch(v, ar);
                }
                _ => {}
            }
        }
        // rest of segment: sum of costs of following instructions up to and including the
        // next boundary instruction
        let mut acc = 0u64;
        for i in (0..n).rev() {
            if cost::is_boundary(&body[i]) {
                rest_of_seg[i][vi] = 0;
                acc = cost[i][vi];
            } else {
                rest_of_seg[i][vi] = acc;
                acc += cost[i][vi];
            }
        }
        entry_cost[vi] = cost::invoke_after(v, f.locals.len() as u32);
    }
    let mut locals = ft.params.clone();
    locals.extend(f.locals.iter().copied());
    FnInfo { body, end_of, else_of, cost, taken_cost, rest_of_seg, entry_cost, locals, nparams: ft.params.len(), result: ft.result }
}

struct Label {
    height:  usize,
    arity:   usize,
    target:  usize,
}

struct Run<'h> {
    memory:    Vec<u8>,
    max_pages: u32,
    globals:   Vec<Val>,
    cost:      [u64; 2],
    /// extra charge pending for the unexecuted rest of the segment at the trap point
    rest:      [u64; 2],
    /// the trap was raised by a call instruction itself (depth exhaustion / host trap)
    call_trap: bool,
    events:    Vec<Event>,
    steps:     u64,
    depth:     u32,
    max_depth: u32,
    host:      &'h mut dyn RefHost,
}

impl<'a> RefMachine<'a> {
    pub fn new(m: &'a Module, with_cost: bool) -> Self {
        let fns = (0..m.funcs.len()).map(|i| analyse(m, i, with_cost)).collect();
        RefMachine { m, fns, step_limit: 20_000, max_call_depth: 128 }
    }

    /// Run the exported-or-not function with index `func` (in the function index space).
    pub fn run(&self, func: u32, args: &[Val], host: &mut dyn RefHost) -> RefResult {
        let m = self.m;
        let memory = match m.memory {
            Some((min, _)) => {
                let mut mem = vec![0u8; min as usize * PAGE];
                for (off, bytes) in &m.data {
                    let off = *off as usize;
                    mem[off..off + bytes.len()].copy_from_slice(bytes);
                }
                mem
            }
            None => vec![],
        };
        let max_pages = match m.memory {
            Some((_, Some(mx))) => mx.min(MAX_PAGES),
            Some((_, None)) => MAX_PAGES,
            None => 0,
        };
        let globals = m
            .globals
            .iter()
            .map(|g| match g.ty {
                VT::I32 => Val::I32(g.init as i32),
                VT::I64 => Val::I64(g.init),
            })
            .collect();
        let mut run = Run { memory, max_pages, globals, cost: [0; 2], rest: [0; 2], call_trap: false, events: vec![], steps: 0, depth: 0, max_depth: 0, host };
        let outcome = self.call(&mut run, func, args.to_vec());
        let charged = [run.cost[0] + run.rest[0], run.cost[1] + run.rest[1]];
        RefResult {
            outcome,
            memory: run.memory,
            globals: run.globals,
            cost: run.cost,
            charged,
            events: run.events,
            steps: run.steps,
            max_depth: run.max_depth,
        }
    }

    fn call(&self, run: &mut Run, func: u32, args: Vec<Val>) -> Result<Option<Val>, Stop> {
        let nimports = self.m.imports.len();
        let fi = func as usize - nimports;
        let info = &self.fns[fi];
        run.cost[0] += info.entry_cost[0];
        run.cost[1] += info.entry_cost[1];
        let mut locals: Vec<Val> = args;
        for t in &info.locals[info.nparams..] {
            locals.push(Val::zero(*t));
        }
        let mut stack: Vec<Val> = vec![];
        let mut labels: Vec<Label> = vec![];
        let mut pc = 0usize;
        let body = &info.body;
        let ret_arity = info.result.is_some() as usize;
        macro_rules! trap {
            () => {{
                run.rest = info.rest_of_seg[pc];
                return Err(Stop::Trap);
            }};
        }
        loop {
            run.steps += 1;
            if run.steps > self.step_limit {
                return Err(Stop::StepLimit);
            }
            let ins = &body[pc];
            run.cost[0] += info.cost[pc][0];
            run.cost[1] += info.cost[pc][1];
            // branch helper result: Some(pc) to continue, None = return from function
            let mut branch_to: Option<u32> = None;
            match ins {
                Instr::Raw(_) => panic!("reference interpreter: raw bytes in a validated body"),
                Instr::Nop => pc += 1,
                Instr::Unreachable => trap!(),
                Instr::Block(b) => {
                    labels.push(Label { height: stack.len(), arity: b.arity(), target: info.end_of[pc] + 1 });
                    pc += 1;
                }
                Instr::Loop(_) => {
                    labels.push(Label { height: stack.len(), arity: 0, target: pc });
                    pc += 1;
                }
                Instr::If(b) => {
                    let c = stack.pop().expect("validated").as_i32();
                    let end = info.end_of[pc];
                    let els = info.else_of[pc];
                    if c != 0 {
                        labels.push(Label { height: stack.len(), arity: b.arity(), target: end + 1 });
                        pc += 1;
                    } else if els != NONE {
                        labels.push(Label { height: stack.len(), arity: b.arity(), target: end + 1 });
                        pc = els + 1;
                    } else {
                        pc = end + 1;
                    }
                }
                Instr::Else => {
                    // end of the then-branch: leave the block
                    let end = info.else_of[pc];
                    labels.pop().expect("validated");
                    pc = end + 1;
                }
                Instr::End => {
                    if labels.pop().is_none() {
                        // function end
                        let r = if ret_arity == 1 { Some(stack.pop().expect("validated")) } else { None };
                        return Ok(r);
                    }
                    pc += 1;
                }
                Instr::Br(l) => branch_to = Some(*l),
                Instr::BrIf(l) => {
                    let c = stack.pop().expect("validated").as_i32();
                    if c != 0 {
                        run.cost[0] += info.taken_cost[pc][0];
                        run.cost[1] += info.taken_cost[pc][1];
                        branch_to = Some(*l);
                    } else {
                        pc += 1;
                    }
                }
                Instr::BrTable(ls, d) => {
                    let i = stack.pop().expect("validated").as_i32() as u32;
                    let l = if (i as usize) < ls.len() { ls[i as usize] } else { *d };
                    branch_to = Some(l);
                }
                Instr::Return => branch_to = Some(labels.len() as u32),
                Instr::Call(f) => {
                    let ft = self.m.func_type(*f).expect("validated");
                    let n = ft.params.len();
                    let args: Vec<Val> = stack.split_off(stack.len() - n);
                    match self.invoke(run, *f, args) {
                        Ok(r) => {
                            if let Some(r) = r {
                                stack.push(r)
                            }
                        }
                        Err(e) => return Err(e),
                    }
                    pc += 1;
                }
                Instr::CallIndirect(t) => {
                    let i = stack.pop().expect("validated").as_i32() as u32;
                    let want = &self.m.types[*t as usize];
                    // table lookup
                    let size = self.m.table.map(|(min, _)| min).unwrap_or(0);
                    if i >= size {
                        trap!();
                    }
                    let mut target: Option<u32> = None;
                    for (off, fs) in &self.m.elems {
                        if i >= *off && ((i - *off) as usize) < fs.len() {
                            target = Some(fs[(i - *off) as usize]);
                        }
                    }
                    let Some(f) = target else { trap!() };
                    let actual = self.m.func_type(f).expect("validated");
                    if actual != want {
                        trap!();
                    }
                    let n = want.params.len();
                    let args: Vec<Val> = stack.split_off(stack.len() - n);
                    match self.invoke(run, f, args) {
                        Ok(r) => {
                            if let Some(r) = r {
                                stack.push(r)
                            }
                        }
                        Err(e) => return Err(e),
                    }
                    pc += 1;
                }
                Instr::Drop => {
                    stack.pop().expect("validated");
                    pc += 1;
                }
                Instr::Select => {
                    let c = stack.pop().expect("validated").as_i32();
                    let v2 = stack.pop().expect("validated");
                    let v1 = stack.pop().expect("validated");
                    stack.push(if c != 0 { v1 } else { v2 });
                    pc += 1;
                }
                Instr::LocalGet(l) => {
                    stack.push(locals[*l as usize]);
                    pc += 1;
                }
                Instr::LocalSet(l) => {
                    locals[*l as usize] = stack.pop().expect("validated");
                    pc += 1;
                }
                Instr::LocalTee(l) => {
                    locals[*l as usize] = *stack.last().expect("validated");
                    pc += 1;
                }
                Instr::GlobalGet(g) => {
                    stack.push(run.globals[*g as usize]);
                    pc += 1;
                }
                Instr::GlobalSet(g) => {
                    run.globals[*g as usize] = stack.pop().expect("validated");
                    pc += 1;
                }
                Instr::Load(op, _, off) => {
                    let base = stack.pop().expect("validated").as_i32();
                    match mem_load(&run.memory, *op, base, *off) {
                        Ok(v) => stack.push(v),
                        Err(Trap) => trap!(),
                    }
                    pc += 1;
                }
                Instr::Store(op, _, off) => {
                    let v = stack.pop().expect("validated");
                    let base = stack.pop().expect("validated").as_i32();
                    if mem_store(&mut run.memory, *op, base, *off, v).is_err() {
                        trap!();
                    }
                    pc += 1;
                }
                Instr::MemorySize => {
                    stack.push(Val::I32((run.memory.len() / PAGE) as i32));
                    pc += 1;
                }
                Instr::MemoryGrow => {
                    let n = stack.pop().expect("validated").as_i32() as u32;
                    let old = (run.memory.len() / PAGE) as u32;
                    run.events.push(Event::MemGrow { n, old_pages: old, cost: run.cost, seg_charged: [run.cost[0] + info.rest_of_seg[pc][0], run.cost[1] + info.rest_of_seg[pc][1]] });
                    if old as u64 + n as u64 > run.max_pages as u64 {
                        stack.push(Val::I32(-1));
                    } else {
                        run.memory.resize((old + n) as usize * PAGE, 0);
                        stack.push(Val::I32(old as i32));
                    }
                    pc += 1;
                }
                Instr::I32Const(c) => {
                    stack.push(Val::I32(*c));
                    pc += 1;
                }
                Instr::I64Const(c) => {
                    stack.push(Val::I64(*c));
                    pc += 1;
                }
                Instr::Num(op) => {
                    let (ps, _) = num_sig(*op, true).expect("validated");
                    let args = stack.split_off(stack.len() - ps.len());
                    match num_eval(*op, &args) {
                        Ok(v) => stack.push(v),
                        Err(Trap) => trap!(),
                    }
                    pc += 1;
                }
            }
            if let Some(l) = branch_to {
                let l = l as usize;
                if l >= labels.len() {
                    // branch to the function's own label = return
                    let r = if ret_arity == 1 { Some(stack.pop().expect("validated")) } else { None };
                    return Ok(r);
                }
                let idx = labels.len() - 1 - l;
                let (height, arity, target) = {
                    let lab = &labels[idx];
                    (lab.height, lab.arity, lab.target)
                };
                let vals = stack.split_off(stack.len() - arity);
                stack.truncate(height);
                stack.extend(vals);
                labels.truncate(idx);
                pc = target;
            }
        }
    }

    /// Invoke function index `f` (import or defined). A trap raised by the call itself
    /// (depth exhaustion, host trap) leaves nothing pending: a call ends its segment.
    fn invoke(&self, run: &mut Run, f: u32, args: Vec<Val>) -> Result<Option<Val>, Stop> {
        let nimports = self.m.imports.len() as u32;
        if f < nimports {
            run.events.push(Event::HostCall { import: f, args: args.iter().map(|v| v.bits()).collect(), cost: run.cost });
            match run.host.call(f, &args, &mut run.memory) {
                Ok(r) => Ok(r),
                Err(Trap) => {
                    run.rest = [0; 2];
                    run.call_trap = true;
                    Err(Stop::Trap)
                }
            }
        } else {
            if run.depth >= self.max_call_depth {
                run.rest = [0; 2];
                run.call_trap = true;
                return Err(Stop::Trap);
            }
            run.depth += 1;
            run.max_depth = run.max_depth.max(run.depth);
            let r = self.call(run, f, args);
            run.depth -= 1;
            r
        }
    }
}
