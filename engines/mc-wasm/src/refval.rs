//! Reference validator for function bodies: the algorithm of the specification's
//! appendix ("Validation Algorithm"), as an incremental, clonable state machine so that
//! the program enumerator can extend a valid prefix one instruction at a time.

use crate::{
    ast::{Instr, Module, BT, VT},
    ops::{load_sig, num_sig, store_sig},
};

#[derive(Clone, Debug, PartialEq, Eq, Hash)]
pub struct Frame {
    pub is_if:       bool,
    pub is_loop:     bool,
    pub label:       BT,
    pub end:         BT,
    pub height:      usize,
    pub unreachable: bool,
}

#[derive(Clone, Debug, PartialEq, Eq, Hash)]
pub struct VState {
    /// `None` = unknown (stack-polymorphic) operand
    pub opds:       Vec<Option<VT>>,
    pub ctrls:      Vec<Frame>,
    /// maximal operand stack height seen in reachable code
    pub max_height: usize,
}

/// What a function body may refer to.
#[derive(Clone, Debug)]
pub struct FnCtx {
    pub locals:     Vec<VT>,
    pub ret:        Option<VT>,
    /// (params, result) of every function index
    pub funcs:      Vec<(Vec<VT>, Option<VT>)>,
    pub types:      Vec<(Vec<VT>, Option<VT>)>,
    /// (type, mutable)
    pub globals:    Vec<(VT, bool)>,
    pub has_memory: bool,
    pub has_table:  bool,
    pub sign_ext:   bool,
}

impl FnCtx {
    pub fn for_func(m: &Module, func_idx_in_defined: usize, sign_ext: bool) -> FnCtx {
        let f = &m.funcs[func_idx_in_defined];
        let ft = &m.types[f.ty as usize];
        let mut locals = ft.params.clone();
        locals.extend(f.locals.iter().copied());
        let mut funcs = vec![];
        for i in &m.imports {
            let t = &m.types[i.ty as usize];
            funcs.push((t.params.clone(), t.result));
        }
        for g in &m.funcs {
            let t = &m.types[g.ty as usize];
            funcs.push((t.params.clone(), t.result));
        }
        FnCtx {
            locals,
            ret: ft.result,
            funcs,
            types: m.types.iter().map(|t| (t.params.clone(), t.result)).collect(),
            globals: m.globals.iter().map(|g| (g.ty, g.mutable)).collect(),
            has_memory: m.memory.is_some(),
            has_table: m.table.is_some(),
            sign_ext,
        }
    }
}

fn bt_of(r: Option<VT>) -> BT {
    match r {
        None => BT::Empty,
        Some(v) => BT::Val(v),
    }
}

pub const MAX_SWITCH_SIZE: usize = 4096;

impl VState {
    pub fn new(ctx: &FnCtx) -> VState {
        let mut s = VState { opds: vec![], ctrls: vec![], max_height: 0 };
        s.push_ctrl(false, false, bt_of(ctx.ret), bt_of(ctx.ret));
        s
    }

    /// The control stack is empty: the function's final `end` has been consumed.
    pub fn done(&self) -> bool { self.ctrls.is_empty() }

    pub fn depth(&self) -> usize { self.ctrls.len() }

    pub fn reachable(&self) -> bool { self.ctrls.iter().all(|f| !f.unreachable) }

    fn push(&mut self, t: Option<VT>) {
        self.opds.push(t);
        if let Some(f) = self.ctrls.last() {
            if !f.unreachable {
                self.max_height = self.max_height.max(self.opds.len());
            }
        }
    }

    fn pop(&mut self) -> Result<Option<VT>, ()> {
        let f = self.ctrls.last().ok_or(())?;
        if self.opds.len() == f.height {
            if f.unreachable {
                Ok(None)
            } else {
                Err(())
            }
        } else {
            self.opds.pop().ok_or(())
        }
    }

    fn pop_expect(&mut self, e: Option<VT>) -> Result<Option<VT>, ()> {
        let a = self.pop()?;
        match (a, e) {
            (None, e) => Ok(e),
            (a, None) => Ok(a),
            (Some(x), Some(y)) if x == y => Ok(Some(x)),
            _ => Err(()),
        }
    }

    fn push_bt(&mut self, b: BT) {
        if let BT::Val(v) = b {
            self.push(Some(v))
        }
    }

    fn pop_bt(&mut self, b: BT) -> Result<(), ()> {
        if let BT::Val(v) = b {
            self.pop_expect(Some(v))?;
        }
        Ok(())
    }

    fn push_ctrl(&mut self, is_if: bool, is_loop: bool, label: BT, end: BT) {
        self.ctrls.push(Frame { is_if, is_loop, label, end, height: self.opds.len(), unreachable: false });
    }

    fn pop_ctrl(&mut self) -> Result<Frame, ()> {
        let f = self.ctrls.last().ok_or(())?.clone();
        self.pop_bt(f.end)?;
        if self.opds.len() != f.height {
            return Err(());
        }
        self.ctrls.pop();
        Ok(f)
    }

    fn unreachable(&mut self) -> Result<(), ()> {
        let f = self.ctrls.last_mut().ok_or(())?;
        self.opds.truncate(f.height);
        f.unreachable = true;
        Ok(())
    }

    fn label(&self, l: u32) -> Result<BT, ()> {
        let l = l as usize;
        if l >= self.ctrls.len() {
            return Err(());
        }
        Ok(self.ctrls[self.ctrls.len() - 1 - l].label)
    }

    /// Type-check one more instruction. `Err(())` = the extended sequence is invalid.
    pub fn step(&mut self, ctx: &FnCtx, i: &Instr) -> Result<(), ()> {
        if self.done() {
            // nothing may follow the function's final `end`
            return Err(());
        }
        use VT::*;
        match i {
            Instr::Raw(_) => return Err(()),
            Instr::Nop => {}
            Instr::Unreachable => self.unreachable()?,
            Instr::Block(b) => self.push_ctrl(false, false, *b, *b),
            Instr::Loop(b) => self.push_ctrl(false, true, BT::Empty, *b),
            Instr::If(b) => {
                self.pop_expect(Some(I32))?;
                self.push_ctrl(true, false, *b, *b)
            }
            Instr::Else => {
                let f = self.pop_ctrl()?;
                if !f.is_if {
                    return Err(());
                }
                self.push_ctrl(false, false, f.end, f.end)
            }
            Instr::End => {
                let f = self.pop_ctrl()?;
                if f.is_if && f.end != BT::Empty {
                    // `if` without `else`: the implicit else branch is empty
                    return Err(());
                }
                self.push_bt(f.end);
            }
            Instr::Br(l) => {
                let t = self.label(*l)?;
                self.pop_bt(t)?;
                self.unreachable()?
            }
            Instr::BrIf(l) => {
                let t = self.label(*l)?;
                self.pop_expect(Some(I32))?;
                self.pop_bt(t)?;
                self.push_bt(t)
            }
            Instr::BrTable(ls, d) => {
                if ls.len() > MAX_SWITCH_SIZE {
                    return Err(());
                }
                let t = self.label(*d)?;
                for l in ls {
                    if self.label(*l)? != t {
                        return Err(());
                    }
                }
                self.pop_expect(Some(I32))?;
                self.pop_bt(t)?;
                self.unreachable()?
            }
            Instr::Return => {
                let t = self.ctrls.first().ok_or(())?.label;
                self.pop_bt(t)?;
                self.unreachable()?
            }
            Instr::Call(f) => {
                let (ps, r) = ctx.funcs.get(*f as usize).ok_or(())?.clone();
                for p in ps.iter().rev() {
                    self.pop_expect(Some(*p))?;
                }
                if let Some(r) = r {
                    self.push(Some(r))
                }
            }
            Instr::CallIndirect(t) => {
                if !ctx.has_table {
                    return Err(());
                }
                let (ps, r) = ctx.types.get(*t as usize).ok_or(())?.clone();
                self.pop_expect(Some(I32))?;
                for p in ps.iter().rev() {
                    self.pop_expect(Some(*p))?;
                }
                if let Some(r) = r {
                    self.push(Some(r))
                }
            }
            Instr::Drop => {
                self.pop()?;
            }
            Instr::Select => {
                self.pop_expect(Some(I32))?;
                let t1 = self.pop()?;
                let t2 = self.pop_expect(t1)?;
                self.push(t2)
            }
            Instr::LocalGet(l) => {
                let t = *ctx.locals.get(*l as usize).ok_or(())?;
                self.push(Some(t))
            }
            Instr::LocalSet(l) => {
                let t = *ctx.locals.get(*l as usize).ok_or(())?;
                self.pop_expect(Some(t))?;
            }
            Instr::LocalTee(l) => {
                let t = *ctx.locals.get(*l as usize).ok_or(())?;
                self.pop_expect(Some(t))?;
                self.push(Some(t))
            }
            Instr::GlobalGet(g) => {
                let (t, _) = *ctx.globals.get(*g as usize).ok_or(())?;
                self.push(Some(t))
            }
            Instr::GlobalSet(g) => {
                let (t, m) = *ctx.globals.get(*g as usize).ok_or(())?;
                if !m {
                    return Err(());
                }
                self.pop_expect(Some(t))?;
            }
            Instr::Load(op, align, _) => {
                if !ctx.has_memory {
                    return Err(());
                }
                let (t, w, _) = load_sig(*op).ok_or(())?;
                if *align > 31 || (1u64 << *align) > w as u64 {
                    return Err(());
                }
                self.pop_expect(Some(I32))?;
                self.push(Some(t))
            }
            Instr::Store(op, align, _) => {
                if !ctx.has_memory {
                    return Err(());
                }
                let (t, w) = store_sig(*op).ok_or(())?;
                if *align > 31 || (1u64 << *align) > w as u64 {
                    return Err(());
                }
                self.pop_expect(Some(t))?;
                self.pop_expect(Some(I32))?;
            }
            Instr::MemorySize => {
                if !ctx.has_memory {
                    return Err(());
                }
                self.push(Some(I32))
            }
            Instr::MemoryGrow => {
                if !ctx.has_memory {
                    return Err(());
                }
                self.pop_expect(Some(I32))?;
                self.push(Some(I32))
            }
            Instr::I32Const(_) => self.push(Some(I32)),
            Instr::I64Const(_) => self.push(Some(I64)),
            Instr::Num(op) => {
                let (ps, r) = num_sig(*op, ctx.sign_ext).ok_or(())?;
                for p in ps.iter().rev() {
                    self.pop_expect(Some(*p))?;
                }
                self.push(Some(r))
            }
        }
        Ok(())
    }
}

/// Validate a complete body (WITHOUT its final `end`, which is appended here).
/// Returns the maximal reachable operand-stack height.
pub fn validate_body(ctx: &FnCtx, body: &[Instr]) -> Result<usize, ()> {
    let mut s = VState::new(ctx);
    for i in body {
        s.step(ctx, i)?;
    }
    s.step(ctx, &Instr::End)?;
    if s.done() {
        Ok(s.max_height)
    } else {
        Err(())
    }
}
