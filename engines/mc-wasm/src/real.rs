//! Driving the implementation under test: `concordium_wasm::utils::instantiate*`,
//! `Artifact::run` / `run_config`, with a recording, budget-enforcing, optionally
//! interrupting host.

use crate::{cost::CostV, ops::Val};
use concordium_wasm::{
    artifact::{Artifact, ArtifactNamedImport, CompiledFunction, RunnableCode},
    machine::{ExecutionOutcome, Host, RunResult, RuntimeStack, Value},
    types::{FunctionType, Name},
    utils, CostConfigurationV0, CostConfigurationV1,
    validate::{ValidateImportExport, ValidationConfig},
};

pub type RealArtifact = Artifact<ArtifactNamedImport, CompiledFunction>;

#[derive(Clone, Copy, Debug, PartialEq, Eq, Hash)]
pub enum VCfg {
    V0,
    V1,
}

impl VCfg {
    pub fn cfg(self) -> ValidationConfig {
        match self {
            VCfg::V0 => ValidationConfig::V0,
            VCfg::V1 => ValidationConfig::V1,
        }
    }

    pub fn sign_ext(self) -> bool { self == VCfg::V1 }

    pub fn name(self) -> &'static str {
        match self {
            VCfg::V0 => "V0",
            VCfg::V1 => "V1",
        }
    }
}

#[derive(Clone, Copy, Debug, PartialEq, Eq, Hash)]
pub struct Build {
    pub vcfg:     VCfg,
    pub metering: Option<CostV>,
}

impl Build {
    pub fn name(&self) -> String {
        format!("{}/{}", self.vcfg.name(), self.metering.map(|c| c.name()).unwrap_or("plain"))
    }
}

pub const ALL_BUILDS: [Build; 6] = [
    Build { vcfg: VCfg::V1, metering: None },
    Build { vcfg: VCfg::V1, metering: Some(CostV::V1) },
    Build { vcfg: VCfg::V0, metering: Some(CostV::V0) },
    Build { vcfg: VCfg::V0, metering: None },
    Build { vcfg: VCfg::V0, metering: Some(CostV::V1) },
    Build { vcfg: VCfg::V1, metering: Some(CostV::V0) },
];

/// Import/export policy of the harness: imports from module "env" whose names start with
/// `h` are allowed with any type; every export is allowed.
pub struct EnvImports;

impl ValidateImportExport for EnvImports {
    fn validate_import_function(&self, duplicate: bool, mod_name: &Name, item_name: &Name, _ty: &FunctionType) -> bool {
        !duplicate && mod_name.as_ref() == "env" && item_name.as_ref().starts_with('h')
    }

    fn validate_export_function(&self, _item_name: &Name, _ty: &FunctionType) -> bool { true }
}

pub fn instantiate(bytes: &[u8], b: Build) -> anyhow::Result<RealArtifact> {
    match b.metering {
        None => utils::instantiate::<ArtifactNamedImport, _>(b.vcfg.cfg(), &EnvImports, bytes).map(|x| x.artifact),
        Some(CostV::V0) => {
            utils::instantiate_with_metering::<ArtifactNamedImport>(b.vcfg.cfg(), CostConfigurationV0, &EnvImports, bytes)
                .map(|x| x.artifact)
        }
        Some(CostV::V1) => {
            utils::instantiate_with_metering::<ArtifactNamedImport>(b.vcfg.cfg(), CostConfigurationV1, &EnvImports, bytes)
                .map(|x| x.artifact)
        }
    }
}

#[derive(Clone, Debug, PartialEq, Eq)]
pub enum HEvent {
    /// env host function call: name index (the digit after `h`), args, energy charged so far
    HostCall { name: String, args: Vec<i64>, charged: u64 },
    AccountMemory { n: u32, mem_pages: u32, charged: u64 },
}

/// The behaviour of the env host functions, shared by the reference host and the real host:
/// `h<k>` with a result returns a fixed function of its arguments.
pub fn host_result(name: &str, args: &[i64]) -> i64 {
    let k = name.as_bytes().get(1).map(|c| (*c - b'0') as i64).unwrap_or(0);
    let mut r: i64 = 0x51 + k;
    for a in args {
        r = r.wrapping_mul(31).wrapping_add(*a);
    }
    r
}

#[derive(Debug)]
pub struct Interrupt {
    pub name: String,
    pub args: Vec<i64>,
}

pub struct RecHost {
    /// remaining energy; `None` = unlimited
    pub budget:      Option<u64>,
    pub charged:     u64,
    pub ticks:       Vec<u64>,
    pub events:      Vec<HEvent>,
    pub depth:       u32,
    pub max_depth:   u32,
    pub out_of_energy: bool,
    /// index of the next env host call (counting calls in execution order)
    pub call_counter: u32,
    /// bit k set = the k-th env host call interrupts instead of answering inline
    pub interrupt_mask: u32,
    pub initial_memory_pages: Option<u32>,
    pub record_ticks: bool,
}

impl RecHost {
    pub fn new(budget: Option<u64>, max_depth: u32) -> Self {
        RecHost {
            budget,
            charged: 0,
            ticks: vec![],
            events: vec![],
            depth: 0,
            max_depth,
            out_of_energy: false,
            call_counter: 0,
            interrupt_mask: 0,
            initial_memory_pages: None,
            record_ticks: true,
        }
    }
}

impl Host<ArtifactNamedImport> for RecHost {
    type Interrupt = Interrupt;

    fn tick_initial_memory(&mut self, num_pages: u32) -> RunResult<()> {
        self.initial_memory_pages = Some(num_pages);
        Ok(())
    }

    fn call(&mut self, f: &ArtifactNamedImport, memory: &mut [u8], stack: &mut RuntimeStack) -> RunResult<Option<Interrupt>> {
        if f.matches("concordium_metering", "account_memory") {
            let n = unsafe { stack.peek_u32() };
            self.events.push(HEvent::AccountMemory { n, mem_pages: (memory.len() / 65536) as u32, charged: self.charged });
            return Ok(None);
        }
        let name = f.get_item_name().to_string();
        let ty = concordium_wasm::artifact::TryFromImport::ty(f);
        let nparams = ty.parameters.len();
        let mut args: Vec<i64> = Vec::with_capacity(nparams);
        for p in ty.parameters.iter().rev() {
            match p {
                concordium_wasm::types::ValueType::I32 => args.push(unsafe { stack.pop_u32() } as i32 as i64),
                concordium_wasm::types::ValueType::I64 => args.push(unsafe { stack.pop_u64() } as i64),
            }
        }
        args.reverse();
        self.events.push(HEvent::HostCall { name: name.clone(), args: args.clone(), charged: self.charged });
        let k = self.call_counter;
        self.call_counter += 1;
        if k < 32 && (self.interrupt_mask >> k) & 1 == 1 {
            return Ok(Some(Interrupt { name, args }));
        }
        match ty.result {
            None => {}
            Some(concordium_wasm::types::ValueType::I32) => stack.push_value(host_result(&name, &args) as i32),
            Some(concordium_wasm::types::ValueType::I64) => stack.push_value(host_result(&name, &args)),
        }
        Ok(None)
    }

    fn tick_energy(&mut self, energy: u64) -> RunResult<()> {
        if let Some(b) = self.budget.as_mut() {
            if *b < energy {
                *b = 0;
                self.out_of_energy = true;
                anyhow::bail!("out of energy");
            }
            *b -= energy;
        }
        self.charged += energy;
        if self.record_ticks {
            self.ticks.push(energy);
        }
        Ok(())
    }

    fn track_call(&mut self) -> RunResult<()> {
        if self.depth >= self.max_depth {
            anyhow::bail!("call depth exceeded");
        }
        self.depth += 1;
        Ok(())
    }

    fn track_return(&mut self) { self.depth = self.depth.saturating_sub(1); }
}

#[derive(Clone, Debug, PartialEq, Eq)]
pub enum RealOutcome {
    Ok(Option<Val>),
    /// the run returned `Err` (trap, or call depth)
    Err(String),
    OutOfEnergy,
    StepLimit,
    Panic(String),
}

impl RealOutcome {
    pub fn class(&self) -> &'static str {
        match self {
            RealOutcome::Ok(_) => "ok",
            RealOutcome::Err(_) => "trap",
            RealOutcome::OutOfEnergy => "out-of-energy",
            RealOutcome::StepLimit => "step-limit",
            RealOutcome::Panic(_) => "panic",
        }
    }
}

pub struct RealRun {
    pub outcome: RealOutcome,
    pub memory:  Option<Vec<u8>>,
    pub steps:   u64,
    pub interrupts: u32,
}

pub fn to_value(v: Val) -> Value {
    match v {
        Val::I32(x) => Value::I32(x),
        Val::I64(x) => Value::I64(x),
    }
}

pub fn from_value(v: Value) -> Val {
    match v {
        Value::I32(x) => Val::I32(x),
        Value::I64(x) => Val::I64(x),
    }
}

/// Run `entry` to completion, resuming after every interrupt with the response the inline
/// host would have given. Panics are caught and reported as an outcome.
pub fn run_real<R: RunnableCode>(
    art: &Artifact<ArtifactNamedImport, R>,
    entry: &str,
    args: &[Val],
    host: &mut RecHost,
    step_limit: u64,
) -> RealRun {
    use concordium_wasm::machine::verif_hooks;
    // the linear memory of this artifact can never exceed its declared maximum
    mc_core::set_dirty_limit(art.memory.as_ref().map(|m| (m.max_size.max(m.init_size) as usize).saturating_mul(65536)).unwrap_or(0));
    verif_hooks::reset_steps();
    verif_hooks::set_step_limit(step_limit);
    let vargs: Vec<Value> = args.iter().map(|v| to_value(*v)).collect();
    let mut interrupts = 0;
    let res = mc_core::catch(|| {
        let mut r = art.run(host, entry, &vargs);
        loop {
            match r {
                Ok(ExecutionOutcome::Interrupted { reason, mut config }) => {
                    interrupts += 1;
                    // find the import's result type by name
                    let imp = art.imports.iter().find(|i| i.get_item_name() == reason.name && i.get_mod_name() == "env");
                    if let Some(imp) = imp {
                        match concordium_wasm::artifact::TryFromImport::ty(imp).result {
                            None => {}
                            Some(concordium_wasm::types::ValueType::I32) => {
                                config.push_value(host_result(&reason.name, &reason.args) as i32)
                            }
                            Some(concordium_wasm::types::ValueType::I64) => {
                                config.push_value(host_result(&reason.name, &reason.args))
                            }
                        }
                    }
                    r = art.run_config(host, config);
                }
                other => break other,
            }
        }
    });
    let steps = verif_hooks::steps();
    verif_hooks::set_step_limit(u64::MAX);
    match res {
        Err(p) => RealRun { outcome: RealOutcome::Panic(p), memory: None, steps, interrupts },
        Ok(Ok(ExecutionOutcome::Success { result, memory })) => {
            RealRun { outcome: RealOutcome::Ok(result.map(from_value)), memory: Some(memory), steps, interrupts }
        }
        Ok(Ok(ExecutionOutcome::Interrupted { .. })) => unreachable!(),
        Ok(Err(e)) => {
            let msg = format!("{e}");
            let outcome = if host.out_of_energy {
                RealOutcome::OutOfEnergy
            } else if msg.contains("verif: step limit") {
                RealOutcome::StepLimit
            } else {
                RealOutcome::Err(msg)
            };
            RealRun { outcome, memory: None, steps, interrupts }
        }
    }
}

pub fn artifact_bytes<R: RunnableCode>(art: &Artifact<ArtifactNamedImport, R>) -> Vec<u8> {
    use concordium_wasm::output::Output;
    let mut out = vec![];
    art.output(&mut out).expect("writing to a Vec cannot fail");
    out
}

pub fn max_code_len<R: RunnableCode>(art: &Artifact<ArtifactNamedImport, R>) -> usize {
    art.code.iter().map(|c| c.code().len()).max().unwrap_or(0)
}
