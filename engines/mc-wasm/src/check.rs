//! Per-program oracles: run one function body on the reference interpreter and on every
//! build of the implementation and compare (C01 conformance, C02 metering, C13
//! reload/interrupt equivalence). Shared by the exhaustive enumerators and `--replay`.

use crate::{
    ast::*,
    gen::{self, Shape},
    ops::{Trap, Val},
    real::{self, Build, HEvent, RealOutcome, RecHost},
    refint::{Event, RefHost, RefMachine, RefResult, Stop},
};
use mc_core::Report;
use serde_json::{json, Value as J};
use std::collections::BTreeMap;

#[derive(Clone, Copy, Debug, PartialEq, Eq)]
pub enum Prop {
    C01,
    C02,
    C13,
}

#[derive(Clone)]
pub struct Cfg {
    pub prop:        Prop,
    pub builds:      Vec<Build>,
    pub args:        Vec<(i32, i32)>,
    /// args used for bodies that need a linear memory (each run zeroes 32 MiB)
    pub args_memory: Vec<(i32, i32)>,
    pub builds_memory: Vec<Build>,
    /// C13: maximal number of host calls whose interrupt subsets are enumerated
    pub max_interrupt_calls: u32,
}

#[derive(Default)]
pub struct Stats {
    pub programs:     u64,
    pub nontrivial:   u64,
    pub runs:         u64,
    pub comparisons:  u64,
    pub long_programs: u64,
    pub budget_runs:  u64,
    pub schedules:    u64,
    pub max_interrupts: u64,
    pub outcomes:     BTreeMap<String, u64>,
    pub samples:      Vec<J>,
}

impl Stats {
    pub fn merge_into(&self, r: &Report) {
        r.eval(self.programs);
        r.nontrivial(self.nontrivial);
        r.transition(self.runs);
        r.trace(self.comparisons);
        r.merge_outcomes(&self.outcomes);
        r.add_extra_count("long_running_programs", self.long_programs);
        r.add_extra_count("budgeted_runs", self.budget_runs);
        r.add_extra_count("interrupt_schedules", self.schedules);
        for s in &self.samples {
            r.sample(s.clone());
        }
    }

    fn outcome(&mut self, k: &str) { *self.outcomes.entry(k.to_string()).or_insert(0) += 1; }
}

/// Reference behaviour of the env host functions (same function as the real host uses).
pub struct RefEnvHost<'a> {
    pub m: &'a Module,
}

impl RefHost for RefEnvHost<'_> {
    fn call(&mut self, import: u32, args: &[Val], _mem: &mut Vec<u8>) -> Result<Option<Val>, Trap> {
        let imp = &self.m.imports[import as usize];
        let ty = &self.m.types[imp.ty as usize];
        let a: Vec<i64> = args.iter().map(|v| v.bits()).collect();
        let r = real::host_result(&imp.name, &a);
        Ok(match ty.result {
            None => None,
            Some(VT::I32) => Some(Val::I32(r as i32)),
            Some(VT::I64) => Some(Val::I64(r)),
        })
    }
}

pub const REF_DEPTH: u32 = 64;

fn val_json(v: &Option<Val>) -> J {
    match v {
        None => json!(null),
        Some(Val::I32(x)) => json!({"i32": x}),
        Some(Val::I64(x)) => json!({"i64": x}),
    }
}

fn ref_outcome_json(r: &RefResult) -> J {
    match &r.outcome {
        Ok(v) => json!({"ok": val_json(v)}),
        Err(Stop::Trap) => json!("trap"),
        Err(Stop::StepLimit) => json!("long-running"),
        Err(Stop::HostStop) => json!("host-stop"),
    }
}

fn real_outcome_json(r: &RealOutcome) -> J {
    match r {
        RealOutcome::Ok(v) => json!({"ok": val_json(v)}),
        RealOutcome::Err(e) => json!({"trap": e}),
        RealOutcome::OutOfEnergy => json!("out-of-energy"),
        RealOutcome::StepLimit => json!("step-limit"),
        RealOutcome::Panic(p) => json!({"panic": p}),
    }
}

pub fn witness(shape: Shape, body: &[Instr]) -> J {
    json!({
        "shape": {"ret": shape.ret.map(|v| v.name()), "hosts": shape.hosts, "extra_locals": shape.extra},
        "body": body_to_json(body),
        "text": body_text(body),
    })
}

pub fn witness_parse(w: &J) -> Option<(Shape, Vec<Instr>)> {
    // module-structure witnesses are replayed through the enumeration (witness filter)
    if w.get("structure").is_some() {
        return None;
    }
    let ret = match w["shape"]["ret"].as_str() {
        Some("i32") => Some(VT::I32),
        Some("i64") => Some(VT::I64),
        _ => None,
    };
    let hosts = w["shape"]["hosts"].as_bool().unwrap_or(false);
    let extra = w["shape"]["extra_locals"].as_u64().unwrap_or(0) as u8;
    Some((Shape { ret, hosts, extra }, body_from_json(&w["body"])?))
}

/// Merged observation log of the real host: ticks and events in order.
#[derive(Clone, Debug, PartialEq, Eq)]
enum Obs {
    Tick(u64),
    Ev(HEvent),
}

struct RealObs {
    outcome: RealOutcome,
    memory:  Option<Vec<u8>>,
    ticks:   Vec<u64>,
    events:  Vec<HEvent>,
    charged: u64,
    remaining: Option<u64>,
    steps:   u64,
    host_calls: u32,
    interrupts: u32,
}

fn run_obs<R: concordium_wasm::artifact::RunnableCode>(
    art: &concordium_wasm::artifact::Artifact<concordium_wasm::artifact::ArtifactNamedImport, R>,
    entry: &str,
    args: &[Val],
    budget: Option<u64>,
    mask: u32,
    step_limit: u64,
) -> RealObs {
    let mut host = RecHost::new(budget, REF_DEPTH);
    host.interrupt_mask = mask;
    let rr = real::run_real(art, entry, args, &mut host, step_limit);
    RealObs {
        outcome: rr.outcome,
        memory: rr.memory,
        ticks: host.ticks,
        events: host.events,
        charged: host.charged,
        remaining: host.budget,
        steps: rr.steps,
        host_calls: host.call_counter,
        interrupts: rr.interrupts,
    }
}

fn same_outcome(refr: &RefResult, real: &RealObs) -> bool {
    match (&refr.outcome, &real.outcome) {
        (Ok(v), RealOutcome::Ok(w)) => v == w,
        (Err(Stop::Trap), RealOutcome::Err(_)) => true,
        _ => false,
    }
}

/// Check one program. Returns true if no violation was recorded for it.
pub fn check_program(cfg: &Cfg, report: &Report, st: &mut Stats, shape: Shape, body: &[Instr]) -> bool {
    let module = gen::template(body, shape, false);
    check_module(cfg, report, st, shape, body, &module, None)
}

/// `structure`: what distinguishes `module` from the plain template (part of the witness).
pub fn check_module(cfg: &Cfg, report: &Report, st: &mut Stats, shape: Shape, body: &[Instr], module: &Module, structure: Option<&J>) -> bool {
    let module = module.clone();
    let bytes = module.encode();
    let has_mem = module.memory.is_some();
    let builds: &[Build] = if has_mem { &cfg.builds_memory } else { &cfg.builds };
    let args_list: &[(i32, i32)] = if has_mem { &cfg.args_memory } else { &cfg.args };
    st.programs += 1;
    let wit = || {
        let mut w = witness(shape, body);
        if let Some(s) = structure {
            w["structure"] = s.clone();
        }
        w
    };
    let mut ok = true;

    // instantiate every build
    let mut arts = vec![];
    for b in builds {
        match mc_core::catch(|| real::instantiate(&bytes, *b)) {
            Ok(Ok(a)) => arts.push((*b, a)),
            Ok(Err(e)) => {
                // sign-extension etc. never occur in the generated alphabets, so every
                // generated (reference-valid) body must be accepted by every build.
                report.violation(
                    "valid-module-rejected",
                    wit(),
                    json!({"build": b.name(), "error": format!("{e:#}")}),
                );
                st.outcome("rejected");
                ok = false;
            }
            Err(p) => {
                report.violation("instantiate-panic", wit(), json!({"build": b.name(), "panic": p}));
                ok = false;
            }
        }
    }
    if !ok {
        return false;
    }

    let refm = {
        let mut r = RefMachine::new(&module, true);
        r.max_call_depth = REF_DEPTH;
        r
    };
    let mut entries: Vec<(&str, u32)> = vec![("f", shape.f()), ("w", shape.w())];
    if gen::writes_g1(body) {
        entries.push(("w1", shape.w1()));
    }
    let mut distinct_results: Vec<J> = vec![];
    let mut any_long = false;

    // C13(a): reloaded artifacts
    let mut reloaded: Vec<(Vec<u8>, )> = vec![];
    if cfg.prop == Prop::C13 {
        for (_, a) in &arts {
            reloaded.push((real::artifact_bytes(a),));
        }
    }

    for &(a0, a1) in args_list {
        let args = [Val::I32(a0), Val::I32(a1)];
        for &(entry, fidx) in &entries {
            let mut rh = RefEnvHost { m: &module };
            let refr = refm.run(fidx, &args, &mut rh);
            let rj = ref_outcome_json(&refr);
            if !distinct_results.contains(&rj) {
                distinct_results.push(rj.clone());
            }
            let long = matches!(refr.outcome, Err(Stop::StepLimit));
            any_long |= long;
            let step_limit = if long { 2_000_000 } else { refr.steps * 64 + 4096 };
            for (bi, (b, art)) in arts.iter().enumerate() {
                let detail = |what: &str, real: &RealObs| {
                    json!({
                        "what": what, "build": b.name(), "entry": entry, "args": [a0, a1],
                        "expected": rj, "observed": real_outcome_json(&real.outcome),
                        "ref_charged": refr.charged, "real_charged": real.charged,
                    })
                };
                if long {
                    // Only the budgeted behaviour of a long-running program is compared.
                    let Some(cv) = b.metering else { continue };
                    let _ = cv;
                    let budget = 500u64;
                    let ro = run_obs(art, entry, &args, Some(budget), 0, step_limit);
                    st.runs += 1;
                    st.budget_runs += 1;
                    st.outcome(&format!("long/{}", ro.outcome.class()));
                    if cfg.prop != Prop::C13 {
                        if ro.outcome != RealOutcome::OutOfEnergy {
                            report.violation("budget-not-enforced", wit(), detail("long-running program did not run out of energy 500", &ro));
                            ok = false;
                        }
                        let l = real::max_code_len(art) as u64;
                        if ro.steps > (2 * ro.charged + 2) * l.max(1) {
                            report.violation("steps-not-bounded-by-energy", wit(), detail(&format!("steps {} > (2*{}+2)*{}", ro.steps, ro.charged, l), &ro));
                            ok = false;
                        }
                    }
                    st.comparisons += 1;
                    continue;
                }
                let ro = run_obs(art, entry, &args, None, 0, step_limit);
                st.runs += 1;
                st.comparisons += 1;
                st.outcome(ro.outcome.class());
                if matches!(ro.outcome, RealOutcome::Panic(_)) {
                    report.violation("panic", wit(), detail("panic during execution", &ro));
                    ok = false;
                    continue;
                }
                // ---- C01: conformance (also a precondition of the other properties) ----
                if !same_outcome(&refr, &ro) {
                    if cfg.prop == Prop::C01 {
                        report.violation("result-mismatch", wit(), detail("result / trap differs from the reference semantics", &ro));
                        ok = false;
                    }
                    // C02/C13 compare the implementation with itself and with the cost model
                    // only where it conforms; the conformance defect is C01's to report.
                    if cfg.prop != Prop::C13 {
                        continue;
                    }
                } else if let (Ok(_), Some(mem)) = (&refr.outcome, &ro.memory) {
                    if cfg.prop == Prop::C01 && *mem != refr.memory {
                        let first = mem.iter().zip(refr.memory.iter()).position(|(x, y)| x != y);
                        report.violation(
                            "memory-mismatch",
                            wit(),
                            json!({"build": b.name(), "entry": entry, "args": [a0, a1], "real_len": mem.len(), "ref_len": refr.memory.len(), "first_diff": first}),
                        );
                        ok = false;
                    }
                }
                // ---- C02: metering ----
                if cfg.prop == Prop::C02 {
                    if let Some(cv) = b.metering {
                        let vi = match cv {
                            crate::cost::CostV::V0 => 0,
                            crate::cost::CostV::V1 => 1,
                        };
                        ok &= check_metering(cfg, report, st, &wit, art, *b, entry, &args, &refr, &ro, vi, step_limit);
                    }
                }
                // ---- C13: reload + interrupts ----
                if cfg.prop == Prop::C13 {
                    ok &= check_reload(report, st, &wit, art, &reloaded[bi].0, *b, entry, &args, &ro, step_limit);
                    if shape.hosts {
                        ok &= check_interrupts(cfg, report, st, &wit, art, *b, entry, &args, &ro, step_limit);
                    }
                }
            }
        }
    }
    if distinct_results.len() > 1 {
        st.nontrivial += 1;
    }
    if any_long {
        st.long_programs += 1;
    }
    if st.samples.len() < 3 && distinct_results.len() > 2 {
        st.samples.push(json!({"body": body_text(body), "shape": shape.name(), "reference_outcomes": distinct_results}));
    }
    ok
}

fn merged(ticks_events: &RealObsLog) -> &Vec<Obs> { &ticks_events.0 }

struct RealObsLog(Vec<Obs>);

/// Re-run with a host that records ticks and events in one merged log.
fn run_merged<R: concordium_wasm::artifact::RunnableCode>(
    art: &concordium_wasm::artifact::Artifact<concordium_wasm::artifact::ArtifactNamedImport, R>,
    entry: &str,
    args: &[Val],
    budget: Option<u64>,
    mask: u32,
    step_limit: u64,
) -> (RealObs, RealObsLog) {
    // The RecHost records ticks and events separately with the charged-so-far stamp on
    // events; merge them by that stamp: an event with stamp c comes after all ticks whose
    // prefix sum is <= c and before the next tick.
    let ro = run_obs(art, entry, args, budget, mask, step_limit);
    let mut log = vec![];
    let mut ei = 0;
    let mut sum = 0u64;
    let stamp = |e: &HEvent| match e {
        HEvent::HostCall { charged, .. } => *charged,
        HEvent::AccountMemory { charged, .. } => *charged,
    };
    for t in &ro.ticks {
        while ei < ro.events.len() && stamp(&ro.events[ei]) <= sum {
            log.push(Obs::Ev(ro.events[ei].clone()));
            ei += 1;
        }
        sum += t;
        log.push(Obs::Tick(*t));
    }
    while ei < ro.events.len() {
        log.push(Obs::Ev(ro.events[ei].clone()));
        ei += 1;
    }
    (ro, RealObsLog(log))
}

#[allow(clippy::too_many_arguments)]
fn check_metering<R: concordium_wasm::artifact::RunnableCode>(
    _cfg: &Cfg,
    report: &Report,
    st: &mut Stats,
    wit: &dyn Fn() -> J,
    art: &concordium_wasm::artifact::Artifact<concordium_wasm::artifact::ArtifactNamedImport, R>,
    b: Build,
    entry: &str,
    args: &[Val],
    refr: &RefResult,
    ro: &RealObs,
    vi: usize,
    step_limit: u64,
) -> bool {
    let mut ok = true;
    let base = |what: String| {
        json!({"what": what, "build": b.name(), "entry": entry, "args": args.iter().map(|v| v.bits()).collect::<Vec<_>>(),
               "ref_cost": refr.cost[vi], "ref_charged": refr.charged[vi], "real_charged": ro.charged, "ticks": ro.ticks})
    };
    // (1) exactness: total charged = pinned cost of executed instructions (+ rest of the
    // segment in which a trap happened)
    if ro.charged != refr.charged[vi] {
        report.violation("energy-not-exact", wit(), base(format!("charged {} but the schedule gives {}", ro.charged, refr.charged[vi])));
        ok = false;
    }
    if ro.charged < refr.cost[vi] {
        report.violation("energy-undercharged", wit(), base("charged less than the cost of the executed instructions".into()));
        ok = false;
    }
    // (2) checkpoints: host calls and memory growth
    let mut ri = 0;
    let mut evs_ok = ro.events.len() == refr.events.len();
    for e in &ro.events {
        let Some(re) = refr.events.get(ri) else {
            evs_ok = false;
            break;
        };
        ri += 1;
        match (e, re) {
            (HEvent::HostCall { name, args, charged }, Event::HostCall { import, args: rargs, cost }) => {
                let rname = format!("h{import}");
                if *name != rname || args != rargs {
                    evs_ok = false;
                }
                if *charged != cost[vi] {
                    report.violation(
                        "charge-before-work",
                        wit(),
                        base(format!("at host call {name}: charged {charged}, executed cost {}", cost[vi])),
                    );
                    ok = false;
                }
            }
            (HEvent::AccountMemory { n, mem_pages, charged }, Event::MemGrow { n: rn, old_pages, cost, seg_charged }) => {
                if n != rn {
                    evs_ok = false;
                }
                if mem_pages != old_pages {
                    report.violation(
                        "memory-grown-before-announcement",
                        wit(),
                        base(format!("account_memory({n}) saw {mem_pages} pages, memory had {old_pages} before the grow")),
                    );
                    ok = false;
                }
                if *charged < cost[vi] || *charged != seg_charged[vi] {
                    report.violation(
                        "charge-before-work",
                        wit(),
                        base(format!("at memory.grow: charged {charged}, executed {} segment {}", cost[vi], seg_charged[vi])),
                    );
                    ok = false;
                }
            }
            _ => evs_ok = false,
        }
    }
    if !evs_ok {
        report.violation("host-events-differ", wit(), base(format!("real events {:?} vs reference {:?}", ro.events, refr.events)));
        ok = false;
    }
    // (3) steps bounded by a linear function of the charged energy
    let l = real::max_code_len(art).max(1) as u64;
    if ro.steps > (2 * ro.charged + 2) * l {
        report.violation("steps-not-bounded-by-energy", wit(), base(format!("steps {} > (2*{}+2)*{}", ro.steps, ro.charged, l)));
        ok = false;
    }
    // (4) determinism + (5) budgets
    let (ro2, log) = run_merged(art, entry, args, None, 0, step_limit);
    st.runs += 1;
    if ro2.outcome != ro.outcome || ro2.ticks != ro.ticks || ro2.events != ro.events || ro2.memory != ro.memory {
        report.violation("nondeterministic", wit(), base("two identical runs differ".into()));
        ok = false;
    }
    let total: u64 = ro.ticks.iter().sum();
    let mut budgets: Vec<u64> = vec![0, total, total + 1, total + 1000];
    let mut s = 0u64;
    for t in &ro.ticks {
        if s + t > 0 {
            budgets.push(s + t - 1);
        }
        s += t;
        budgets.push(s);
    }
    budgets.sort();
    budgets.dedup();
    for bud in budgets {
        let (rb, logb) = run_merged(art, entry, args, Some(bud), 0, step_limit);
        st.runs += 1;
        st.budget_runs += 1;
        if bud >= total {
            if rb.outcome != ro.outcome || rb.memory != ro.memory || rb.remaining != Some(bud - total) || merged(&logb) != merged(&log) {
                report.violation(
                    "budget-changes-behaviour",
                    wit(),
                    base(format!("budget {bud} >= total {total}: outcome {:?} remaining {:?}", rb.outcome.class(), rb.remaining)),
                );
                ok = false;
            }
        } else {
            // must stop out of energy at the first tick whose cumulative sum exceeds the
            // budget, having observed exactly the prefix of the unbudgeted log before it
            let mut prefix = vec![];
            let mut sum = 0u64;
            for o in merged(&log) {
                if let Obs::Tick(t) = o {
                    if sum + t > bud {
                        break;
                    }
                    sum += t;
                }
                prefix.push(o.clone());
            }
            if rb.outcome != RealOutcome::OutOfEnergy || *merged(&logb) != prefix {
                report.violation(
                    "budget-not-enforced",
                    wit(),
                    base(format!(
                        "budget {bud} < total {total}: outcome {} observed {} log entries, expected out-of-energy after {}",
                        rb.outcome.class(),
                        merged(&logb).len(),
                        prefix.len()
                    )),
                );
                ok = false;
            }
            if rb.steps > (2 * bud + 2) * l {
                report.violation("steps-not-bounded-by-energy", wit(), base(format!("budget {bud}: steps {} > (2*{bud}+2)*{l}", rb.steps)));
                ok = false;
            }
        }
    }
    ok
}

#[allow(clippy::too_many_arguments)]
fn check_reload(
    report: &Report,
    st: &mut Stats,
    wit: &dyn Fn() -> J,
    art: &real::RealArtifact,
    bytes: &[u8],
    b: Build,
    entry: &str,
    args: &[Val],
    fresh: &RealObs,
    step_limit: u64,
) -> bool {
    use concordium_wasm::artifact::{ArtifactNamedImport, OwnedArtifact};
    let mut ok = true;
    let det = |what: String| json!({"what": what, "build": b.name(), "entry": entry, "args": args.iter().map(|v| v.bits()).collect::<Vec<_>>()});
    let parsed = match mc_core::catch(|| concordium_wasm::utils::parse_artifact::<ArtifactNamedImport>(bytes)) {
        Ok(Ok(p)) => p,
        Ok(Err(e)) => {
            report.violation("artifact-does-not-reload", wit(), det(format!("{e:#}")));
            return false;
        }
        Err(p) => {
            report.violation("artifact-reload-panic", wit(), det(p));
            return false;
        }
    };
    let again = real::artifact_bytes(&parsed);
    if again != bytes {
        report.violation("artifact-reserialisation-differs", wit(), det("borrowed artifact re-serialises differently".into()));
        ok = false;
    }
    let rb = run_obs(&parsed, entry, args, None, 0, step_limit);
    st.runs += 1;
    st.comparisons += 1;
    let same = |x: &RealObs| x.outcome == fresh.outcome && x.memory == fresh.memory && x.ticks == fresh.ticks && x.events == fresh.events;
    if !same(&rb) {
        report.violation(
            "reloaded-artifact-differs",
            wit(),
            det(format!("zero-copy artifact: {:?} charged {} vs fresh {:?} charged {}", real_outcome_json(&rb.outcome), rb.charged, real_outcome_json(&fresh.outcome), fresh.charged)),
        );
        ok = false;
    }
    let owned: OwnedArtifact<ArtifactNamedImport> = parsed.into();
    if real::artifact_bytes(&owned) != bytes {
        report.violation("artifact-reserialisation-differs", wit(), det("owned artifact re-serialises differently".into()));
        ok = false;
    }
    let rowned = run_obs(&owned, entry, args, None, 0, step_limit);
    st.runs += 1;
    st.comparisons += 1;
    if !same(&rowned) {
        report.violation("reloaded-artifact-differs", wit(), det("owned (converted) artifact behaves differently".into()));
        ok = false;
    }
    // executing twice gives the same result
    let twice = run_obs(art, entry, args, None, 0, step_limit);
    st.runs += 1;
    if !same(&twice) {
        report.violation("nondeterministic", wit(), det("two identical runs differ".into()));
        ok = false;
    }
    ok
}

#[allow(clippy::too_many_arguments)]
fn check_interrupts(
    cfg: &Cfg,
    report: &Report,
    st: &mut Stats,
    wit: &dyn Fn() -> J,
    art: &real::RealArtifact,
    b: Build,
    entry: &str,
    args: &[Val],
    base: &RealObs,
    step_limit: u64,
) -> bool {
    let k = base.host_calls.min(cfg.max_interrupt_calls);
    if k == 0 {
        return true;
    }
    let mut ok = true;
    st.max_interrupts = st.max_interrupts.max(k as u64);
    for mask in mc_core::subsets_by_size(k as usize) {
        if mask == 0 {
            continue;
        }
        let r = run_obs(art, entry, args, None, mask, step_limit);
        st.runs += 1;
        st.schedules += 1;
        st.comparisons += 1;
        let expected_interrupts = mask.count_ones();
        // calls beyond the k-th never interrupt; calls that are never reached because of a
        // trap cannot interrupt either
        let same = r.outcome == base.outcome && r.memory == base.memory && r.ticks == base.ticks && r.events == base.events && r.charged == base.charged;
        if !same {
            report.violation(
                "interrupted-run-differs",
                wit(),
                json!({"build": b.name(), "entry": entry, "args": args.iter().map(|v| v.bits()).collect::<Vec<_>>(), "interrupt_mask": mask,
                       "uninterrupted": real_outcome_json(&base.outcome), "interrupted": real_outcome_json(&r.outcome),
                       "events_uninterrupted": format!("{:?}", base.events), "events_interrupted": format!("{:?}", r.events)}),
            );
            ok = false;
        }
        if r.interrupts > expected_interrupts {
            report.violation("spurious-interrupt", wit(), json!({"mask": mask, "interrupts": r.interrupts}));
            ok = false;
        }
    }
    ok
}
