//! C09: validation admits only safe modules; parsing/validation/compilation are total.
//!
//! Three exhaustive generators (see DESIGN.md §5 C09):
//!  1. instruction level: every valid prefix followed by <= 2 arbitrary symbols from an
//!     alphabet that includes ill-typed / ill-formed variants; accept <=> reference validator;
//!  2. section / limit level: every chain restriction at its boundary and one beyond;
//!  3. byte level: every truncation / byte replacement / LEB re-encoding of seed modules:
//!     no panic, termination, and every accepted mutant executes without tripping a
//!     bounds assertion.

use crate::{
    ast::*,
    cost::CostV,
    gen::{self, AlphabetKind, Shape},
    ops::Val,
    real::{self, Build, RealOutcome, RecHost, VCfg},
    refval::{validate_body, FnCtx, VState},
};
use mc_core::{Cli, Report, Tier};
use rayon::prelude::*;
use serde_json::{json, Value as J};
use std::sync::atomic::{AtomicU64, Ordering};

fn plain(v: VCfg) -> Build { Build { vcfg: v, metering: None } }

fn metered(v: VCfg) -> Build {
    Build {
        vcfg:     v,
        metering: Some(match v {
            VCfg::V0 => CostV::V0,
            VCfg::V1 => CostV::V1,
        }),
    }
}

/// Instantiate catching panics. Ok(true) accepted, Ok(false) rejected, Err(panic).
fn accepts(bytes: &[u8], b: Build) -> Result<Option<real::RealArtifact>, String> {
    match mc_core::catch(|| real::instantiate(bytes, b)) {
        Ok(Ok(a)) => Ok(Some(a)),
        Ok(Err(_)) => Ok(None),
        Err(p) => Err(p),
    }
}

/// Execute every exported function of an accepted module with boundary arguments under a
/// budget and a step limit; any panic (bounds assertion of hook H2 included) is a violation.
fn exec_safely(report: &Report, wit: &J, art: &real::RealArtifact, runs: &AtomicU64) {
    let names: Vec<(String, u32)> = art.export.iter().map(|(n, i)| (n.as_ref().to_string(), *i)).collect();
    for (name, idx) in names {
        let Some(code_idx) = (idx as usize).checked_sub(art.imports.len()) else { continue };
        let Some(code) = art.code.get(code_idx) else { continue };
        use concordium_wasm::artifact::RunnableCode;
        let params: Vec<_> = code.params().to_vec();
        for seed in [0i64, 1, -1, i32::MIN as i64] {
            let args: Vec<Val> = params
                .iter()
                .enumerate()
                .map(|(i, p)| {
                    let v = if i % 2 == 0 { seed } else { !seed };
                    match p {
                        concordium_wasm::types::ValueType::I32 => Val::I32(v as i32),
                        concordium_wasm::types::ValueType::I64 => Val::I64(v),
                    }
                })
                .collect();
            let mut host = RecHost::new(Some(2_000), 16);
            host.record_ticks = false;
            let rr = real::run_real(art, &name, &args, &mut host, 200_000);
            runs.fetch_add(1, Ordering::Relaxed);
            if let RealOutcome::Panic(p) = &rr.outcome {
                report.violation("unsafe-execution", wit.clone(), json!({"entry": name, "args": format!("{args:?}"), "panic": p}));
            }
        }
    }
}

// ---------------------------------------------------------------------------------------
// (1) instruction level
// ---------------------------------------------------------------------------------------

fn hostile_alphabet(shape: Shape) -> Vec<Instr> {
    use Instr::*;
    let mut a = gen::alphabet(AlphabetKind::Memory, shape);
    a.extend([
        LocalGet(9),              // local index out of range
        LocalSet(4),              // one past the last local
        Br(7),                    // label out of range
        BrIf(2),                  // may or may not be in range depending on nesting
        GlobalSet(2),             // immutable global
        GlobalGet(3),             // global index out of range
        Call(99),                 // function index out of range
        CallIndirect(99),         // type index out of range
        Num(0xC0),                // i32.extend8_s: V1 only
        Num(0xC4),                // i64.extend32_s: V1 only
        Raw(vec![0x43, 0, 0, 0, 0]), // f32.const
        Raw(vec![0x92]),          // f32.add
        Raw(vec![0x06]),          // reserved opcode
        Raw(vec![0xFC, 0x00]),    // saturating truncation prefix (not in 1.0)
        Raw(vec![0xC5]),          // first opcode after the sign-extension range
        Load(0x28, 3, 0),         // i32.load with alignment 2^3 > 4
        Store(0x3A, 1, 0),        // i32.store8 with alignment 2^1 > 1
        Raw(vec![0x2A, 0x02, 0x00]), // f32.load
        Raw(vec![0x11, 0x01, 0x01]), // call_indirect with non-zero table byte
        Raw(vec![0x3F, 0x01]),    // memory.size with non-zero memory byte
        Raw(vec![0x02, 0x7D]),    // block (result f32)
        Raw(vec![0x02, 0x00]),    // block with a type index (multi-value proposal)
        I64Const(i64::MIN),
        I32Const(i32::MIN),
        BrTable(vec![], 0),
        BrTable(vec![1, 0, 1], 1),
    ]);
    a
}

/// The module around a body for generator (1): like the C01 template but with an immutable
/// third global and, for `no_memory`, without memory/table.
fn c09_module(body: &[Instr], shape: Shape, bare: bool) -> Module {
    // a memory is declared only when the body uses it (every run of a module with a memory
    // costs a 32 MiB allocation); `memory.*` without a memory is covered by the bare variant
    let mut m = gen::template(body, shape, false);
    m.globals.push(Global { ty: VT::I32, mutable: false, init: 9 });
    if bare {
        m.memory = None;
        m.data.clear();
        m.table = None;
        m.elems.clear();
    }
    m
}

fn instr_level(report: &Report, tier: Tier, cases: &AtomicU64, accepted: &AtomicU64, runs: &AtomicU64, prefixes_out: &AtomicU64) {
    let shape = Shape { ret: Some(VT::I32), hosts: false, extra: 0 };
    let prefix_len = if tier == Tier::Quick { 2 } else { 3 };
    let tail_len = 2;
    for bare in [false, true] {
        let valid_alpha = gen::alphabet(AlphabetKind::Wide, shape);
        let hostile = hostile_alphabet(shape);
        let module0 = c09_module(&[], shape, bare);
        let ctx_v0 = FnCtx::for_func(&module0, 0, false);
        let ctx_v1 = FnCtx::for_func(&module0, 0, true);
        // all admissible prefixes (not necessarily complete) of length <= prefix_len
        let mut prefixes: Vec<Vec<Instr>> = vec![vec![]];
        let mut level: Vec<(Vec<Instr>, VState)> = vec![(vec![], VState::new(&ctx_v0))];
        for _ in 0..prefix_len {
            let mut next = vec![];
            for (w, s) in &level {
                for sym in &valid_alpha {
                    let mut s2 = s.clone();
                    if s2.step(&ctx_v0, sym).is_ok() && !s2.done() {
                        let mut w2 = w.clone();
                        w2.push(sym.clone());
                        prefixes.push(w2.clone());
                        next.push((w2, s2));
                    }
                }
            }
            level = next;
        }
        prefixes_out.fetch_add(prefixes.len() as u64, Ordering::Relaxed);
        // tails of length 1..=tail_len over the hostile alphabet
        let mut tails: Vec<Vec<Instr>> = vec![];
        for a in &hostile {
            tails.push(vec![a.clone()]);
        }
        if tail_len >= 2 {
            for a in &hostile {
                for b in &hostile {
                    tails.push(vec![a.clone(), b.clone()]);
                }
            }
        }
        prefixes.par_iter().for_each(|p| {
            for t in &tails {
                let mut body = p.clone();
                body.extend(t.iter().cloned());
                let module = c09_module(&body, shape, bare);
                let bytes = module.encode();
                cases.fetch_add(1, Ordering::Relaxed);
                for (vcfg, ctx) in [(VCfg::V0, &ctx_v0), (VCfg::V1, &ctx_v1)] {
                    let mut ctx = ctx.clone();
                    ctx.has_memory = module.memory.is_some();
                    let expect = validate_body(&ctx, &body).is_ok();
                    let wit = json!({"gen": "instr", "bare_module": bare, "config": vcfg.name(), "text": body_text(&body), "body": body_to_json(&body)});
                    match accepts(&bytes, plain(vcfg)) {
                        Err(p) => report.violation("instantiate-panic", wit, json!({"panic": p})),
                        Ok(got) => {
                            if got.is_some() != expect {
                                report.violation(
                                    if expect { "valid-module-rejected" } else { "invalid-module-accepted" },
                                    wit.clone(),
                                    json!({"reference_valid": expect, "accepted": got.is_some()}),
                                );
                            }
                            if let Some(_plain_art) = got {
                                accepted.fetch_add(1, Ordering::Relaxed);
                                // run the metered build (bounded by energy) for execution safety
                                if let Ok(Some(art)) = accepts(&bytes, metered(vcfg)) {
                                    exec_safely(report, &wit, &art, runs);
                                } else {
                                    report.violation("accepted-module-does-not-compile-with-metering", wit, json!({}));
                                }
                            }
                        }
                    }
                }
            }
        });
    }
}

// ---------------------------------------------------------------------------------------
// (2) section / limit level
// ---------------------------------------------------------------------------------------

struct LimitCase {
    name:   String,
    bytes:  Vec<u8>,
    /// expected verdict under (V0, V1)
    expect: (bool, bool),
}

fn base_module() -> Module {
    let mut m = Module::default();
    m.types = vec![FuncType { params: vec![], result: None }, FuncType { params: vec![VT::I32], result: Some(VT::I32) }];
    m.funcs = vec![Func { ty: 0, locals: vec![], body: vec![] }];
    m.exports = vec![("f".into(), ExportKind::Func(0))];
    m
}

fn raw_section(id: u8, body: &[u8]) -> Vec<u8> {
    let mut out = vec![id];
    leb_u(body.len() as u64, &mut out);
    out.extend_from_slice(body);
    out
}

/// Insert a raw section into an encoded module after the section with id `after` (or right
/// after the header if `after` is None).
fn splice(bytes: &[u8], after: Option<u8>, extra: &[u8]) -> Vec<u8> {
    let mut pos = 8;
    let mut insert_at = 8;
    while pos < bytes.len() {
        let id = bytes[pos];
        let mut p = pos + 1;
        let mut len: u64 = 0;
        let mut shift = 0;
        loop {
            let b = bytes[p];
            p += 1;
            len |= ((b & 0x7f) as u64) << shift;
            shift += 7;
            if b & 0x80 == 0 {
                break;
            }
        }
        let end = p + len as usize;
        if let Some(a) = after {
            if id <= a {
                insert_at = end;
            }
        }
        pos = end;
    }
    let mut out = bytes[..insert_at].to_vec();
    out.extend_from_slice(extra);
    out.extend_from_slice(&bytes[insert_at..]);
    out
}

fn limit_cases() -> Vec<LimitCase> {
    let mut cases = vec![];
    let mut add = |name: &str, bytes: Vec<u8>, v0: bool, v1: bool| cases.push(LimitCase { name: name.to_string(), bytes, expect: (v0, v1) });
    let both = |b: bool| (b, b);
    let _ = both;

    add("minimal module", base_module().encode(), true, true);
    add("header only", vec![0x00, 0x61, 0x73, 0x6D, 0x01, 0, 0, 0], true, true);
    add("wrong version", vec![0x00, 0x61, 0x73, 0x6D, 0x02, 0, 0, 0], false, false);
    add("wrong magic", vec![0x00, 0x61, 0x73, 0x6E, 0x01, 0, 0, 0], false, false);

    // locals + stack height <= 1024
    for (nlocals, height, ok) in [(1024u32, 0usize, true), (1023, 1, true), (1024, 1, false), (1025, 0, false), (1000, 24, true), (1000, 25, false)] {
        let mut m = base_module();
        let mut body = vec![];
        for _ in 0..height {
            body.push(Instr::I32Const(1));
        }
        for _ in 0..height {
            body.push(Instr::Drop);
        }
        m.funcs[0] = Func { ty: 0, locals: vec![VT::I32; nlocals as usize], body };
        add(&format!("locals {nlocals} + stack {height}"), m.encode(), ok, ok);
    }
    // parameters count as locals
    {
        let mut m = base_module();
        m.types.push(FuncType { params: vec![VT::I32; 2], result: None });
        m.funcs[0] = Func { ty: 2, locals: vec![VT::I64; 1022], body: vec![] };
        m.exports.clear();
        add("2 params + 1022 locals", m.encode(), true, true);
        m.funcs[0].locals.push(VT::I64);
        add("2 params + 1023 locals", m.encode(), false, false);
    }
    // memory limits: the full grid of boundary values for (min, max). Valid iff the initial
    // size is at most 32 pages and, when a maximum is given, min <= max <= 65536.
    for min in [0u32, 1, 31, 32, 33, 511, 512, 513, 65535, 65536, 65537] {
        for max in [None, Some(0u32), Some(1), Some(32), Some(33), Some(512), Some(65535), Some(65536), Some(65537), Some(u32::MAX)] {
            let ok = min <= 32 && max.map(|m| min <= m && m <= 65536).unwrap_or(true);
            let mut m = base_module();
            m.memory = Some((min, max));
            // touch the last byte of the initial memory so that an accepted oversized memory
            // is also executed
            if min > 0 {
                m.types.push(FuncType { params: vec![], result: Some(VT::I32) });
                m.funcs.push(Func { ty: 2, locals: vec![], body: vec![Instr::I32Const((min.wrapping_mul(65536)).wrapping_sub(1) as i32), Instr::Load(0x2D, 0, 0)] });
                m.exports.push(("last".into(), ExportKind::Func(1)));
            }
            add(&format!("memory min {min} max {max:?}"), m.encode(), ok, ok);
        }
    }
    // table limits: valid iff min <= 1000 and, when a maximum is given, min <= max
    for min in [0u32, 1, 999, 1000, 1001, 65536] {
        for max in [None, Some(0u32), Some(1), Some(999), Some(1000), Some(1001), Some(u32::MAX)] {
            let ok = min <= 1000 && max.map(|m| min <= m).unwrap_or(true);
            let mut m = base_module();
            m.table = Some((min, max));
            add(&format!("table min {min} max {max:?}"), m.encode(), ok, ok);
        }
    }
    // globals
    for (n, ok) in [(1024usize, true), (1025, false)] {
        let mut m = base_module();
        m.globals = vec![Global { ty: VT::I32, mutable: true, init: 0 }; n];
        add(&format!("{n} globals"), m.encode(), ok, ok);
    }
    // exports
    for (n, ok) in [(100usize, true), (101, false)] {
        let mut m = base_module();
        m.exports = (0..n).map(|i| (format!("e{i}"), ExportKind::Func(0))).collect();
        add(&format!("{n} exports"), m.encode(), ok, ok);
    }
    {
        let mut m = base_module();
        m.exports = vec![("a".into(), ExportKind::Func(0)), ("a".into(), ExportKind::Func(0))];
        add("duplicate export name", m.encode(), false, false);
        let mut m = base_module();
        m.exports = vec![("a".into(), ExportKind::Func(1))];
        add("export of a non-existent function", m.encode(), false, false);
        let mut m = base_module();
        m.exports = vec![("m".into(), ExportKind::Memory)];
        add("export memory without memory", m.encode(), false, false);
        m.memory = Some((1, None));
        add("export memory", m.encode(), true, true);
        let mut m = base_module();
        m.exports = vec![("t".into(), ExportKind::Table)];
        add("export table without table", m.encode(), false, false);
        m.table = Some((1, None));
        add("export table", m.encode(), true, true);
        let mut m = base_module();
        m.exports = vec![("g".into(), ExportKind::Global(0))];
        add("export global without global", m.encode(), false, false);
        m.globals = vec![Global { ty: VT::I64, mutable: false, init: 1 }];
        add("export global", m.encode(), true, true);
    }
    // name length: exported function names are limited to 100 bytes (MAX_FUNC_NAME_SIZE,
    // documented in constants.rs), all other names to 512
    for (n, ok) in [(100usize, true), (101, false)] {
        let mut m = base_module();
        m.exports = vec![("x".repeat(n), ExportKind::Func(0))];
        add(&format!("function export name of {n} bytes"), m.encode(), ok, ok);
    }
    for (n, ok) in [(512usize, true), (513, false)] {
        let mut m = base_module();
        m.memory = Some((1, None));
        m.exports = vec![("x".repeat(n), ExportKind::Memory)];
        add(&format!("memory export name of {n} bytes"), m.encode(), ok, ok);
        let mut m = base_module();
        m.imports = vec![Import { module: "env".into(), name: format!("h{}", "x".repeat(n - 1)), ty: 0 }];
        m.exports.clear();
        add(&format!("import name of {n} bytes"), m.encode(), ok, ok);
    }
    // br_table size
    for (n, ok) in [(4096usize, true), (4097, false)] {
        let mut m = base_module();
        m.funcs[0].body = vec![Instr::I32Const(0), Instr::BrTable(vec![0; n], 0)];
        add(&format!("br_table with {n} labels"), m.encode(), ok, ok);
    }
    // two memories / two tables
    {
        let m = base_module();
        let b = m.encode();
        add("two memories", splice(&b, Some(3), &raw_section(5, &[2, 0, 1, 0, 1])), false, false);
        add("two tables", splice(&b, Some(3), &raw_section(4, &[2, 0x70, 0, 1, 0x70, 0, 1])), false, false);
        add("start section", splice(&b, Some(7), &raw_section(8, &[0])), false, false);
        add("empty start section", splice(&b, Some(7), &raw_section(8, &[])), false, false);
        add("custom section first", splice(&b, None, &raw_section(0, &[1, b'n', 1, 2, 3])), true, true);
        add("custom section last", { let mut x = b.clone(); x.extend(raw_section(0, &[1, b'n'])); x }, true, true);
        add("custom section with truncated name", splice(&b, None, &raw_section(0, &[5, b'n'])), false, false);
        add("unknown section id 12", splice(&b, Some(11), &raw_section(12, &[])), false, false);
        add("duplicate type section", splice(&b, Some(1), &raw_section(1, &[0])), false, false);
        add("type section after function section", splice(&b, Some(3), &raw_section(1, &[0])), false, false);
        add("trailing byte after last section", { let mut x = b.clone(); x.push(0); x }, false, false);
        // imports of anything but functions
        add("imported memory", splice(&b, Some(1), &raw_section(2, &[1, 3, b'e', b'n', b'v', 1, b'm', 0x02, 0x00, 1])), false, false);
        add("imported table", splice(&b, Some(1), &raw_section(2, &[1, 3, b'e', b'n', b'v', 1, b't', 0x01, 0x70, 0x00, 1])), false, false);
        add("imported global", splice(&b, Some(1), &raw_section(2, &[1, 3, b'e', b'n', b'v', 1, b'g', 0x03, 0x7F, 0x00])), false, false);
    }
    // imports: allowed / disallowed by the embedder's policy (EnvImports: env.h*)
    {
        let mut m = base_module();
        m.imports = vec![Import { module: "env".into(), name: "h0".into(), ty: 0 }];
        m.exports = vec![("f".into(), ExportKind::Func(1))];
        add("allowed import", m.encode(), true, true);
        m.imports[0].name = "x".into();
        add("disallowed import", m.encode(), false, false);
        m.imports = vec![Import { module: "env".into(), name: "h0".into(), ty: 0 }, Import { module: "env".into(), name: "h0".into(), ty: 0 }];
        add("duplicate import", m.encode(), false, false);
        m.imports = vec![Import { module: "env".into(), name: "h0".into(), ty: 7 }];
        add("import with non-existent type", m.encode(), false, false);
        let mut m = base_module();
        m.imports = vec![Import { module: "env".into(), name: "h0".into(), ty: 0 }];
        m.exports = vec![("f".into(), ExportKind::Func(0))];
        // exporting an imported function is a valid Wasm module
        add("export of an imported function", m.encode(), true, true);
    }
    // data segments: the full (offset, length) grid incl. offsets with the top bit set (the offset is an
    // unsigned address written as an i32 constant) - admitted iff offset + length <= memory size
    for off in [0u32, 1, 65535, 65536, 65537, 0x7FFF_FFFF, 0x8000_0000, 0xFFFF_0000, 0xFFFF_FFFE, u32::MAX] {
        for len in [0usize, 1, 2, 65536] {
            let ok = off as u64 + len as u64 <= 65536;
            let mut m = base_module();
            m.memory = Some((1, None));
            m.data = vec![(off, vec![7; len])];
            add(&format!("data segment offset {off} len {len} in 1 page"), m.encode(), ok, ok);
        }
    }
    {
        let mut m = base_module();
        m.data = vec![(0, vec![1])];
        add("data segment without memory", m.encode(), false, false);
        let mut m = base_module();
        m.elems = vec![(0, vec![0])];
        add("element segment without table", m.encode(), false, false);
    }
    // element segments: the full (offset, entries) grid incl. offsets with the top bit set
    for off in [0u32, 1, 2, 3, 0x7FFF_FFFF, 0x8000_0000, 0xFFFF_FFFE, u32::MAX] {
        for fs in [vec![], vec![0u32], vec![0, 0], vec![0, 0, 0]] {
            let ok = off as u64 + fs.len() as u64 <= 2;
            let mut m = base_module();
            m.table = Some((2, None));
            m.elems = vec![(off, fs.clone())];
            add(&format!("element segment offset {off} funcs {fs:?} in table of 2"), m.encode(), ok, ok);
        }
    }
    {
        let mut m = base_module();
        m.table = Some((2, None));
        m.elems = vec![(0, vec![1])];
        add("element segment with a non-existent function", m.encode(), false, false);
        // several segments, a later one with a wrapped offset
        let mut m = base_module();
        m.table = Some((2, None));
        m.elems = vec![(0, vec![0]), (u32::MAX, vec![0]), (1, vec![0])];
        add("element segments [0, -1, 1]", m.encode(), false, false);
        let mut m = base_module();
        m.memory = Some((1, None));
        m.data = vec![(0, vec![1]), (u32::MAX, vec![]), (1, vec![2])];
        add("data segments [0, -1 (empty), 1]", m.encode(), false, false);
    }
    // function / code section mismatch, type index
    {
        let mut m = base_module();
        m.funcs[0].ty = 9;
        add("function with non-existent type", m.encode(), false, false);
        let m = base_module();
        let b = m.encode();
        // drop the code section (id 10): find it
        let mut pos = 8;
        let mut without_code = b[..8].to_vec();
        while pos < b.len() {
            let id = b[pos];
            let len = b[pos + 1] as usize; // all sections here are < 128 bytes
            if id != 10 {
                without_code.extend_from_slice(&b[pos..pos + 2 + len]);
            }
            pos += 2 + len;
        }
        add("function section without code section", without_code, false, false);
    }
    // types: two results, float types
    {
        let m = base_module();
        let b = m.encode();
        let with_types = |ty: &[u8]| {
            // replace the type section by a raw one
            let mut out = b[..8].to_vec();
            out.extend(raw_section(1, ty));
            let tlen = b[9] as usize;
            out.extend_from_slice(&b[10 + tlen..]);
            out
        };
        add("function type with two results", with_types(&[2, 0x60, 0, 2, 0x7F, 0x7F, 0x60, 1, 0x7F, 1, 0x7F]), false, false);
        add("function type with f32 parameter", with_types(&[2, 0x60, 0, 0, 0x60, 1, 0x7D, 1, 0x7F]), false, false);
        add("function type with f64 result", with_types(&[2, 0x60, 0, 0, 0x60, 1, 0x7F, 1, 0x7C]), false, false);
        add("function type with wrong tag", with_types(&[2, 0x61, 0, 0, 0x60, 1, 0x7F, 1, 0x7F]), false, false);
        // non-minimal but legal LEB128: the vector length 2 encoded in 5 bytes
        add("type section length in padded LEB128", with_types(&[0x82, 0x80, 0x80, 0x80, 0x00, 0x60, 0, 0, 0x60, 1, 0x7F, 1, 0x7F]), true, true);
        // over-long LEB128 (6 bytes)
        add("type section length in over-long LEB128", with_types(&[0x82, 0x80, 0x80, 0x80, 0x80, 0x00, 0x60, 0, 0, 0x60, 1, 0x7F, 1, 0x7F]), false, false);
        // 5-byte LEB128 with bits beyond 32
        add("LEB128 u32 with bits beyond 32", with_types(&[0x82, 0x80, 0x80, 0x80, 0x10, 0x60, 0, 0, 0x60, 1, 0x7F, 1, 0x7F]), false, false);
    }
    // global initialisers and offsets referring to globals
    {
        let m = base_module();
        let b = m.encode();
        // global section: g0 = const i32 5 (immutable); g1 = global.get 0
        let gsec = raw_section(6, &[2, 0x7F, 0x00, 0x41, 5, 0x0B, 0x7F, 0x00, 0x23, 0, 0x0B]);
        // Wasm 1.0: a global initialiser may only refer to imported globals, of which there
        // are none on this chain.
        add("global initialised from a module-defined global", splice(&b, Some(5), &gsec), false, false);
        let gsec1 = raw_section(6, &[1, 0x7F, 0x00, 0x41, 5, 0x0B]);
        let mut with_g = splice(&b, Some(5), &gsec1);
        with_g = splice(&with_g, Some(4), &raw_section(5, &[1, 0, 1]));
        // data offset = global.get 0 (immutable i32): allowed by the 2019 text (V0), not by the
        // corrected specification (V1), as documented in ValidationConfig
        let dsec = raw_section(11, &[1, 0, 0x23, 0, 0x0B, 1, 0xAA]);
        add("data offset from an immutable global", splice(&with_g, Some(10), &dsec), true, false);
        let gsecm = raw_section(6, &[1, 0x7F, 0x01, 0x41, 5, 0x0B]);
        let mut with_gm = splice(&b, Some(5), &gsecm);
        with_gm = splice(&with_gm, Some(4), &raw_section(5, &[1, 0, 1]));
        add("data offset from a mutable global", splice(&with_gm, Some(10), &dsec), false, false);
        let dsec64 = raw_section(11, &[1, 0, 0x42, 0, 0x0B, 1, 0xAA]);
        add("data offset of type i64", splice(&with_g, Some(10), &dsec64), false, false);
        let dsec_nonconst = raw_section(11, &[1, 0, 0x41, 0, 0x41, 0, 0x6A, 0x0B, 1, 0xAA]);
        add("data offset that is not a constant expression", splice(&with_g, Some(10), &dsec_nonconst), false, false);
        let gbad = raw_section(6, &[1, 0x7F, 0x00, 0x42, 5, 0x0B]);
        add("i32 global initialised with i64.const", splice(&b, Some(5), &gbad), false, false);
        let gf = raw_section(6, &[1, 0x7D, 0x00, 0x43, 0, 0, 0, 0, 0x0B]);
        add("f32 global", splice(&b, Some(5), &gf), false, false);
    }
    // sign extension, per configuration
    {
        let mut m = base_module();
        m.funcs[0].body = vec![Instr::I32Const(1), Instr::Num(0xC0), Instr::Drop];
        add("i32.extend8_s", m.encode(), false, true);
    }
    // code after the final end / unterminated body, at the byte level
    {
        let m = base_module();
        let b = m.encode();
        let with_code = |code: &[u8]| {
            let mut out = vec![];
            // everything before the code section
            let mut pos = 8;
            out.extend_from_slice(&b[..8]);
            while pos < b.len() {
                let id = b[pos];
                let len = b[pos + 1] as usize;
                if id != 10 {
                    out.extend_from_slice(&b[pos..pos + 2 + len]);
                } else {
                    let mut body = vec![1u8];
                    leb_u(code.len() as u64, &mut body);
                    body.extend_from_slice(code);
                    out.extend(raw_section(10, &body));
                }
                pos += 2 + len;
            }
            out
        };
        add("body: end", with_code(&[0, 0x0B]), true, true);
        add("body: nop end", with_code(&[0, 0x01, 0x0B]), true, true);
        add("body: end nop", with_code(&[0, 0x0B, 0x01]), false, false);
        add("body: end end", with_code(&[0, 0x0B, 0x0B]), false, false);
        add("body: end i32.const drop", with_code(&[0, 0x0B, 0x41, 0x07, 0x1A]), false, false);
        add("body: nop (unterminated)", with_code(&[0, 0x01]), false, false);
        add("body: block end (missing function end)", with_code(&[0, 0x02, 0x40, 0x0B]), false, false);
        add("body: declared size one byte short", {
            let mut x = with_code(&[0, 0x01, 0x0B]);
            // the body-size byte is the third from the end of the code payload
            let n = x.len();
            x[n - 4] -= 1;
            x
        }, false, false);
        add("body: locals vector claims 2^32-1 groups", with_code(&[0xFF, 0xFF, 0xFF, 0xFF, 0x0F, 0x0B]), false, false);
        add("body: one group of 2^32-1 locals", with_code(&[1, 0xFF, 0xFF, 0xFF, 0xFF, 0x0F, 0x7F, 0x0B]), false, false);
        add("body: two groups overflowing u32", with_code(&[2, 0xFF, 0xFF, 0xFF, 0xFF, 0x0F, 0x7F, 0xFF, 0xFF, 0xFF, 0xFF, 0x0F, 0x7E, 0x0B]), false, false);
    }
    cases
}

fn limit_level(report: &Report, cases_ctr: &AtomicU64, accepted: &AtomicU64, runs: &AtomicU64) -> Vec<J> {
    let cases = limit_cases();
    let mut samples = vec![];
    for c in &cases {
        cases_ctr.fetch_add(1, Ordering::Relaxed);
        for (vcfg, expect) in [(VCfg::V0, c.expect.0), (VCfg::V1, c.expect.1)] {
            let wit = json!({"gen": "limits", "case": c.name, "config": vcfg.name(), "bytes": mc_core::hex(&c.bytes[..c.bytes.len().min(4096)])});
            match accepts(&c.bytes, plain(vcfg)) {
                Err(p) => report.violation("instantiate-panic", wit, json!({"panic": p})),
                Ok(got) => {
                    if got.is_some() != expect {
                        report.violation(
                            if expect { "valid-module-rejected" } else { "invalid-module-accepted" },
                            json!({"gen": "limits", "case": c.name, "config": vcfg.name()}),
                            json!({"expected_valid": expect, "accepted": got.is_some(), "bytes": mc_core::hex(&c.bytes[..c.bytes.len().min(4096)])}),
                        );
                    }
                    if got.is_some() {
                        accepted.fetch_add(1, Ordering::Relaxed);
                        if let Ok(Some(art)) = accepts(&c.bytes, metered(vcfg)) {
                            exec_safely(report, &wit, &art, runs);
                        }
                    }
                }
            }
        }
        if samples.len() < 4 {
            samples.push(json!({"limit_case": c.name, "expected(V0,V1)": [c.expect.0, c.expect.1]}));
        }
    }
    samples
}

// ---------------------------------------------------------------------------------------
// (3) byte level
// ---------------------------------------------------------------------------------------

fn seed_modules() -> Vec<(String, Vec<u8>)> {
    let mut seeds = vec![];
    let shape = Shape { ret: Some(VT::I32), hosts: true, extra: 0 };
    use Instr::*;
    let bodies: Vec<(&str, Vec<Instr>)> = vec![
        ("arith", vec![LocalGet(0), LocalGet(1), Num(0x6A)]),
        (
            "control",
            vec![Block(BT::Val(VT::I32)), LocalGet(0), LocalGet(1), BrIf(0), Drop, Loop(BT::Empty), LocalGet(2), I32Const(1), Num(0x6A), LocalTee(2), I32Const(3), Num(0x49), BrIf(0), End, LocalGet(2), End],
        ),
        ("memory", vec![I32Const(8), LocalGet(0), Store(0x36, 2, 0), I32Const(1), MemoryGrow, Drop, I32Const(8), Load(0x28, 2, 4)]),
        ("calls", vec![LocalGet(0), Call(1), LocalGet(1), I64Const(5), Call(2), Num(0xA7), Num(0x6A), Call(0), LocalGet(0), CallIndirect(1), Num(0x6B)]),
        ("table-switch", vec![Block(BT::Empty), Block(BT::Empty), LocalGet(0), BrTable(vec![0, 1], 1), End, I32Const(7), Return, End, I32Const(9)]),
    ];
    for (n, b) in bodies {
        seeds.push((n.to_string(), gen::template(&b, shape, false).encode()));
    }
    // contracts shipped with the repository
    for dir in ["/repo/smart-contracts/testdata/contracts", "/repo/smart-contracts/wasm-chain-integration/test-data", "/repo/smart-contracts/wasm-transform/testdata"] {
        if let Ok(rd) = std::fs::read_dir(dir) {
            let mut files: Vec<_> = rd.filter_map(|e| e.ok()).map(|e| e.path()).filter(|p| p.extension().map(|e| e == "wasm").unwrap_or(false)).collect();
            files.sort();
            for f in files {
                if let Ok(bytes) = std::fs::read(&f) {
                    // byte-level neighbourhoods are quadratic-ish in practice; keep the small ones
                    if bytes.len() <= 1500 {
                        seeds.push((f.file_name().unwrap().to_string_lossy().to_string(), bytes));
                    }
                }
            }
        }
    }
    seeds
}

/// Permissive policy used for the repository's own contracts (they import `concordium.*`).
struct AnyImports;
impl concordium_wasm::validate::ValidateImportExport for AnyImports {
    fn validate_import_function(&self, duplicate: bool, _m: &concordium_wasm::types::Name, _i: &concordium_wasm::types::Name, _t: &concordium_wasm::types::FunctionType) -> bool {
        !duplicate
    }

    fn validate_export_function(&self, _i: &concordium_wasm::types::Name, _t: &concordium_wasm::types::FunctionType) -> bool { true }
}

fn byte_level(report: &Report, tier: Tier, cases: &AtomicU64, accepted: &AtomicU64, runs: &AtomicU64) -> Vec<J> {
    let seeds = seed_modules();
    let mut samples = vec![];
    let max_seeds = if tier == Tier::Quick { 6 } else { usize::MAX };
    for (name, bytes) in seeds.iter().take(max_seeds) {
        // the unmodified seed must be accepted (under the permissive import policy)
        let ok0 = mc_core::catch(|| {
            concordium_wasm::utils::instantiate_with_metering::<concordium_wasm::artifact::ArtifactNamedImport>(
                concordium_wasm::validate::ValidationConfig::V1,
                concordium_wasm::CostConfigurationV1,
                &AnyImports,
                bytes,
            )
            .is_ok()
        });
        samples.push(json!({"seed_module": name, "bytes": bytes.len(), "accepted_unmodified": format!("{ok0:?}")}));
        // mutants
        let mut mutants: Vec<(String, Vec<u8>)> = vec![];
        for cut in 0..bytes.len() {
            mutants.push((format!("truncate@{cut}"), bytes[..cut].to_vec()));
        }
        let repl: &[u8] = if tier == Tier::Quick { &[0x00, 0xFF] } else { &[0x00, 0x7F, 0x80, 0xFF, 0x0B, 0x01] };
        for pos in 8..bytes.len() {
            for &r in repl {
                if bytes[pos] != r {
                    let mut m = bytes.clone();
                    m[pos] = r;
                    mutants.push((format!("byte@{pos}={r:#04x}"), m));
                }
            }
            // increment / decrement (length fields +-1, index +-1)
            for d in [1u8, 0xFF] {
                let mut m = bytes.clone();
                m[pos] = m[pos].wrapping_add(d);
                mutants.push((format!("byte@{pos}+{}", d as i8), m));
            }
            // LEB128 padding: a single-byte value re-encoded non-minimally in 2 bytes
            if bytes[pos] < 0x80 {
                let mut m = bytes[..pos].to_vec();
                m.push(bytes[pos] | 0x80);
                m.push(0x00);
                m.extend_from_slice(&bytes[pos + 1..]);
                mutants.push((format!("leb-pad@{pos}"), m));
            }
            if tier == Tier::Thorough {
                // byte deleted / duplicated
                let mut m = bytes.clone();
                m.remove(pos);
                mutants.push((format!("delete@{pos}"), m));
                let mut m = bytes.clone();
                m.insert(pos, bytes[pos]);
                mutants.push((format!("dup@{pos}"), m));
            }
        }
        mutants.par_iter().for_each(|(mname, m)| {
            cases.fetch_add(1, Ordering::Relaxed);
            let wit = json!({"gen": "bytes", "seed": name, "mutation": mname});
            for vcfg in [VCfg::V1, VCfg::V0] {
                let r = mc_core::catch(|| {
                    concordium_wasm::utils::instantiate_with_metering::<concordium_wasm::artifact::ArtifactNamedImport>(
                        vcfg.cfg(),
                        concordium_wasm::CostConfigurationV1,
                        &AnyImports,
                        m,
                    )
                });
                match r {
                    Err(p) => report.violation("instantiate-panic", wit.clone(), json!({"config": vcfg.name(), "panic": p, "bytes": mc_core::hex(m)})),
                    Ok(Err(_)) => {}
                    Ok(Ok(inst)) => {
                        accepted.fetch_add(1, Ordering::Relaxed);
                        // plain build must agree on acceptance
                        let plain_ok = mc_core::catch(|| {
                            concordium_wasm::utils::instantiate::<concordium_wasm::artifact::ArtifactNamedImport, _>(vcfg.cfg(), &AnyImports, m).is_ok()
                        });
                        if plain_ok != Ok(true) {
                            report.violation("metering-changes-acceptance", wit.clone(), json!({"config": vcfg.name(), "plain": format!("{plain_ok:?}")}));
                        }
                        if vcfg == VCfg::V1 {
                            exec_safely(report, &wit, &inst.artifact, runs);
                            // artifact serialisation of whatever was accepted must reload
                            let ab = real::artifact_bytes(&inst.artifact);
                            let rl = mc_core::catch(|| concordium_wasm::utils::parse_artifact::<concordium_wasm::artifact::ArtifactNamedImport>(&ab).map(|a| real::artifact_bytes(&a)));
                            match rl {
                                Ok(Ok(again)) if again == ab => {}
                                other => report.violation("artifact-does-not-reload", wit.clone(), json!({"result": format!("{:?}", other.map(|x| x.map(|v| v.len())))})),
                            }
                        }
                    }
                }
            }
        });
    }
    samples
}

pub fn run(cli: &Cli) -> ! {
    let report = Report::new(cli);
    if cli.extra.get("part").map(|s| s.as_str()) == Some("structure-common") {
        crate::structure::run_common(&crate::cfg_for_c09(cli.tier), &report, cli.tier);
        report.finish(true, json!("structure-common"));
    }
    if let Some(path) = &cli.replay {
        replay(&report, path);
    }
    let cases = AtomicU64::new(0);
    let accepted = AtomicU64::new(0);
    let runs = AtomicU64::new(0);
    let prefixes = AtomicU64::new(0);
    instr_level(&report, cli.tier, &cases, &accepted, &runs, &prefixes);
    let n_instr = cases.load(Ordering::Relaxed);
    eprintln!("[instr level] cases={} elapsed={:.1}s", n_instr, report.elapsed_s());
    let s2 = limit_level(&report, &cases, &accepted, &runs);
    // accesses at and beyond the bounds of memories of every admitted shape (incl. the empty one),
    // and calls with up to 7 arguments: judged by the reference machine (an access outside the
    // memory must trap, not read or write)
    crate::structure::run_common_guarded(&report, cli.tier);
    let n_limits = cases.load(Ordering::Relaxed) - n_instr;
    eprintln!("[limit level] cases={} elapsed={:.1}s", n_limits, report.elapsed_s());
    let s3 = byte_level(&report, cli.tier, &cases, &accepted, &runs);
    let n_bytes = cases.load(Ordering::Relaxed) - n_instr - n_limits;
    eprintln!("[byte level] cases={} elapsed={:.1}s", n_bytes, report.elapsed_s());
    let total = cases.load(Ordering::Relaxed);
    report.eval(total);
    report.state(prefixes.load(Ordering::Relaxed));
    report.transition(total * 2 + runs.load(Ordering::Relaxed));
    report.trace(total * 2);
    report.nontrivial(accepted.load(Ordering::Relaxed));
    report.outcome("accepted", accepted.load(Ordering::Relaxed));
    report.outcome("rejected", total * 2 - accepted.load(Ordering::Relaxed).min(total * 2));
    report.set_extra("instruction_level_cases", json!(n_instr));
    report.set_extra("limit_level_cases", json!(n_limits));
    report.set_extra("byte_level_cases", json!(n_bytes));
    report.set_extra("executions_of_accepted_modules", json!(runs.load(Ordering::Relaxed)));
    for s in s2.into_iter().chain(s3) {
        report.sample(s);
    }
    report.sample(json!({"instr_case": "every admissible prefix (<= k instructions) followed by every 1- and 2-symbol tail over the hostile alphabet, in a full and in a bare (no memory/table) module"}));
    report.set_technique("exhaustive enumeration: valid prefixes x all <=2-symbol hostile tails vs. reference validator; boundary table of chain limits; complete byte-mutation neighbourhoods of seed modules, with execution of every accepted module under bounds assertions");
    report.set_rule("instruction level: accept <=> reference validator; limit level: expected verdict per documented restriction; byte level: no panic + accepted mutants execute safely and their artifacts reload; non-trivial = accepted by the implementation");
    report.assume("byte-level mutants are checked for totality and execution safety only (no independent binary decoder is used there); the accept<=>valid equivalence is decided at instruction and limit level");
    report.assume("the bounds assertions of hook H2 stand in for the unchecked accesses they guard");
    report.finish(true, json!({"prefix_len": if cli.tier == Tier::Quick { 2 } else { 3 }, "tail_len": 2}));
}

fn replay(report: &Report, path: &std::path::Path) -> ! {
    let doc = mc_core::load_replay(path);
    let w = &doc["witness"];
    match w["gen"].as_str() {
        Some("instr") => {
            let body = body_from_json(&w["body"]).unwrap_or_else(|| mc_core::machinery_error("bad body"));
            let bare = w["bare_module"].as_bool().unwrap_or(false);
            let shape = Shape { ret: Some(VT::I32), hosts: false, extra: 0 };
            let module = c09_module(&body, shape, bare);
            let bytes = module.encode();
            for vcfg in [VCfg::V0, VCfg::V1] {
                let mut ctx = FnCtx::for_func(&c09_module(&[], shape, bare), 0, vcfg.sign_ext());
                ctx.has_memory = module.memory.is_some();
                let expect = validate_body(&ctx, &body).is_ok();
                let got = accepts(&bytes, plain(vcfg));
                println!("{}: reference valid={} implementation accepted={:?}", vcfg.name(), expect, got.as_ref().map(|x| x.is_some()));
                if got.map(|x| x.is_some()) != Ok(expect) {
                    report.violation("replayed", w.clone(), json!({}));
                }
            }
        }
        Some("limits") => {
            let name = w["case"].as_str().unwrap_or("");
            for c in limit_cases() {
                if c.name == name {
                    for (vcfg, expect) in [(VCfg::V0, c.expect.0), (VCfg::V1, c.expect.1)] {
                        let got = accepts(&c.bytes, plain(vcfg));
                        println!("{} {}: expected valid={} accepted={:?}", c.name, vcfg.name(), expect, got.as_ref().map(|x| x.is_some()));
                        if got.map(|x| x.is_some()) != Ok(expect) {
                            report.violation("replayed", w.clone(), json!({}));
                        }
                    }
                }
            }
        }
        _ => println!("byte-level replay: re-run the check; mutants are derived deterministically from the seed modules"),
    }
    report.finish(false, json!("replay"));
}
