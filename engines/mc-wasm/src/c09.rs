//! C09 (stub, filled in below).
pub fn run(_cli: &mc_core::Cli) -> ! { mc_core::machinery_error("C09 not built yet") }
