//! Pinned energy cost schedules V0 and V1 of the metering transformation.
//!
//! Transcribed as DATA from the documentation/constants of
//! `smart-contracts/wasm-transform/src/metering_transformation.rs` at the pinned commit.
//! Energy is consensus data: a silent change of the schedule in the repository must show up
//! as a disagreement with this table, which is why the oracle does not call the
//! repository's own `get_cost`.

use crate::ast::{Instr, BT};

#[derive(Clone, Copy, Debug, PartialEq, Eq, Hash)]
pub enum CostV {
    V0,
    V1,
}

impl CostV {
    pub fn name(self) -> &'static str {
        match self {
            CostV::V0 => "costV0",
            CostV::V1 => "costV1",
        }
    }
}

/// Cost of an unconditional jump with the given label arity.
pub fn branch(v: CostV, arity: usize) -> u64 {
    match v {
        CostV::V0 => 8 + arity as u64,
        CostV::V1 => 2,
    }
}

pub fn invoke_before(v: CostV, args: usize, res: usize) -> u64 {
    match v {
        // FUNC_FRAME_BASE + copy(args) + JUMP + copy(res) + JUMP
        CostV::V0 => 10 + args as u64 + 8 + res as u64 + 8,
        CostV::V1 => 2 + args as u64 + 2 + res as u64 + 2,
    }
}

pub fn invoke_after(v: CostV, declared_locals: u32) -> u64 {
    match v {
        CostV::V0 => 4 * declared_locals as u64,
        CostV::V1 => (declared_locals / 16) as u64,
    }
}

pub fn call_indirect(v: CostV, args: usize, res: usize) -> u64 {
    match v {
        // BOUNDS + type_check(args+res) + invoke_before
        CostV::V0 => 2 + (args + res) as u64 + invoke_before(v, args, res),
        CostV::V1 => 2 + ((args + res) / 10) as u64 + invoke_before(v, args, res),
    }
}

/// Static cost of one instruction. `labels` is the static label stack (outermost first,
/// element 0 is the function's result type); `func_sig(idx)`/`type_sig(idx)` give
/// (#params, #results).
pub fn instr_cost(
    v: CostV,
    i: &Instr,
    labels: &[BT],
    func_sig: &dyn Fn(u32) -> (usize, usize),
    type_sig: &dyn Fn(u32) -> (usize, usize),
) -> u64 {
    let label_arity = |idx: u32| -> usize {
        let idx = idx as usize;
        labels[labels.len() - 1 - idx].arity()
    };
    match v {
        CostV::V0 => match i {
            Instr::Nop => 1,
            Instr::Unreachable | Instr::Block(_) | Instr::Loop(_) | Instr::End | Instr::Else => 0,
            Instr::If(_) => 10,
            Instr::Br(l) => branch(v, label_arity(*l)),
            Instr::BrIf(_) => 10,
            Instr::BrTable(_, d) => 2 + branch(v, label_arity(*d)),
            Instr::Return => branch(v, labels[0].arity()),
            Instr::Call(f) => {
                let (a, r) = func_sig(*f);
                invoke_before(v, a, r)
            }
            Instr::CallIndirect(t) => {
                let (a, r) = type_sig(*t);
                call_indirect(v, a, r)
            }
            Instr::Drop => 2,
            Instr::Select => 3,
            Instr::LocalGet(_) | Instr::LocalSet(_) | Instr::LocalTee(_) | Instr::GlobalGet(_) | Instr::GlobalSet(_) => 3,
            Instr::Load(..) => 4,
            Instr::Store(op, ..) => match op {
                0x36 => 8,
                0x37 => 10,
                0x3A => 5,
                0x3B => 8,
                0x3C => 7,
                0x3D => 9,
                0x3E => 10,
                _ => panic!("store opcode"),
            },
            Instr::MemorySize => 4,
            Instr::MemoryGrow => 10,
            Instr::I32Const(_) | Instr::I64Const(_) => 2,
            Instr::Num(op) => match op {
                // unary: eqz, clz, ctz, popcnt, conversions, sign extensions
                0x45 | 0x50 | 0x67..=0x69 | 0x79..=0x7B | 0xA7 | 0xAC | 0xAD | 0xC0..=0xC4 => 3,
                // mul, div, rem
                0x6C..=0x70 | 0x7E..=0x82 => 5,
                // all other binary operations and comparisons
                _ => 4,
            },
            Instr::Raw(_) => 0,
        },
        CostV::V1 => match i {
            Instr::Nop => 1,
            Instr::Unreachable | Instr::Block(_) | Instr::Loop(_) | Instr::End | Instr::Else => 0,
            Instr::If(_) => 4,
            Instr::Br(_) => 2,
            Instr::BrIf(_) => 4,
            Instr::BrTable(..) => 7,
            Instr::Return => 2,
            Instr::Call(f) => {
                let (a, r) = func_sig(*f);
                invoke_before(v, a, r)
            }
            Instr::CallIndirect(t) => {
                let (a, r) = type_sig(*t);
                call_indirect(v, a, r)
            }
            Instr::Drop => 0,
            Instr::Select => 2,
            Instr::LocalGet(_) | Instr::LocalSet(_) | Instr::LocalTee(_) => 0,
            Instr::GlobalGet(_) | Instr::GlobalSet(_) => 1,
            Instr::Load(..) => 1,
            Instr::Store(..) => 2,
            Instr::MemorySize => 1,
            Instr::MemoryGrow => 10,
            Instr::I32Const(_) | Instr::I64Const(_) => 0,
            Instr::Num(op) => match op {
                0x6C..=0x70 | 0x7E..=0x82 => 2,
                _ => 1,
            },
            Instr::Raw(_) => 0,
        },
    }
}

/// Does the instruction end a straight-line charging segment (its own cost included in the
/// segment it ends)? Documented rule: loop, if, else, end, return, unreachable, br, br_if,
/// br_table, call, call_indirect.
pub fn is_boundary(i: &Instr) -> bool {
    matches!(
        i,
        Instr::Loop(_)
            | Instr::If(_)
            | Instr::Else
            | Instr::End
            | Instr::Return
            | Instr::Unreachable
            | Instr::Br(_)
            | Instr::BrIf(_)
            | Instr::BrTable(..)
            | Instr::Call(_)
            | Instr::CallIndirect(_)
    )
}
