//! mc-wasm: bounded exhaustive exploration of Wasm programs on the real
//! `concordium-wasm` engine against a reference validator/interpreter.
//! Serves C01 (conformance), C02 (metering), C09 (validation/safety), C13 (reload and
//! interrupts).

#[global_allocator]
static ALLOC: mc_core::PoolAlloc = mc_core::PoolAlloc;

mod ast;
mod c09;
mod check;
mod cost;
mod energy_account;
mod gen;
mod ops;
mod optable;
mod structure;
mod real;
mod refint;
mod refval;

use ast::*;
use check::{Cfg, Prop, Stats};
use gen::{AlphabetKind, Shape};
use mc_core::{Cli, Report, Tier};
use rayon::prelude::*;
use refval::{FnCtx, VState};
use serde_json::json;
use std::time::{Duration, Instant};

pub struct Space {
    pub kind:    AlphabetKind,
    pub shape:   Shape,
    pub max_len: usize,
}

fn args_full() -> Vec<(i32, i32)> {
    let v = [0, 1, -1, i32::MIN];
    let mut out = vec![];
    for a in v {
        for b in v {
            out.push((a, b));
        }
    }
    out
}

fn args_small() -> Vec<(i32, i32)> { vec![(0, 0), (1, 0), (-1, 1), (i32::MIN, -1), (65532, 5)] }

/// Enumerate every complete, reference-valid body of at most `max_len` instructions over
/// the alphabet and call `f` on it. Deterministic partition over the rayon pool by the
/// first two symbols. Returns (admissible prefixes visited, complete bodies).
pub fn enumerate<F>(space: &Space, deadline: Option<Instant>, f: F) -> (u64, u64, bool)
where
    F: Fn(&[Instr], &mut Stats) + Sync, {
    let alpha = gen::alphabet(space.kind, space.shape);
    let module = gen::template(&[], space.shape, true);
    let ctx = FnCtx::for_func(&module, 0, false);
    let init = VState::new(&ctx);
    // Level-wise expansion of the first `split` symbols: prefixes shorter than `split` are
    // visited sequentially, prefixes of length `split` seed the parallel depth-first search.
    let split = 2.min(space.max_len);
    let mut shallow: Vec<(Vec<usize>, VState)> = vec![];
    let mut level: Vec<(Vec<usize>, VState)> = vec![(vec![], init)];
    for _ in 0..split {
        let mut next = vec![];
        for (w, s) in &level {
            for (si, sym) in alpha.iter().enumerate() {
                let mut s2 = s.clone();
                if s2.step(&ctx, sym).is_ok() && !s2.done() {
                    let mut w2 = w.clone();
                    w2.push(si);
                    next.push((w2, s2));
                }
            }
        }
        shallow.extend(level);
        level = next;
    }
    let seeds: Vec<(Vec<usize>, VState)> = level;
    let timed_out = std::sync::atomic::AtomicBool::new(false);
    let visit = |w: &[usize], s: &VState, st: &mut Stats| -> bool {
        // a prefix is a complete body iff the function's final `end` type-checks here
        if s.depth() == 1 {
            let mut s2 = s.clone();
            if s2.step(&ctx, &Instr::End).is_ok() && s2.done() {
                let body: Vec<Instr> = w.iter().map(|&i| alpha[i].clone()).collect();
                f(&body, st);
                return true;
            }
        }
        false
    };
    // shallow prefixes (length < split) are handled sequentially
    let mut st0 = Stats::default();
    let mut prefixes = 0u64;
    let mut complete = 0u64;
    for (w, s) in &shallow {
        prefixes += 1;
        if visit(w, s, &mut st0) {
            complete += 1;
        }
    }
    let results: Vec<(u64, u64, Stats)> = seeds
        .par_iter()
        .map(|(w, s)| {
            let mut st = Stats::default();
            let mut prefixes = 0u64;
            let mut complete = 0u64;
            let mut word = w.clone();
            fn go(
                word: &mut Vec<usize>,
                s: &VState,
                alpha: &[Instr],
                ctx: &FnCtx,
                max_len: usize,
                prefixes: &mut u64,
                complete: &mut u64,
                st: &mut Stats,
                visit: &dyn Fn(&[usize], &VState, &mut Stats) -> bool,
                deadline: Option<Instant>,
                timed_out: &std::sync::atomic::AtomicBool,
            ) {
                *prefixes += 1;
                if visit(word, s, st) {
                    *complete += 1;
                }
                if word.len() >= max_len {
                    return;
                }
                // open blocks need at least one `end` each
                if s.depth() - 1 > max_len - word.len() {
                    return;
                }
                if let Some(d) = deadline {
                    if (*prefixes & 0xff) == 0 && Instant::now() > d {
                        timed_out.store(true, std::sync::atomic::Ordering::Relaxed);
                    }
                    if timed_out.load(std::sync::atomic::Ordering::Relaxed) {
                        return;
                    }
                }
                for (si, sym) in alpha.iter().enumerate() {
                    let mut s2 = s.clone();
                    if s2.step(ctx, sym).is_ok() && !s2.done() {
                        word.push(si);
                        go(word, &s2, alpha, ctx, max_len, prefixes, complete, st, visit, deadline, timed_out);
                        word.pop();
                    }
                }
            }
            go(&mut word, s, &alpha, &ctx, space.max_len, &mut prefixes, &mut complete, &mut st, &visit, deadline, &timed_out);
            (prefixes, complete, st)
        })
        .collect();
    let mut all = st0;
    for (p, c, st) in results {
        prefixes += p;
        complete += c;
        merge_stats(&mut all, st);
    }
    ALL_STATS.with(|a| merge_stats(&mut a.borrow_mut(), all));
    (prefixes, complete, timed_out.load(std::sync::atomic::Ordering::Relaxed))
}

thread_local! {
    static ALL_STATS: std::cell::RefCell<Stats> = std::cell::RefCell::new(Stats::default());
}

fn merge_stats(a: &mut Stats, b: Stats) {
    a.programs += b.programs;
    a.nontrivial += b.nontrivial;
    a.runs += b.runs;
    a.comparisons += b.comparisons;
    a.long_programs += b.long_programs;
    a.budget_runs += b.budget_runs;
    a.schedules += b.schedules;
    a.max_interrupts = a.max_interrupts.max(b.max_interrupts);
    for (k, v) in b.outcomes {
        *a.outcomes.entry(k).or_insert(0) += v;
    }
    for s in b.samples {
        if a.samples.len() < 8 {
            a.samples.push(s);
        }
    }
}

fn cfg_for(prop: Prop, tier: Tier) -> Cfg {
    use real::{Build, VCfg, ALL_BUILDS};
    let metered: Vec<Build> = ALL_BUILDS.iter().copied().filter(|b| b.metering.is_some()).collect();
    match prop {
        Prop::C01 => Cfg {
            prop,
            builds: ALL_BUILDS.to_vec(),
            args: args_full(),
            args_memory: args_small(),
            builds_memory: vec![ALL_BUILDS[0], ALL_BUILDS[1], ALL_BUILDS[2]],
            max_interrupt_calls: 0,
        },
        Prop::C02 => Cfg {
            prop,
            builds: metered.clone(),
            args: if tier == Tier::Quick { args_small() } else { args_full() },
            args_memory: vec![(0, 0), (1, 0), (-1, 1)],
            builds_memory: vec![ALL_BUILDS[1], ALL_BUILDS[2]],
            max_interrupt_calls: 0,
        },
        Prop::C13 => Cfg {
            prop,
            builds: vec![ALL_BUILDS[0], ALL_BUILDS[1], ALL_BUILDS[2]],
            args: args_small(),
            args_memory: vec![(0, 0), (1, 0), (-1, 1)],
            builds_memory: vec![ALL_BUILDS[1], Build { vcfg: VCfg::V0, metering: None }],
            max_interrupt_calls: if tier == Tier::Quick { 4 } else { 6 },
        },
    }
}

/// C09 runs the memory-limit / call-arity grid of the structure layer with C01's comparison rules.
pub fn cfg_for_c09(tier: Tier) -> Cfg { cfg_for(Prop::C01, tier) }

/// The search spaces per property and tier: (alphabet, shape, max body length).
fn spaces(prop: Prop, tier: Tier) -> Vec<Space> {
    let i32f = Shape { ret: Some(VT::I32), hosts: false, extra: 0 };
    let i64f = Shape { ret: Some(VT::I64), hosts: false, extra: 0 };
    let unitf = Shape { ret: None, hosts: false, extra: 0 };
    let hosts = Shape { ret: Some(VT::I32), hosts: true, extra: 0 };
    let q = tier == Tier::Quick;
    // cheap spaces first: if the wall-clock cap is hit, only the last (largest) space is partial
    match prop {
        Prop::C01 => [1u8, 5, 7]
            .into_iter()
            .flat_map(|x| {
                // more locals than the alphabets refer to: the register numbering of the compiled code shifts
                [Space { kind: AlphabetKind::Core, shape: Shape { extra: x, ..i32f }, max_len: if q { 3 } else { 5 } }, Space { kind: AlphabetKind::Wide, shape: Shape { extra: x, ..i64f }, max_len: if q { 2 } else { 4 } }, Space { kind: AlphabetKind::Hosts, shape: Shape { extra: x, ..hosts }, max_len: if q { 2 } else { 4 } }]
            })
            .chain([
            Space { kind: AlphabetKind::Hosts, shape: hosts, max_len: if q { 4 } else { 6 } },
            Space { kind: AlphabetKind::Wide, shape: i64f, max_len: if q { 4 } else { 5 } },
            Space { kind: AlphabetKind::Core, shape: unitf, max_len: if q { 5 } else { 7 } },
            Space { kind: AlphabetKind::Memory, shape: i32f, max_len: if q { 4 } else { 5 } },
            Space { kind: AlphabetKind::Wide, shape: i32f, max_len: if q { 5 } else { 6 } },
            Space { kind: AlphabetKind::Core, shape: i32f, max_len: if q { 6 } else { 8 } },
        ])
            .collect(),
        Prop::C02 => (1..=gen::N_EXTRA)
            .flat_map(|x| {
                // functions whose locals are declared in runs: the entry charge is by locals
                [Space { kind: AlphabetKind::Core, shape: Shape { extra: x, ..i32f }, max_len: if q { 2 } else { 4 } }, Space { kind: AlphabetKind::Hosts, shape: Shape { extra: x, ..hosts }, max_len: if q { 2 } else { 3 } }]
            })
            .chain([
            Space { kind: AlphabetKind::Core, shape: unitf, max_len: if q { 5 } else { 7 } },
            Space { kind: AlphabetKind::Memory, shape: i32f, max_len: if q { 4 } else { 5 } },
            Space { kind: AlphabetKind::Hosts, shape: hosts, max_len: if q { 5 } else { 6 } },
            Space { kind: AlphabetKind::Wide, shape: i32f, max_len: if q { 4 } else { 6 } },
            Space { kind: AlphabetKind::Core, shape: i32f, max_len: if q { 6 } else { 7 } },
        ])
            .collect(),
        Prop::C13 => [1u8, 5]
            .into_iter()
            .map(|x| Space { kind: AlphabetKind::Hosts, shape: Shape { extra: x, ..hosts }, max_len: if q { 3 } else { 5 } })
            .chain([
            Space { kind: AlphabetKind::Memory, shape: i32f, max_len: if q { 4 } else { 5 } },
            Space { kind: AlphabetKind::Wide, shape: i32f, max_len: if q { 5 } else { 6 } },
            Space { kind: AlphabetKind::Core, shape: i32f, max_len: if q { 6 } else { 7 } },
            Space { kind: AlphabetKind::Hosts, shape: hosts, max_len: if q { 5 } else { 7 } },
        ])
            .collect(),
    }
}

fn run_program_property(cli: &Cli, prop: Prop) -> ! {
    let report = Report::new(cli);
    let cfg = cfg_for(prop, cli.tier);
    if cli.extra.get("part").map(|s| s.as_str()) == Some("structure-common") {
        structure::run_common(&cfg, &report, cli.tier);
        report.finish(true, json!("structure-common"));
    }
    // artefacts with a program witness are re-evaluated alone; any other artefact of this engine
    // is replayed by re-running the enumeration with the witness as a filter (mc_core)
    if let Some((doc, (shape, body))) = cli.replay.as_ref().map(|p| mc_core::load_replay(p)).and_then(|d| check::witness_parse(&d["witness"]).map(|w| (d, w))) {
        let _ = &doc;
        report.disable_replay_filter();
        println!("replaying {} : {}", shape.name(), body_text(&body));
        let mut st = Stats::default();
        let ok = check::check_program(&cfg, &report, &mut st, shape, &body);
        println!("replay verdict: {}", if ok { "property holds on this case" } else { "VIOLATION reproduced" });
        st.merge_into(&report);
        report.finish(false, json!("replay"));
    }
    self_test(&report, &cfg);
    let cap = Duration::from_secs(match cli.tier {
        Tier::Quick => 45,
        Tier::Thorough => 25 * 60,
    });
    let start = Instant::now();
    let mut bounds = vec![];
    let mut states = 0u64;
    let mut exhaustive = true;
    for sp in spaces(prop, cli.tier) {
        // iterate the bound: 0, 1, 2, ... so that a capped run still reports the last bound
        // completed in full
        let mut completed = None;
        let mut last_counts = (0u64, 0u64);
        for len in sp.max_len.saturating_sub(1)..=sp.max_len {
            let remaining = cap.checked_sub(start.elapsed());
            let Some(rem) = remaining else {
                exhaustive = false;
                break;
            };
            // the last bound of each space gets what is left; earlier ones are cheap
            let deadline = Instant::now() + rem;
            let space = Space { kind: sp.kind, shape: sp.shape, max_len: len };
            ALL_STATS.with(|a| *a.borrow_mut() = Stats::default());
            let (p, c, timed_out) = enumerate(&space, Some(deadline), |body, st| {
                check::check_program(&cfg, &report, st, sp.shape, body);
            });
            eprintln!("[space {:?}/{} len {}] prefixes={} bodies={} elapsed={:.1}s", sp.kind, sp.shape.name(), len, p, c, start.elapsed().as_secs_f64());
            if timed_out {
                exhaustive = false;
                report.cap_hit(&format!("wall-clock cap hit in space {:?}/{} at length {}", sp.kind, sp.shape.name(), len));
                // the partial pass is still reported in the counters, but not as a completed bound
                ALL_STATS.with(|a| a.borrow().merge_into(&report));
                states += p;
                break;
            }
            // only the largest completed pass contributes to the counters (smaller bounds are subsets)
            completed = Some(len);
            last_counts = (p, c);
            if len == sp.max_len {
                ALL_STATS.with(|a| a.borrow().merge_into(&report));
                states += p;
            }
        }
        bounds.push(json!({
            "alphabet": format!("{:?}", sp.kind), "alphabet_size": gen::alphabet(sp.kind, sp.shape).len(),
            "shape": sp.shape.name(), "max_body_len_target": sp.max_len, "max_body_len_completed": completed,
            "admissible_prefixes": last_counts.0, "complete_bodies": last_counts.1,
        }));
    }
    if prop == Prop::C01 {
        optable::run(&report, cli.tier);
    }
    // module structures the body search keeps fixed (C01 against the reference, C13 fresh vs. reloaded)
    structure::run_common_guarded(&report, cli.tier);
    if prop != Prop::C02 {
        structure::run(&cfg, &report, cli.tier);
    }
    if prop == Prop::C02 && cli.replay.is_none() {
        energy_account::run(&report);
    }
    if prop == Prop::C13 && cli.replay.is_none() {
        // the chain-level part: v1 receive executions interrupted at invoke / upgrade and resumed
        // (engine mc-host, its resume layer), merged into this report
        let j = mc_core::run_embedded("mc-host", "C13", cli.tier);
        report.merge_embedded("mc-host", &j);
    }
    report.state(states);
    report.set_technique("bounded exhaustive enumeration (stateless DFS over reference-validator states) of Wasm function bodies, each executed on the real engine and compared with a reference interpreter");
    report.set_rule("every well-typed function body of at most max_body_len instructions over the listed alphabets, in a fixed module template, run on every argument tuple and build; a body is non-trivial if its reference outcomes over the argument tuples are not all equal");
    report.assume("reference validator/interpreter/cost tables in /verif/engines/mc-wasm transcribe the Wasm 1.0 spec and the documented cost schedule correctly");
    report.assume("stand-in crates num_enum/slab (see /verif/shims) behave like the originals for the uses in the repository");
    report.assume("programs longer than the bound, constants outside the alphabet and deeper call graphs than the template are not covered");
    report.set_extra("spaces", json!(bounds));
    report.finish(exhaustive, json!(bounds));
}

/// Determinism self-test: the same recorded case run twice must give identical observations.
fn self_test(report: &Report, cfg: &Cfg) {
    let shape = Shape { ret: Some(VT::I32), hosts: false, extra: 0 };
    let body = vec![Instr::LocalGet(0), Instr::LocalGet(1), Instr::Num(0x6B)];
    let quiet = Report::new(&Cli { property: format!("{}-selftest", report.property), tier: report.tier, replay: None, seed: 0, extra: Default::default() });
    let mut s1 = Stats::default();
    let mut s2 = Stats::default();
    let ok1 = check::check_program(cfg, &quiet, &mut s1, shape, &body);
    let ok2 = check::check_program(cfg, &quiet, &mut s2, shape, &body);
    if !ok1 || !ok2 || s1.runs != s2.runs || s1.outcomes != s2.outcomes {
        mc_core::machinery_error("determinism self-test failed: `local.get 0; local.get 1; i32.sub` does not behave reproducibly");
    }
}

fn main() {
    let cli = mc_core::parse_cli();
    mc_core::quiet_panics();
    match cli.property.as_str() {
        "C01" => run_program_property(&cli, Prop::C01),
        "C02" => run_program_property(&cli, Prop::C02),
        "C13" => run_program_property(&cli, Prop::C13),
        "C09" => c09::run(&cli),
        other => mc_core::machinery_error(&format!("mc-wasm does not serve property {other}")),
    }
}
