//! Numeric and memory instruction semantics, transcribed from the WebAssembly 1.0
//! specification (section 4.3 "Numerics") plus the sign-extension proposal.
//! No code shared with the implementation under test.

use crate::ast::VT;

#[derive(Clone, Copy, Debug, PartialEq, Eq, Hash)]
pub enum Val {
    I32(i32),
    I64(i64),
}

impl Val {
    pub fn ty(self) -> VT {
        match self {
            Val::I32(_) => VT::I32,
            Val::I64(_) => VT::I64,
        }
    }

    pub fn zero(t: VT) -> Val {
        match t {
            VT::I32 => Val::I32(0),
            VT::I64 => Val::I64(0),
        }
    }

    pub fn as_i32(self) -> i32 {
        match self {
            Val::I32(x) => x,
            Val::I64(_) => panic!("reference interpreter: expected i32 (validator bug)"),
        }
    }

    pub fn as_i64(self) -> i64 {
        match self {
            Val::I64(x) => x,
            Val::I32(_) => panic!("reference interpreter: expected i64 (validator bug)"),
        }
    }

    pub fn bits(self) -> i64 {
        match self {
            Val::I32(x) => x as i64,
            Val::I64(x) => x,
        }
    }
}

/// (parameter types, result type) of a numeric opcode, `None` if the opcode is not an
/// integer numeric instruction. `sign_ext` = whether 0xC0..0xC4 are part of the language.
pub fn num_sig(op: u8, sign_ext: bool) -> Option<(&'static [VT], VT)> {
    use VT::*;
    const I: &[VT] = &[I32];
    const II: &[VT] = &[I32, I32];
    const L: &[VT] = &[I64];
    const LL: &[VT] = &[I64, I64];
    Some(match op {
        0x45 => (I, I32),
        0x46..=0x4F => (II, I32),
        0x50 => (L, I32),
        0x51..=0x5A => (LL, I32),
        0x67..=0x69 => (I, I32),
        0x6A..=0x78 => (II, I32),
        0x79..=0x7B => (L, I64),
        0x7C..=0x8A => (LL, I64),
        0xA7 => (L, I32),
        0xAC | 0xAD => (I, I64),
        0xC0 | 0xC1 if sign_ext => (I, I32),
        0xC2..=0xC4 if sign_ext => (L, I64),
        _ => return None,
    })
}

pub fn all_num_ops(sign_ext: bool) -> Vec<u8> { (0x45u8..=0xC4).filter(|&o| num_sig(o, sign_ext).is_some()).collect() }

#[derive(Clone, Copy, Debug, PartialEq, Eq)]
pub struct Trap;

fn b(x: bool) -> Val { Val::I32(x as i32) }

/// Evaluate a numeric instruction on its operands (in stack order: first pushed first).
pub fn num_eval(op: u8, a: &[Val]) -> Result<Val, Trap> {
    use Val::*;
    Ok(match op {
        0x45 => b(a[0].as_i32() == 0),
        0x46..=0x4F => {
            let (x, y) = (a[0].as_i32(), a[1].as_i32());
            let (ux, uy) = (x as u32, y as u32);
            b(match op {
                0x46 => x == y,
                0x47 => x != y,
                0x48 => x < y,
                0x49 => ux < uy,
                0x4A => x > y,
                0x4B => ux > uy,
                0x4C => x <= y,
                0x4D => ux <= uy,
                0x4E => x >= y,
                _ => ux >= uy,
            })
        }
        0x50 => b(a[0].as_i64() == 0),
        0x51..=0x5A => {
            let (x, y) = (a[0].as_i64(), a[1].as_i64());
            let (ux, uy) = (x as u64, y as u64);
            b(match op {
                0x51 => x == y,
                0x52 => x != y,
                0x53 => x < y,
                0x54 => ux < uy,
                0x55 => x > y,
                0x56 => ux > uy,
                0x57 => x <= y,
                0x58 => ux <= uy,
                0x59 => x >= y,
                _ => ux >= uy,
            })
        }
        0x67 => I32(a[0].as_i32().leading_zeros() as i32),
        0x68 => I32(a[0].as_i32().trailing_zeros() as i32),
        0x69 => I32(a[0].as_i32().count_ones() as i32),
        0x6A..=0x78 => {
            let (x, y) = (a[0].as_i32(), a[1].as_i32());
            let (ux, uy) = (x as u32, y as u32);
            let k = uy % 32;
            I32(match op {
                0x6A => x.wrapping_add(y),
                0x6B => x.wrapping_sub(y),
                0x6C => x.wrapping_mul(y),
                0x6D => {
                    // idiv_s: undefined if j2 = 0 or the quotient is 2^(N-1)
                    if y == 0 || (x == i32::MIN && y == -1) {
                        return Err(Trap);
                    }
                    x.wrapping_div(y)
                }
                0x6E => {
                    if uy == 0 {
                        return Err(Trap);
                    }
                    (ux / uy) as i32
                }
                0x6F => {
                    // irem_s: undefined only if j2 = 0; (MIN, -1) gives 0
                    if y == 0 {
                        return Err(Trap);
                    }
                    x.wrapping_rem(y)
                }
                0x70 => {
                    if uy == 0 {
                        return Err(Trap);
                    }
                    (ux % uy) as i32
                }
                0x71 => x & y,
                0x72 => x | y,
                0x73 => x ^ y,
                0x74 => (ux << k) as i32,
                0x75 => x >> k,
                0x76 => (ux >> k) as i32,
                0x77 => ux.rotate_left(k) as i32,
                _ => ux.rotate_right(k) as i32,
            })
        }
        0x79 => I64(a[0].as_i64().leading_zeros() as i64),
        0x7A => I64(a[0].as_i64().trailing_zeros() as i64),
        0x7B => I64(a[0].as_i64().count_ones() as i64),
        0x7C..=0x8A => {
            let (x, y) = (a[0].as_i64(), a[1].as_i64());
            let (ux, uy) = (x as u64, y as u64);
            let k = (uy % 64) as u32;
            I64(match op {
                0x7C => x.wrapping_add(y),
                0x7D => x.wrapping_sub(y),
                0x7E => x.wrapping_mul(y),
                0x7F => {
                    if y == 0 || (x == i64::MIN && y == -1) {
                        return Err(Trap);
                    }
                    x.wrapping_div(y)
                }
                0x80 => {
                    if uy == 0 {
                        return Err(Trap);
                    }
                    (ux / uy) as i64
                }
                0x81 => {
                    if y == 0 {
                        return Err(Trap);
                    }
                    x.wrapping_rem(y)
                }
                0x82 => {
                    if uy == 0 {
                        return Err(Trap);
                    }
                    (ux % uy) as i64
                }
                0x83 => x & y,
                0x84 => x | y,
                0x85 => x ^ y,
                0x86 => (ux << k) as i64,
                0x87 => x >> k,
                0x88 => (ux >> k) as i64,
                0x89 => ux.rotate_left(k) as i64,
                _ => ux.rotate_right(k) as i64,
            })
        }
        0xA7 => I32(a[0].as_i64() as i32),
        0xAC => I64(a[0].as_i32() as i64),
        0xAD => I64(a[0].as_i32() as u32 as i64),
        0xC0 => I32(a[0].as_i32() as i8 as i32),
        0xC1 => I32(a[0].as_i32() as i16 as i32),
        0xC2 => I64(a[0].as_i64() as i8 as i64),
        0xC3 => I64(a[0].as_i64() as i16 as i64),
        0xC4 => I64(a[0].as_i64() as i32 as i64),
        _ => panic!("reference interpreter: unknown numeric opcode {op:#x}"),
    })
}

/// (result type, width in bytes, signed) of a load opcode.
pub fn load_sig(op: u8) -> Option<(VT, u32, bool)> {
    Some(match op {
        0x28 => (VT::I32, 4, false),
        0x29 => (VT::I64, 8, false),
        0x2C => (VT::I32, 1, true),
        0x2D => (VT::I32, 1, false),
        0x2E => (VT::I32, 2, true),
        0x2F => (VT::I32, 2, false),
        0x30 => (VT::I64, 1, true),
        0x31 => (VT::I64, 1, false),
        0x32 => (VT::I64, 2, true),
        0x33 => (VT::I64, 2, false),
        0x34 => (VT::I64, 4, true),
        0x35 => (VT::I64, 4, false),
        _ => return None,
    })
}

/// (operand type, width in bytes) of a store opcode.
pub fn store_sig(op: u8) -> Option<(VT, u32)> {
    Some(match op {
        0x36 => (VT::I32, 4),
        0x37 => (VT::I64, 8),
        0x3A => (VT::I32, 1),
        0x3B => (VT::I32, 2),
        0x3C => (VT::I64, 1),
        0x3D => (VT::I64, 2),
        0x3E => (VT::I64, 4),
        _ => return None,
    })
}

pub fn all_load_ops() -> Vec<u8> { (0x28u8..=0x35).filter(|&o| load_sig(o).is_some()).collect() }

pub fn all_store_ops() -> Vec<u8> { (0x36u8..=0x3E).filter(|&o| store_sig(o).is_some()).collect() }

/// Memory load per the specification: effective address = base (u32) + offset, trap if
/// ea + width > |mem|.
pub fn mem_load(mem: &[u8], op: u8, base: i32, offset: u32) -> Result<Val, Trap> {
    let (ty, w, signed) = load_sig(op).expect("load opcode");
    let ea = base as u32 as u64 + offset as u64;
    if ea + w as u64 > mem.len() as u64 {
        return Err(Trap);
    }
    let ea = ea as usize;
    let mut raw = [0u8; 8];
    raw[..w as usize].copy_from_slice(&mem[ea..ea + w as usize]);
    let u = u64::from_le_bytes(raw);
    let v: i64 = if signed {
        match w {
            1 => u as u8 as i8 as i64,
            2 => u as u16 as i16 as i64,
            4 => u as u32 as i32 as i64,
            _ => u as i64,
        }
    } else {
        u as i64
    };
    Ok(match ty {
        VT::I32 => Val::I32(v as i32),
        VT::I64 => Val::I64(v),
    })
}

pub fn mem_store(mem: &mut [u8], op: u8, base: i32, offset: u32, v: Val) -> Result<(), Trap> {
    let (_, w) = store_sig(op).expect("store opcode");
    let ea = base as u32 as u64 + offset as u64;
    if ea + w as u64 > mem.len() as u64 {
        return Err(Trap);
    }
    let ea = ea as usize;
    let bytes = (v.bits() as u64).to_le_bytes();
    mem[ea..ea + w as usize].copy_from_slice(&bytes[..w as usize]);
    Ok(())
}
