//! A small Wasm 1.0 (integer subset + sign extension) AST and binary assembler.
//! Written from the binary-format chapter of the specification; shares no code
//! with `concordium-wasm`.

use serde_json::{json, Value as J};

#[derive(Clone, Copy, Debug, PartialEq, Eq, Hash, PartialOrd, Ord)]
pub enum VT {
    I32,
    I64,
}

impl VT {
    pub fn byte(self) -> u8 {
        match self {
            VT::I32 => 0x7F,
            VT::I64 => 0x7E,
        }
    }

    pub fn name(self) -> &'static str {
        match self {
            VT::I32 => "i32",
            VT::I64 => "i64",
        }
    }
}

#[derive(Clone, Copy, Debug, PartialEq, Eq, Hash)]
pub enum BT {
    Empty,
    Val(VT),
}

impl BT {
    pub fn arity(self) -> usize {
        match self {
            BT::Empty => 0,
            BT::Val(_) => 1,
        }
    }
}

#[derive(Clone, Debug, PartialEq, Eq, Hash)]
pub enum Instr {
    Unreachable,
    Nop,
    Block(BT),
    Loop(BT),
    If(BT),
    Else,
    End,
    Br(u32),
    BrIf(u32),
    BrTable(Vec<u32>, u32),
    Return,
    Call(u32),
    CallIndirect(u32),
    Drop,
    Select,
    LocalGet(u32),
    LocalSet(u32),
    LocalTee(u32),
    GlobalGet(u32),
    GlobalSet(u32),
    /// opcode 0x28..=0x35, align, offset
    Load(u8, u32, u32),
    /// opcode 0x36..=0x3E, align, offset
    Store(u8, u32, u32),
    MemorySize,
    MemoryGrow,
    I32Const(i32),
    I64Const(i64),
    /// numeric opcode 0x45..=0xC4 (integer ones)
    Num(u8),
    /// Raw bytes emitted verbatim (only used by the ill-formed generators of C09).
    Raw(Vec<u8>),
}

#[derive(Clone, Debug, PartialEq, Eq)]
pub struct FuncType {
    pub params: Vec<VT>,
    pub result: Option<VT>,
}

#[derive(Clone, Debug)]
pub struct Func {
    pub ty:     u32,
    /// declared locals (not parameters)
    pub locals: Vec<VT>,
    /// body WITHOUT the final `end`
    pub body:   Vec<Instr>,
}

#[derive(Clone, Debug)]
pub struct Global {
    pub ty:      VT,
    pub mutable: bool,
    pub init:    i64,
}

#[derive(Clone, Debug)]
pub struct Import {
    pub module: String,
    pub name:   String,
    pub ty:     u32,
}

#[derive(Clone, Debug)]
pub enum ExportKind {
    Func(u32),
    Table,
    Memory,
    Global(u32),
}

#[derive(Clone, Debug, Default)]
pub struct Module {
    pub types:   Vec<FuncType>,
    pub imports: Vec<Import>,
    pub funcs:   Vec<Func>,
    /// (min, max)
    pub table:   Option<(u32, Option<u32>)>,
    /// (min, max) in pages
    pub memory:  Option<(u32, Option<u32>)>,
    pub globals: Vec<Global>,
    pub exports: Vec<(String, ExportKind)>,
    /// element segments: (offset, function indices)
    pub elems:   Vec<(u32, Vec<u32>)>,
    /// data segments: (offset, bytes)
    pub data:    Vec<(u32, Vec<u8>)>,
}

impl Default for FuncType {
    fn default() -> Self { FuncType { params: vec![], result: None } }
}

pub fn leb_u(mut v: u64, out: &mut Vec<u8>) {
    loop {
        let b = (v & 0x7f) as u8;
        v >>= 7;
        if v == 0 {
            out.push(b);
            break;
        } else {
            out.push(b | 0x80);
        }
    }
}

pub fn leb_s(mut v: i64, out: &mut Vec<u8>) {
    loop {
        let b = (v & 0x7f) as u8;
        v >>= 7;
        let done = (v == 0 && b & 0x40 == 0) || (v == -1 && b & 0x40 != 0);
        if done {
            out.push(b);
            break;
        } else {
            out.push(b | 0x80);
        }
    }
}

fn name(s: &str, out: &mut Vec<u8>) {
    leb_u(s.len() as u64, out);
    out.extend_from_slice(s.as_bytes());
}

fn bt(b: BT, out: &mut Vec<u8>) {
    match b {
        BT::Empty => out.push(0x40),
        BT::Val(v) => out.push(v.byte()),
    }
}

pub fn encode_instr(i: &Instr, out: &mut Vec<u8>) {
    match i {
        Instr::Unreachable => out.push(0x00),
        Instr::Nop => out.push(0x01),
        Instr::Block(b) => {
            out.push(0x02);
            bt(*b, out)
        }
        Instr::Loop(b) => {
            out.push(0x03);
            bt(*b, out)
        }
        Instr::If(b) => {
            out.push(0x04);
            bt(*b, out)
        }
        Instr::Else => out.push(0x05),
        Instr::End => out.push(0x0B),
        Instr::Br(l) => {
            out.push(0x0C);
            leb_u(*l as u64, out)
        }
        Instr::BrIf(l) => {
            out.push(0x0D);
            leb_u(*l as u64, out)
        }
        Instr::BrTable(ls, d) => {
            out.push(0x0E);
            leb_u(ls.len() as u64, out);
            for l in ls {
                leb_u(*l as u64, out);
            }
            leb_u(*d as u64, out)
        }
        Instr::Return => out.push(0x0F),
        Instr::Call(f) => {
            out.push(0x10);
            leb_u(*f as u64, out)
        }
        Instr::CallIndirect(t) => {
            out.push(0x11);
            leb_u(*t as u64, out);
            out.push(0x00)
        }
        Instr::Drop => out.push(0x1A),
        Instr::Select => out.push(0x1B),
        Instr::LocalGet(l) => {
            out.push(0x20);
            leb_u(*l as u64, out)
        }
        Instr::LocalSet(l) => {
            out.push(0x21);
            leb_u(*l as u64, out)
        }
        Instr::LocalTee(l) => {
            out.push(0x22);
            leb_u(*l as u64, out)
        }
        Instr::GlobalGet(l) => {
            out.push(0x23);
            leb_u(*l as u64, out)
        }
        Instr::GlobalSet(l) => {
            out.push(0x24);
            leb_u(*l as u64, out)
        }
        Instr::Load(op, a, o) | Instr::Store(op, a, o) => {
            out.push(*op);
            leb_u(*a as u64, out);
            leb_u(*o as u64, out)
        }
        Instr::MemorySize => {
            out.push(0x3F);
            out.push(0x00)
        }
        Instr::MemoryGrow => {
            out.push(0x40);
            out.push(0x00)
        }
        Instr::I32Const(c) => {
            out.push(0x41);
            leb_s(*c as i64, out)
        }
        Instr::I64Const(c) => {
            out.push(0x42);
            leb_s(*c, out)
        }
        Instr::Num(op) => out.push(*op),
        Instr::Raw(b) => out.extend_from_slice(b),
    }
}

fn section(id: u8, body: Vec<u8>, out: &mut Vec<u8>) {
    out.push(id);
    leb_u(body.len() as u64, out);
    out.extend_from_slice(&body);
}

fn limits(min: u32, max: Option<u32>, out: &mut Vec<u8>) {
    match max {
        None => {
            out.push(0x00);
            leb_u(min as u64, out);
        }
        Some(m) => {
            out.push(0x01);
            leb_u(min as u64, out);
            leb_u(m as u64, out);
        }
    }
}

/// Group consecutive equal local types (the binary format's run-length encoding).
fn encode_locals(locals: &[VT], out: &mut Vec<u8>) {
    let mut groups: Vec<(u32, VT)> = vec![];
    for &l in locals {
        match groups.last_mut() {
            Some((n, t)) if *t == l => *n += 1,
            _ => groups.push((1, l)),
        }
    }
    leb_u(groups.len() as u64, out);
    for (n, t) in groups {
        leb_u(n as u64, out);
        out.push(t.byte());
    }
}

pub fn encode_body(f: &Func) -> Vec<u8> {
    let mut b = vec![];
    encode_locals(&f.locals, &mut b);
    for i in &f.body {
        encode_instr(i, &mut b);
    }
    b.push(0x0B);
    b
}

impl Module {
    pub fn encode(&self) -> Vec<u8> {
        let mut out = vec![0x00, 0x61, 0x73, 0x6D, 0x01, 0x00, 0x00, 0x00];
        if !self.types.is_empty() {
            let mut b = vec![];
            leb_u(self.types.len() as u64, &mut b);
            for t in &self.types {
                b.push(0x60);
                leb_u(t.params.len() as u64, &mut b);
                for p in &t.params {
                    b.push(p.byte());
                }
                match t.result {
                    None => b.push(0),
                    Some(r) => {
                        b.push(1);
                        b.push(r.byte())
                    }
                }
            }
            section(1, b, &mut out);
        }
        if !self.imports.is_empty() {
            let mut b = vec![];
            leb_u(self.imports.len() as u64, &mut b);
            for i in &self.imports {
                name(&i.module, &mut b);
                name(&i.name, &mut b);
                b.push(0x00);
                leb_u(i.ty as u64, &mut b);
            }
            section(2, b, &mut out);
        }
        if !self.funcs.is_empty() {
            let mut b = vec![];
            leb_u(self.funcs.len() as u64, &mut b);
            for f in &self.funcs {
                leb_u(f.ty as u64, &mut b);
            }
            section(3, b, &mut out);
        }
        if let Some((min, max)) = self.table {
            let mut b = vec![];
            leb_u(1, &mut b);
            b.push(0x70);
            limits(min, max, &mut b);
            section(4, b, &mut out);
        }
        if let Some((min, max)) = self.memory {
            let mut b = vec![];
            leb_u(1, &mut b);
            limits(min, max, &mut b);
            section(5, b, &mut out);
        }
        if !self.globals.is_empty() {
            let mut b = vec![];
            leb_u(self.globals.len() as u64, &mut b);
            for g in &self.globals {
                b.push(g.ty.byte());
                b.push(g.mutable as u8);
                match g.ty {
                    VT::I32 => {
                        b.push(0x41);
                        leb_s(g.init as i32 as i64, &mut b)
                    }
                    VT::I64 => {
                        b.push(0x42);
                        leb_s(g.init, &mut b)
                    }
                }
                b.push(0x0B);
            }
            section(6, b, &mut out);
        }
        if !self.exports.is_empty() {
            let mut b = vec![];
            leb_u(self.exports.len() as u64, &mut b);
            for (n, k) in &self.exports {
                name(n, &mut b);
                match k {
                    ExportKind::Func(i) => {
                        b.push(0);
                        leb_u(*i as u64, &mut b)
                    }
                    ExportKind::Table => {
                        b.push(1);
                        leb_u(0, &mut b)
                    }
                    ExportKind::Memory => {
                        b.push(2);
                        leb_u(0, &mut b)
                    }
                    ExportKind::Global(i) => {
                        b.push(3);
                        leb_u(*i as u64, &mut b)
                    }
                }
            }
            section(7, b, &mut out);
        }
        if !self.elems.is_empty() {
            let mut b = vec![];
            leb_u(self.elems.len() as u64, &mut b);
            for (off, fs) in &self.elems {
                leb_u(0, &mut b);
                b.push(0x41);
                leb_s(*off as i32 as i64, &mut b);
                b.push(0x0B);
                leb_u(fs.len() as u64, &mut b);
                for f in fs {
                    leb_u(*f as u64, &mut b);
                }
            }
            section(9, b, &mut out);
        }
        if !self.funcs.is_empty() {
            let mut b = vec![];
            leb_u(self.funcs.len() as u64, &mut b);
            for f in &self.funcs {
                let body = encode_body(f);
                leb_u(body.len() as u64, &mut b);
                b.extend_from_slice(&body);
            }
            section(10, b, &mut out);
        }
        if !self.data.is_empty() {
            let mut b = vec![];
            leb_u(self.data.len() as u64, &mut b);
            for (off, bytes) in &self.data {
                leb_u(0, &mut b);
                b.push(0x41);
                leb_s(*off as i32 as i64, &mut b);
                b.push(0x0B);
                leb_u(bytes.len() as u64, &mut b);
                b.extend_from_slice(bytes);
            }
            section(11, b, &mut out);
        }
        out
    }

    /// Type of function index `idx` (imports first).
    pub fn func_type(&self, idx: u32) -> Option<&FuncType> {
        let idx = idx as usize;
        let ti = if idx < self.imports.len() {
            self.imports[idx].ty
        } else {
            self.funcs.get(idx - self.imports.len())?.ty
        };
        self.types.get(ti as usize)
    }
}

pub fn num_name(op: u8) -> &'static str {
    match op {
        0x45 => "i32.eqz",
        0x46 => "i32.eq",
        0x47 => "i32.ne",
        0x48 => "i32.lt_s",
        0x49 => "i32.lt_u",
        0x4A => "i32.gt_s",
        0x4B => "i32.gt_u",
        0x4C => "i32.le_s",
        0x4D => "i32.le_u",
        0x4E => "i32.ge_s",
        0x4F => "i32.ge_u",
        0x50 => "i64.eqz",
        0x51 => "i64.eq",
        0x52 => "i64.ne",
        0x53 => "i64.lt_s",
        0x54 => "i64.lt_u",
        0x55 => "i64.gt_s",
        0x56 => "i64.gt_u",
        0x57 => "i64.le_s",
        0x58 => "i64.le_u",
        0x59 => "i64.ge_s",
        0x5A => "i64.ge_u",
        0x67 => "i32.clz",
        0x68 => "i32.ctz",
        0x69 => "i32.popcnt",
        0x6A => "i32.add",
        0x6B => "i32.sub",
        0x6C => "i32.mul",
        0x6D => "i32.div_s",
        0x6E => "i32.div_u",
        0x6F => "i32.rem_s",
        0x70 => "i32.rem_u",
        0x71 => "i32.and",
        0x72 => "i32.or",
        0x73 => "i32.xor",
        0x74 => "i32.shl",
        0x75 => "i32.shr_s",
        0x76 => "i32.shr_u",
        0x77 => "i32.rotl",
        0x78 => "i32.rotr",
        0x79 => "i64.clz",
        0x7A => "i64.ctz",
        0x7B => "i64.popcnt",
        0x7C => "i64.add",
        0x7D => "i64.sub",
        0x7E => "i64.mul",
        0x7F => "i64.div_s",
        0x80 => "i64.div_u",
        0x81 => "i64.rem_s",
        0x82 => "i64.rem_u",
        0x83 => "i64.and",
        0x84 => "i64.or",
        0x85 => "i64.xor",
        0x86 => "i64.shl",
        0x87 => "i64.shr_s",
        0x88 => "i64.shr_u",
        0x89 => "i64.rotl",
        0x8A => "i64.rotr",
        0xA7 => "i32.wrap_i64",
        0xAC => "i64.extend_i32_s",
        0xAD => "i64.extend_i32_u",
        0xC0 => "i32.extend8_s",
        0xC1 => "i32.extend16_s",
        0xC2 => "i64.extend8_s",
        0xC3 => "i64.extend16_s",
        0xC4 => "i64.extend32_s",
        _ => "num.?",
    }
}

pub fn mem_name(op: u8) -> &'static str {
    match op {
        0x28 => "i32.load",
        0x29 => "i64.load",
        0x2C => "i32.load8_s",
        0x2D => "i32.load8_u",
        0x2E => "i32.load16_s",
        0x2F => "i32.load16_u",
        0x30 => "i64.load8_s",
        0x31 => "i64.load8_u",
        0x32 => "i64.load16_s",
        0x33 => "i64.load16_u",
        0x34 => "i64.load32_s",
        0x35 => "i64.load32_u",
        0x36 => "i32.store",
        0x37 => "i64.store",
        0x3A => "i32.store8",
        0x3B => "i32.store16",
        0x3C => "i64.store8",
        0x3D => "i64.store16",
        0x3E => "i64.store32",
        _ => "mem.?",
    }
}

fn bt_str(b: &BT) -> String {
    match b {
        BT::Empty => String::new(),
        BT::Val(v) => format!(" (result {})", v.name()),
    }
}

pub fn instr_text(i: &Instr) -> String {
    match i {
        Instr::Unreachable => "unreachable".into(),
        Instr::Nop => "nop".into(),
        Instr::Block(b) => format!("block{}", bt_str(b)),
        Instr::Loop(b) => format!("loop{}", bt_str(b)),
        Instr::If(b) => format!("if{}", bt_str(b)),
        Instr::Else => "else".into(),
        Instr::End => "end".into(),
        Instr::Br(l) => format!("br {l}"),
        Instr::BrIf(l) => format!("br_if {l}"),
        Instr::BrTable(ls, d) => format!("br_table {:?} {d}", ls),
        Instr::Return => "return".into(),
        Instr::Call(f) => format!("call {f}"),
        Instr::CallIndirect(t) => format!("call_indirect (type {t})"),
        Instr::Drop => "drop".into(),
        Instr::Select => "select".into(),
        Instr::LocalGet(l) => format!("local.get {l}"),
        Instr::LocalSet(l) => format!("local.set {l}"),
        Instr::LocalTee(l) => format!("local.tee {l}"),
        Instr::GlobalGet(l) => format!("global.get {l}"),
        Instr::GlobalSet(l) => format!("global.set {l}"),
        Instr::Load(op, a, o) => format!("{} align={a} offset={o}", mem_name(*op)),
        Instr::Store(op, a, o) => format!("{} align={a} offset={o}", mem_name(*op)),
        Instr::MemorySize => "memory.size".into(),
        Instr::MemoryGrow => "memory.grow".into(),
        Instr::I32Const(c) => format!("i32.const {c}"),
        Instr::I64Const(c) => format!("i64.const {c}"),
        Instr::Num(op) => num_name(*op).into(),
        Instr::Raw(b) => format!("raw {}", mc_core::hex(b)),
    }
}

pub fn body_text(body: &[Instr]) -> String {
    body.iter().map(instr_text).collect::<Vec<_>>().join("; ")
}

// ---- JSON (for replay artefacts) ----

pub fn instr_to_json(i: &Instr) -> J {
    match i {
        Instr::Block(b) | Instr::Loop(b) | Instr::If(b) => {
            let k = match i {
                Instr::Block(_) => "block",
                Instr::Loop(_) => "loop",
                _ => "if",
            };
            let t = match b {
                BT::Empty => "",
                BT::Val(VT::I32) => "i32",
                BT::Val(VT::I64) => "i64",
            };
            json!([k, t])
        }
        Instr::Br(l) => json!(["br", l]),
        Instr::BrIf(l) => json!(["br_if", l]),
        Instr::BrTable(ls, d) => json!(["br_table", ls, d]),
        Instr::Call(f) => json!(["call", f]),
        Instr::CallIndirect(t) => json!(["call_indirect", t]),
        Instr::LocalGet(l) => json!(["local.get", l]),
        Instr::LocalSet(l) => json!(["local.set", l]),
        Instr::LocalTee(l) => json!(["local.tee", l]),
        Instr::GlobalGet(l) => json!(["global.get", l]),
        Instr::GlobalSet(l) => json!(["global.set", l]),
        Instr::Load(op, a, o) => json!(["load", op, a, o]),
        Instr::Store(op, a, o) => json!(["store", op, a, o]),
        Instr::I32Const(c) => json!(["i32.const", c]),
        Instr::I64Const(c) => json!(["i64.const", c]),
        Instr::Num(op) => json!(["num", op, num_name(*op)]),
        Instr::Raw(b) => json!(["raw", mc_core::hex(b)]),
        Instr::Unreachable => json!(["unreachable"]),
        Instr::Nop => json!(["nop"]),
        Instr::Else => json!(["else"]),
        Instr::End => json!(["end"]),
        Instr::Return => json!(["return"]),
        Instr::Drop => json!(["drop"]),
        Instr::Select => json!(["select"]),
        Instr::MemorySize => json!(["memory.size"]),
        Instr::MemoryGrow => json!(["memory.grow"]),
    }
}

pub fn instr_from_json(j: &J) -> Option<Instr> {
    let a = j.as_array()?;
    let k = a.first()?.as_str()?;
    let u = |i: usize| a.get(i).and_then(|x| x.as_u64()).map(|x| x as u32);
    let bt = |i: usize| match a.get(i).and_then(|x| x.as_str()) {
        Some("i32") => BT::Val(VT::I32),
        Some("i64") => BT::Val(VT::I64),
        _ => BT::Empty,
    };
    Some(match k {
        "block" => Instr::Block(bt(1)),
        "loop" => Instr::Loop(bt(1)),
        "if" => Instr::If(bt(1)),
        "br" => Instr::Br(u(1)?),
        "br_if" => Instr::BrIf(u(1)?),
        "br_table" => {
            Instr::BrTable(a.get(1)?.as_array()?.iter().filter_map(|x| x.as_u64().map(|x| x as u32)).collect(), u(2)?)
        }
        "call" => Instr::Call(u(1)?),
        "call_indirect" => Instr::CallIndirect(u(1)?),
        "local.get" => Instr::LocalGet(u(1)?),
        "local.set" => Instr::LocalSet(u(1)?),
        "local.tee" => Instr::LocalTee(u(1)?),
        "global.get" => Instr::GlobalGet(u(1)?),
        "global.set" => Instr::GlobalSet(u(1)?),
        "load" => Instr::Load(u(1)? as u8, u(2)?, u(3)?),
        "store" => Instr::Store(u(1)? as u8, u(2)?, u(3)?),
        "i32.const" => Instr::I32Const(a.get(1)?.as_i64()? as i32),
        "i64.const" => Instr::I64Const(a.get(1)?.as_i64()?),
        "num" => Instr::Num(u(1)? as u8),
        "raw" => Instr::Raw(hex_decode(a.get(1)?.as_str()?)?),
        "unreachable" => Instr::Unreachable,
        "nop" => Instr::Nop,
        "else" => Instr::Else,
        "end" => Instr::End,
        "return" => Instr::Return,
        "drop" => Instr::Drop,
        "select" => Instr::Select,
        "memory.size" => Instr::MemorySize,
        "memory.grow" => Instr::MemoryGrow,
        _ => return None,
    })
}

pub fn hex_decode(s: &str) -> Option<Vec<u8>> {
    if s.len() % 2 != 0 {
        return None;
    }
    (0..s.len()).step_by(2).map(|i| u8::from_str_radix(&s[i..i + 2], 16).ok()).collect()
}

pub fn body_to_json(b: &[Instr]) -> J { J::Array(b.iter().map(instr_to_json).collect()) }

pub fn body_from_json(j: &J) -> Option<Vec<Instr>> { j.as_array()?.iter().map(instr_from_json).collect() }
