//! C01, data dimension: every numeric and memory instruction on every operand tuple of a
//! boundary alphabet, as a one-instruction function, on the real engine vs. the
//! specification's numerics.

use crate::{
    ast::*,
    ops::{self, Val},
    real::{self, Build, RealOutcome, RecHost, VCfg},
    refint::{NoHost, RefMachine, Stop},
};
use mc_core::{Report, Tier};
use rayon::prelude::*;
use serde_json::json;

fn i32_alphabet() -> Vec<i32> {
    vec![0, 1, 2, -1, -2, i32::MIN, i32::MAX, 31, 32, 33, 0x80, 0x8000, 0xFFFF, 0x7F, -128, 63, 64, 65, i32::MIN + 1, 0x10000]
}

fn i64_alphabet() -> Vec<i64> {
    vec![
        0,
        1,
        2,
        -1,
        -2,
        i64::MIN,
        i64::MAX,
        31,
        32,
        33,
        63,
        64,
        65,
        0x80,
        0x8000,
        0xFFFF,
        0x8000_0000,
        0xFFFF_FFFF,
        0x1_0000_0000,
        i64::MIN + 1,
        i32::MIN as i64,
    ]
}

fn vals(t: VT) -> Vec<Val> {
    match t {
        VT::I32 => i32_alphabet().into_iter().map(Val::I32).collect(),
        VT::I64 => i64_alphabet().into_iter().map(Val::I64).collect(),
    }
}

fn const_of(v: Val) -> Instr {
    match v {
        Val::I32(x) => Instr::I32Const(x),
        Val::I64(x) => Instr::I64Const(x),
    }
}

struct Case {
    text:   String,
    module: Module,
    sign_ext: bool,
}

fn one_func_module(body: Vec<Instr>, result: VT, memory: bool) -> Module {
    let mut m = Module::default();
    m.types = vec![FuncType { params: vec![], result: Some(result) }];
    m.funcs = vec![Func { ty: 0, locals: vec![], body }];
    if memory {
        m.memory = Some((1, Some(1)));
        m.data = vec![(0, (1u8..=16).collect()), (65528, vec![0x81, 0x82, 0x83, 0x84, 0x85, 0x86, 0x87, 0x88])];
    }
    m.exports = vec![("f".into(), ExportKind::Func(0))];
    m
}

pub fn run(report: &Report, tier: Tier) {
    let mut cases: Vec<Case> = vec![];
    for op in ops::all_num_ops(true) {
        let (ps, r) = ops::num_sig(op, true).unwrap();
        let sign_ext = ops::num_sig(op, false).is_none();
        let tuples: Vec<Vec<Val>> = match ps.len() {
            1 => vals(ps[0]).into_iter().map(|v| vec![v]).collect(),
            _ => {
                let mut t = vec![];
                for a in vals(ps[0]) {
                    for b in vals(ps[1]) {
                        t.push(vec![a, b]);
                    }
                }
                t
            }
        };
        for t in tuples {
            let mut body: Vec<Instr> = t.iter().map(|v| const_of(*v)).collect();
            body.push(Instr::Num(op));
            cases.push(Case { text: body_text(&body), module: one_func_module(body, r, false), sign_ext });
        }
    }
    // memory instructions: addresses around the page end, offsets incl. u32::MAX
    let addrs: Vec<i32> = vec![0, 1, 3, 8, 65527, 65528, 65529, 65532, 65533, 65535, 65536, -1, i32::MIN, 0x7FFF_FFFF];
    let offsets: Vec<u32> = if tier == Tier::Quick { vec![0, 1, u32::MAX] } else { vec![0, 1, 7, 65528, 65535, 65536, u32::MAX] };
    for op in ops::all_load_ops() {
        let (t, _, _) = ops::load_sig(op).unwrap();
        for &a in &addrs {
            for &o in &offsets {
                let body = vec![Instr::I32Const(a), Instr::Load(op, 0, o)];
                cases.push(Case { text: body_text(&body), module: one_func_module(body, t, true), sign_ext: false });
            }
        }
    }
    for op in ops::all_store_ops() {
        let (t, _) = ops::store_sig(op).unwrap();
        let v = match t {
            VT::I32 => Instr::I32Const(0x8182_8384u32 as i32),
            VT::I64 => Instr::I64Const(0x8182_8384_8586_8788u64 as i64),
        };
        for &a in &addrs {
            for &o in &offsets {
                // store then read back the surrounding 8 bytes where possible; the final
                // memory is compared byte for byte anyway
                let body = vec![Instr::I32Const(a), v.clone(), Instr::Store(op, 0, o), Instr::I32Const(0)];
                cases.push(Case { text: body_text(&body), module: one_func_module(body, VT::I32, true), sign_ext: false });
            }
        }
    }
    let n = cases.len() as u64;
    let results: Vec<(u64, u64)> = cases
        .par_iter()
        .map(|c| {
            let bytes = c.module.encode();
            let mut runs = 0;
            let mut traps = 0;
            let builds: Vec<Build> = if c.sign_ext {
                vec![Build { vcfg: VCfg::V1, metering: None }, Build { vcfg: VCfg::V1, metering: Some(crate::cost::CostV::V1) }]
            } else {
                vec![
                    Build { vcfg: VCfg::V1, metering: None },
                    Build { vcfg: VCfg::V0, metering: None },
                    Build { vcfg: VCfg::V0, metering: Some(crate::cost::CostV::V0) },
                ]
            };
            let refm = RefMachine::new(&c.module, false);
            let refr = refm.run(0, &[], &mut NoHost);
            if matches!(refr.outcome, Err(Stop::Trap)) {
                traps += 1;
            }
            for b in builds {
                let wit = json!({"optable": c.text, "build": b.name()});
                let art = match real::instantiate(&bytes, b) {
                    Ok(a) => a,
                    Err(e) => {
                        report.violation("valid-module-rejected", wit, json!({"error": format!("{e:#}")}));
                        continue;
                    }
                };
                let mut host = RecHost::new(None, 8);
                host.record_ticks = false;
                let rr = real::run_real(&art, "f", &[], &mut host, 10_000);
                runs += 1;
                let same = match (&refr.outcome, &rr.outcome) {
                    (Ok(v), RealOutcome::Ok(w)) => v == w && rr.memory.as_ref() == Some(&refr.memory),
                    (Err(Stop::Trap), RealOutcome::Err(_)) => true,
                    _ => false,
                };
                if !same {
                    report.violation(
                        "instruction-semantics",
                        wit,
                        json!({"expected": format!("{:?}", refr.outcome), "observed": format!("{:?}", rr.outcome)}),
                    );
                }
            }
            if c.sign_ext {
                // the sign-extension operators must be rejected under V0
                let b = Build { vcfg: VCfg::V0, metering: None };
                if real::instantiate(&bytes, b).is_ok() {
                    report.violation("sign-extension-accepted-under-V0", json!({"optable": c.text}), json!({}));
                }
            }
            (runs, traps)
        })
        .collect();
    let runs: u64 = results.iter().map(|x| x.0).sum();
    let traps: u64 = results.iter().map(|x| x.1).sum();
    report.eval(n);
    report.transition(runs);
    report.trace(runs);
    report.nontrivial(n);
    report.set_extra("optable_cases", json!(n));
    report.set_extra("optable_trapping_cases", json!(traps));
    report.sample(json!({"optable_case": cases[cases.len() / 2].text}));
}
