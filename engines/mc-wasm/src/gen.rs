//! Module template and instruction alphabets for the bounded exhaustive program search.

use crate::ast::*;

#[derive(Clone, Copy, Debug, PartialEq, Eq, Hash)]
pub struct Shape {
    /// result type of the function under test `f(i32,i32)`
    pub ret:   Option<VT>,
    /// import env.h0 ()->() and env.h1 (i32)->i32 and env.h2 (i32,i64)->i64
    pub hosts: bool,
    /// index into the layouts of additional locals of `f` and `g` (0: none), see `extra_locals`
    pub extra: u8,
}

/// Layouts of declared locals beyond the ones the alphabets refer to: (appended to f's
/// `i32 i64`, appended to g's `i32`). The binary format declares locals in runs of equal
/// type, so these give functions whose number of runs differs from their number of locals,
/// around the multiples of 16 the V1 schedule charges by.
pub fn extra_locals(extra: u8) -> (Vec<VT>, Vec<VT>) {
    match extra {
        0 => (vec![], vec![]),
        1 => (vec![VT::I64], vec![VT::I32]),
        2 => (vec![VT::I64; 13], vec![VT::I32; 14]),
        3 => (vec![VT::I64; 14], vec![VT::I32; 15]),
        4 => (vec![VT::I64; 15], vec![VT::I32; 16]),
        5 => (vec![VT::I32; 30], vec![VT::I64; 31]),
        6 => ((0..16).map(|i| if i % 2 == 0 { VT::I32 } else { VT::I64 }).collect(), (0..17).map(|i| if i % 2 == 0 { VT::I64 } else { VT::I32 }).collect()),
        _ => (vec![VT::I64; 200], vec![VT::I32; 100]),
    }
}
pub const N_EXTRA: u8 = 7;

impl Shape {
    pub fn nimports(&self) -> u32 {
        if self.hosts {
            3
        } else {
            0
        }
    }

    pub fn f(&self) -> u32 { self.nimports() }

    pub fn g(&self) -> u32 { self.nimports() + 1 }

    pub fn h(&self) -> u32 { self.nimports() + 2 }

    pub fn w(&self) -> u32 { self.nimports() + 3 }

    pub fn w1(&self) -> u32 { self.nimports() + 4 }

    pub fn name(&self) -> String {
        format!("ret={}{}{}", self.ret.map(|v| v.name()).unwrap_or("()"), if self.hosts { "+hosts" } else { "" }, if self.extra != 0 { format!("+locals{}", self.extra) } else { String::new() })
    }
}

pub const T_F: u32 = 0;
pub const T_G: u32 = 1;
pub const T_H: u32 = 2;
pub const T_W: u32 = 3;
pub const T_H2: u32 = 4;

pub fn uses_memory(body: &[Instr]) -> bool {
    body.iter().any(|i| matches!(i, Instr::Load(..) | Instr::Store(..) | Instr::MemorySize | Instr::MemoryGrow))
}

pub fn writes_g1(body: &[Instr]) -> bool { body.iter().any(|i| matches!(i, Instr::GlobalSet(1))) }

/// Build the module around the function body under test.
pub fn template(body: &[Instr], shape: Shape, force_memory: bool) -> Module {
    let mut m = Module::default();
    m.types = vec![
        FuncType { params: vec![VT::I32, VT::I32], result: shape.ret },
        FuncType { params: vec![VT::I32], result: Some(VT::I32) },
        FuncType { params: vec![], result: None },
        FuncType { params: vec![VT::I32, VT::I32], result: Some(VT::I64) },
        FuncType { params: vec![VT::I32, VT::I64], result: Some(VT::I64) },
    ];
    if shape.hosts {
        m.imports = vec![
            Import { module: "env".into(), name: "h0".into(), ty: T_H },
            Import { module: "env".into(), name: "h1".into(), ty: T_G },
            Import { module: "env".into(), name: "h2".into(), ty: T_H2 },
        ];
    }
    let (fx, gx) = extra_locals(shape.extra);
    let f = Func { ty: T_F, locals: [vec![VT::I32, VT::I64], fx].concat(), body: body.to_vec() };
    let g = Func {
        ty:     T_G,
        locals: [vec![VT::I32], gx].concat(),
        body:   vec![Instr::LocalGet(0), Instr::LocalTee(1), Instr::I32Const(1), Instr::Num(0x6A)],
    };
    let h = Func {
        ty:     T_H,
        locals: vec![],
        body:   vec![Instr::GlobalGet(0), Instr::I32Const(1), Instr::Num(0x6A), Instr::GlobalSet(0)],
    };
    // wrapper: calls f as a callee and packs its result with global 0
    // (a sibling call first, so that the register slots f's frame will occupy are dirty)
    let mut wb = vec![
        Instr::I32Const(0x1234_5678),
        Instr::Call(shape.g()),
        Instr::Drop,
        Instr::LocalGet(0),
        Instr::LocalGet(1),
        Instr::Call(shape.f()),
    ];
    match shape.ret {
        Some(VT::I32) => wb.extend([
            Instr::Num(0xAD),
            Instr::I64Const(32),
            Instr::Num(0x86),
            Instr::GlobalGet(0),
            Instr::Num(0xAD),
            Instr::Num(0x84),
        ]),
        Some(VT::I64) => wb.extend([Instr::GlobalGet(0), Instr::Num(0xAD), Instr::I64Const(40), Instr::Num(0x89), Instr::Num(0x85)]),
        None => wb.extend([Instr::GlobalGet(0), Instr::Num(0xAD)]),
    }
    let w = Func { ty: T_W, locals: vec![], body: wb };
    let mut w1b = vec![Instr::LocalGet(0), Instr::LocalGet(1), Instr::Call(shape.f())];
    if shape.ret.is_some() {
        w1b.push(Instr::Drop);
    }
    w1b.push(Instr::GlobalGet(1));
    let w1 = Func { ty: T_W, locals: vec![], body: w1b };
    m.funcs = vec![f, g, h, w, w1];
    if shape.hosts {
        // imported functions are reachable through the table as well: slot 2 = env.h1
        // (same type as g), slot 3 = env.h0
        m.table = Some((4, Some(4)));
        m.elems = vec![(0, vec![shape.g(), shape.h(), 1, 0])];
    } else {
        m.table = Some((2, Some(2)));
        m.elems = vec![(0, vec![shape.g(), shape.h()])];
    }
    if force_memory || uses_memory(body) {
        m.memory = Some((1, Some(2)));
        m.data = vec![(0, vec![1, 2, 3, 4, 5, 6, 7, 8])];
    }
    m.globals = vec![Global { ty: VT::I32, mutable: true, init: 3 }, Global { ty: VT::I64, mutable: true, init: 4 }];
    m.exports = vec![
        ("f".into(), ExportKind::Func(shape.f())),
        ("w".into(), ExportKind::Func(shape.w())),
        ("w1".into(), ExportKind::Func(shape.w1())),
    ];
    m
}

#[derive(Clone, Copy, Debug, PartialEq, Eq)]
pub enum AlphabetKind {
    /// control flow, locals, a few arithmetic ops: where the compiler's shortcuts live
    Core,
    /// Core + globals, calls, i64, select, br_table
    Wide,
    /// Wide + memory instructions
    Memory,
    /// Core + host calls (C13 interrupts, C02 charge-before-work checkpoints)
    Hosts,
}

/// The instruction alphabet, simplest first.
pub fn alphabet(kind: AlphabetKind, shape: Shape) -> Vec<Instr> {
    use Instr::*;
    let mut a = vec![
        LocalGet(0),
        LocalGet(1),
        I32Const(5),
        LocalSet(0),
        LocalTee(0),
        Num(0x6A), // i32.add
        Num(0x6B), // i32.sub
        Drop,
        Block(BT::Empty),
        Block(BT::Val(VT::I32)),
        If(BT::Empty),
        If(BT::Val(VT::I32)),
        Else,
        End,
        Br(0),
        BrIf(0),
        Br(1),
        BrIf(1),
        Loop(BT::Empty),
        Return,
        LocalGet(2),
        LocalSet(2),
    ];
    if kind == AlphabetKind::Core {
        return a;
    }
    if kind == AlphabetKind::Hosts {
        // direct host calls, a local call, and indirect calls (table slot 2 is the imported
        // env.h1, slot 0 the local g, slot 3 has another type, >= 4 is out of bounds)
        a.extend([Call(0), Call(1), Call(shape.g()), I32Const(2), CallIndirect(T_G)]);
        return a;
    }
    a.extend([
        Num(0x45), // i32.eqz
        Select,
        BrTable(vec![0, 1], 0),
        Call(shape.g()),
        Call(shape.h()),
        GlobalGet(0),
        GlobalSet(0),
        LocalTee(2),
        Unreachable,
        Nop,
        I64Const(7),
        LocalGet(3),
        LocalSet(3),
        Num(0x7C), // i64.add
        Num(0xA7), // i32.wrap_i64
        Num(0xAD), // i64.extend_i32_u
        Block(BT::Val(VT::I64)),
        CallIndirect(T_G),
        Call(shape.f()),
        GlobalSet(1),
        Loop(BT::Val(VT::I32)),
        Num(0x6D), // i32.div_s (can trap)
    ]);
    if kind == AlphabetKind::Memory {
        a.extend([
            Load(0x28, 2, 0),  // i32.load
            Store(0x36, 2, 0), // i32.store
            MemoryGrow,
            MemorySize,
            Load(0x2C, 0, 65533), // i32.load8_s with a large offset
            Store(0x37, 3, 4),    // i64.store
        ]);
    }
    a
}
