//! Module-structure layer: a few fixed bodies that observe memory, table and globals, over a
//! grid of module structures the body search keeps fixed -- sequences of (overlapping, zero
//! tailed, empty, end-of-memory) data segments, sequences of (overlapping) element segments,
//! global initialisers at the boundaries.
use crate::{
    ast::*,
    check::{check_module, Cfg, Stats},
    gen::{self, Shape},
};
use mc_core::{Report, Tier};
use rayon::prelude::*;
use serde_json::json;

fn sequences<T: Clone>(alpha: &[T], max_len: usize) -> Vec<Vec<T>> {
    let mut out: Vec<Vec<T>> = vec![vec![]];
    let mut level: Vec<Vec<T>> = vec![vec![]];
    for _ in 0..max_len {
        let mut next = vec![];
        for p in &level {
            for a in alpha {
                let mut q = p.clone();
                q.push(a.clone());
                next.push(q);
            }
        }
        out.extend(next.iter().cloned());
        level = next;
    }
    out
}

/// Memory limits and calls of functions with up to 7 parameters (all properties of the engine).
/// `run_common` in a child process: a crash there (the code under test reading or writing outside
/// a memory after a broken bounds check) is reported as a violation with the last module started.
pub fn run_common_guarded(report: &Report, tier: Tier) {
    match mc_core::run_part_in_child(&report.property, tier, "structure-common") {
        Ok(j) => report.merge_embedded("memory and call grid", &j),
        Err((status, last)) => {
            report.eval(1);
            report.violation("engine-crashed-executing-an-accepted-module", json!({"part": "memory-limit and call-arity grid", "last_module_started": last}), json!({"child_status": status}));
        }
    }
}

pub fn run_common(cfg: &Cfg, report: &Report, _tier: Tier) {
    let shape = Shape { ret: Some(VT::I32), hosts: false, extra: 0 };
    let mut st = Stats::default();
    // ---- memory limits: growth up to the declared (or the protocol) maximum ------------------
    let limits: Vec<(u32, Option<u32>)> = vec![(0, None), (0, Some(0)), (0, Some(1)), (1, Some(1)), (1, None), (1, Some(3)), (2, Some(2)), (2, Some(3))];
    let bodies: Vec<Vec<Instr>> = vec![
        vec![Instr::MemorySize],
        vec![Instr::LocalGet(0), Instr::MemoryGrow],
        vec![Instr::LocalGet(0), Instr::MemoryGrow, Instr::Drop, Instr::MemorySize],
        vec![Instr::LocalGet(0), Instr::MemoryGrow, Instr::Drop, Instr::LocalGet(1), Instr::MemoryGrow, Instr::I32Const(16), Instr::Num(0x74), Instr::MemorySize, Instr::Num(0x6A)],
        vec![Instr::LocalGet(1), Instr::MemoryGrow, Instr::Drop, Instr::LocalGet(0), Instr::I32Const(7), Instr::Store(0x36, 2, 0), Instr::LocalGet(0), Instr::Load(0x28, 2, 0)],
        // loads of every width with nothing before them (on an empty memory every one must trap)
        vec![Instr::LocalGet(0), Instr::Load(0x28, 2, 0)],
        vec![Instr::LocalGet(0), Instr::Load(0x29, 3, 0), Instr::Num(0xA7)],
        vec![Instr::LocalGet(0), Instr::Load(0x2C, 0, 0)],
        vec![Instr::LocalGet(0), Instr::Load(0x2E, 1, 0)],
        vec![Instr::LocalGet(0), Instr::Load(0x2F, 1, 0)],
        vec![Instr::LocalGet(0), Instr::Load(0x35, 2, 0), Instr::Num(0xA7)],
        vec![Instr::LocalGet(0), Instr::Load(0x28, 2, 65532)],
        vec![Instr::LocalGet(1), Instr::MemoryGrow, Instr::Drop, Instr::LocalGet(0), Instr::Load(0x29, 3, 0), Instr::Num(0xA7)],
        // stores of every width likewise
        vec![Instr::LocalGet(0), Instr::I32Const(-1), Instr::Store(0x3A, 0, 0), Instr::MemorySize],
        vec![Instr::LocalGet(0), Instr::I32Const(-1), Instr::Store(0x3B, 1, 0), Instr::MemorySize],
        vec![Instr::LocalGet(0), Instr::I64Const(-1), Instr::Store(0x37, 3, 0), Instr::MemorySize],
    ];
    let mut cfg_m = cfg.clone();
    cfg_m.args_memory = vec![(0, 0), (1, 0), (1, 1), (2, 1), (3, 0), (-1, 1), (65532, 1), (65533, 0), (131068, 2), (0x10000, 0), (0, 0x10000), (33, 0)];
    let mut n_mem = 0;
    for (min, max) in &limits {
        for body in &bodies {
            let mut m = gen::template(body, shape, true);
            m.memory = Some((*min, *max));
            m.data = if *min > 0 { vec![(0, vec![1, 2, 3, 4, 5, 6, 7, 8])] } else { vec![] };
            let s = json!({"memory_limits": [min, max]});
            if mc_core::is_embedded() {
                eprintln!("CASE {}", json!({"structure": s, "body": crate::ast::body_text(body)}));
            }
            check_module(&cfg_m, report, &mut st, shape, body, &m, Some(&s));
            n_mem += 1;
        }
    }
    // ---- callees with 0..7 parameters: argument passing and the per-argument call charge ------
    let mut n_call = 0;
    for n in 0..=7usize {
        for pattern in 0..3 {
            let params: Vec<VT> = (0..n).map(|i| match pattern { 0 => VT::I32, 1 => VT::I64, _ => if i % 2 == 0 { VT::I32 } else { VT::I64 } }).collect();
            for extra_locals in [0usize, 3] {
                for via_table in [false, true] {
                    // callee: sum of (i + 1) * p_i in 64 bits
                    let mut kb = vec![Instr::I64Const(0)];
                    for (i, t) in params.iter().enumerate() {
                        kb.push(Instr::LocalGet(i as u32));
                        if *t == VT::I32 {
                            kb.push(Instr::Num(0xAC)); // i64.extend_i32_s
                        }
                        kb.extend([Instr::I64Const(i as i64 + 1), Instr::Num(0x7E), Instr::Num(0x7C)]);
                    }
                    // caller: arguments from its own two parameters and constants
                    let mut body = vec![];
                    for (i, t) in params.iter().enumerate() {
                        match (i % 3, t) {
                            (0, VT::I32) => body.push(Instr::LocalGet(0)),
                            (1, VT::I32) => body.push(Instr::LocalGet(1)),
                            (_, VT::I32) => body.push(Instr::I32Const(-(i as i32) - 1)),
                            (0, VT::I64) => body.extend([Instr::LocalGet(1), Instr::Num(0xAD)]),
                            (1, VT::I64) => body.extend([Instr::LocalGet(0), Instr::Num(0xAC)]),
                            (_, VT::I64) => body.push(Instr::I64Const(i64::MIN + i as i64)),
                        }
                    }
                    let mut m = gen::template(&[], shape, false);
                    let kty = m.types.len() as u32;
                    m.types.push(FuncType { params: params.clone(), result: Some(VT::I64) });
                    let kidx = shape.nimports() + m.funcs.len() as u32;
                    m.funcs.push(Func { ty: kty, locals: vec![VT::I64; extra_locals], body: kb });
                    if via_table {
                        m.table = Some((3, Some(3)));
                        m.elems = vec![(0, vec![shape.g(), shape.h(), kidx])];
                        body.extend([Instr::I32Const(2), Instr::CallIndirect(kty)]);
                    } else {
                        body.push(Instr::Call(kidx));
                    }
                    // fold the 64-bit result into 32 bits
                    body.extend([Instr::LocalTee(3), Instr::Num(0xA7), Instr::LocalGet(3), Instr::I64Const(32), Instr::Num(0x88), Instr::Num(0xA7), Instr::Num(0x73)]);
                    m.funcs[0].body = body.clone();
                    let s = json!({"callee_parameters": params.iter().map(|t| t.name()).collect::<Vec<_>>(), "callee_extra_locals": extra_locals, "via_table": via_table});
                    check_module(cfg, report, &mut st, shape, &body, &m, Some(&s));
                    n_call += 1;
                }
            }
        }
    }
    st.merge_into(report);
    report.set_extra("module_structure_common_cases", json!({"memory_limit_programs": n_mem, "call_arity_programs": n_call}));
}

pub fn run(cfg: &Cfg, report: &Report, tier: Tier) {
    let quick = tier == Tier::Quick;
    let shape = Shape { ret: Some(VT::I32), hosts: false, extra: 0 };
    // ---- data segments ---------------------------------------------------------------------
    let contents: Vec<Vec<u8>> = vec![vec![], vec![0], vec![9, 0, 0], vec![1, 2, 3, 4, 5, 6, 7, 8], vec![0, 0, 5], vec![0, 0, 0], vec![0xAB; 70]];
    let offsets: Vec<u32> = vec![0, 2, 6, 64, 65533];
    let mut segs: Vec<(u32, Vec<u8>)> = vec![];
    for o in &offsets {
        for c in &contents {
            if *o as usize + c.len() <= 65536 {
                segs.push((*o, c.clone()));
            }
        }
    }
    let data_cases = sequences(&segs, if quick { 2 } else { 3 });
    // the bodies read where the segments overlap; the whole final memory is compared anyway
    let bodies: Vec<Vec<Instr>> = vec![
        vec![Instr::LocalGet(0), Instr::Load(0x28, 2, 0)],
        vec![Instr::LocalGet(0), Instr::Load(0x29, 3, 2), Instr::Num(0xA7), Instr::LocalGet(1), Instr::Load(0x2D, 0, 65533), Instr::Num(0x6A)],
    ];
    let n_data = data_cases.len() * bodies.len();
    let stats: Vec<Stats> = data_cases
        .par_iter()
        .map(|data| {
            let mut st = Stats::default();
            for body in &bodies {
                let mut m = gen::template(body, shape, true);
                m.data = data.clone();
                let s = json!({"data_segments": data.iter().map(|(o, c)| json!({"offset": o, "bytes": hex(c)})).collect::<Vec<_>>()});
                check_module(cfg, report, &mut st, shape, body, &m, Some(&s));
            }
            st
        })
        .collect();
    for st in &stats {
        st.merge_into(report);
    }
    // ---- element segments ------------------------------------------------------------------
    // table of 4; functions: g (i32)->i32, h ()->(), f itself (i32,i32)->i32
    let (g, h, f) = (shape.g(), shape.h(), shape.f());
    let elem_contents: Vec<Vec<u32>> = vec![vec![], vec![g], vec![h], vec![g, h], vec![h, g, g], vec![f, g], vec![g, g, g, g]];
    let mut esegs: Vec<(u32, Vec<u32>)> = vec![];
    for o in 0..4u32 {
        for c in &elem_contents {
            if o as usize + c.len() <= 4 {
                esegs.push((o, c.clone()));
            }
        }
    }
    let elem_cases = sequences(&esegs, if quick { 2 } else { 3 });
    let ebodies: Vec<Vec<Instr>> = vec![
        // g's type through the table at index arg1
        vec![Instr::LocalGet(0), Instr::LocalGet(1), Instr::CallIndirect(gen::T_G)],
        // h's type at index arg0, then the global it counts in
        vec![Instr::LocalGet(0), Instr::CallIndirect(gen::T_H), Instr::GlobalGet(0)],
    ];
    let n_elem = elem_cases.len() * ebodies.len();
    let mut cfg_e = cfg.clone();
    cfg_e.args = vec![(0, 0), (1, 1), (2, 2), (3, 3), (7, 4), (-1, -1), (5, 0), (0, 3)];
    let stats: Vec<Stats> = elem_cases
        .par_iter()
        .map(|elems| {
            let mut st = Stats::default();
            for body in &ebodies {
                let mut m = gen::template(body, shape, false);
                m.table = Some((4, Some(4)));
                m.elems = elems.clone();
                let s = json!({"element_segments": elems.iter().map(|(o, c)| json!({"offset": o, "functions": c})).collect::<Vec<_>>()});
                check_module(&cfg_e, report, &mut st, shape, body, &m, Some(&s));
            }
            st
        })
        .collect();
    for st in &stats {
        st.merge_into(report);
    }
    // ---- global initialisers ---------------------------------------------------------------
    let i32s = [0i64, 1, -1, i32::MIN as i64, i32::MAX as i64, 0x1234_5678];
    let i64s = [0i64, 1, -1, i64::MIN, i64::MAX, 0x1234_5678_9ABC_DEF0];
    let gbodies: Vec<Vec<Instr>> = vec![vec![Instr::GlobalGet(0)], vec![Instr::GlobalGet(1), Instr::Num(0xA7), Instr::GlobalGet(1), Instr::I64Const(32), Instr::Num(0x88), Instr::Num(0xA7), Instr::Num(0x73)]];
    let mut st = Stats::default();
    let mut n_glob = 0;
    for a in i32s {
        for b in i64s {
            for body in &gbodies {
                let mut m = gen::template(body, shape, false);
                m.globals[0].init = a;
                m.globals[1].init = b;
                let s = json!({"global_initialisers": [a, b]});
                check_module(cfg, report, &mut st, shape, body, &m, Some(&s));
                n_glob += 1;
            }
        }
    }
    st.merge_into(report);
    report.set_extra("module_structure_cases", json!({"data_segment_sequences": n_data, "element_segment_sequences": n_elem, "global_initialisers": n_glob}));
}

fn hex(b: &[u8]) -> String { b.iter().map(|x| format!("{x:02x}")).collect() }
