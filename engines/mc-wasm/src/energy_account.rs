//! C02, the account the host keeps: `InterpreterEnergy::tick_energy` and `charge_memory_alloc` of the real
//! engine on every (amount, budget) pair of a boundary grid. The documented rule: a charge of `a` against a
//! budget `b` leaves `b - a` when `b >= a`, and otherwise ends the run out of energy with nothing left; a
//! memory allocation of `n` pages is charged `n` times the pinned per-page factor (100) - for every `n` a
//! contract can ask for, i.e. the whole `u32` range, not only the sizes that can succeed.

use concordium_smart_contract_engine::InterpreterEnergy;
use mc_core::Report;
use serde_json::json;

/// Pinned: cost of one page relative to execution cost (consensus data; `constants::MEMORY_COST_FACTOR`).
const PAGE_FACTOR: u64 = 100;

pub fn run(report: &Report) {
    let amounts: Vec<u64> = vec![0, 1, 2, 99, 100, 101, (1 << 32) - 1, 1 << 32, (1 << 32) + 1, 1 << 63, u64::MAX - 1, u64::MAX];
    let budgets = |a: u64| -> Vec<u64> {
        let mut v = vec![0, 1, a.saturating_sub(1), a, a.saturating_add(1), a.saturating_add(1000), u64::MAX];
        v.sort();
        v.dedup();
        v
    };
    let mut n = 0u64;
    let mut check = |what: &str, arg: u64, a: u64, b: u64, run: &dyn Fn(&mut InterpreterEnergy) -> bool| {
        n += 1;
        let wit = json!({"energy_account": what, "argument": arg.to_string(), "budget": b.to_string()});
        let r = mc_core::catch(|| {
            let mut e = InterpreterEnergy::new(b);
            let ok = run(&mut e);
            (ok, e.energy)
        });
        match r {
            Err(p) => report.violation("panic", wit, json!({"panic": p})),
            Ok((ok, left)) => {
                let (want_ok, want_left) = if b >= a { (true, b - a) } else { (false, 0) };
                if ok != want_ok || left != want_left {
                    report.violation("energy-account-differs-from-schedule", wit, json!({"charge": a.to_string(), "expected": {"completed": want_ok, "left": want_left.to_string()}, "observed": {"completed": ok, "left": left.to_string()}}));
                }
            }
        }
    };
    for &a in &amounts {
        for b in budgets(a) {
            check("tick_energy", a, a, b, &|e| e.tick_energy(a).is_ok());
        }
    }
    let pages: Vec<u32> = vec![0, 1, 2, 31, 32, 33, 511, 512, 513, 65535, 65536, 65537, 42_949_672, 42_949_673, 42_949_674, 1 << 30, (1 << 31) - 1, 1 << 31, (1 << 31) + 1, u32::MAX - 1, u32::MAX];
    for &p in &pages {
        let a = p as u64 * PAGE_FACTOR;
        for b in budgets(a) {
            check("charge_memory_alloc", p as u64, a, b, &|e| e.charge_memory_alloc(p).is_ok());
        }
        // two allocations in a row add up
        for b in budgets(2 * a) {
            check("charge_memory_alloc twice", p as u64, 2 * a, b, &|e| e.charge_memory_alloc(p).is_ok() && e.charge_memory_alloc(p).is_ok());
        }
    }
    report.eval(n);
    report.transition(n);
    report.trace(n);
    report.set_extra("energy_account_cases", json!(n));
}
