//! C19: BLS aggregate signatures, ECVRF, Pointcheval-Sanders signatures.

use crate::util::*;
use concordium_base::{
    aggregate_sig as agg,
    common::{from_bytes, to_bytes},
    curve_arithmetic::{Curve, Field, Pairing},
    ecvrf,
    id::constants::IpPairing,
    ps_sig,
    random_oracle::RandomOracle,
};
use mc_core::{Cli, Report, Tier};
use rayon::prelude::*;
use serde_json::json;
use std::collections::BTreeSet;

type P = IpPairing;

fn messages() -> Vec<Vec<u8>> { vec![vec![], b"a".to_vec(), b"b".to_vec(), vec![0x5A; 1024]] }

fn bls(report: &Report, cli: &Cli) {
    let nkeys = 3;
    let sks: Vec<agg::SecretKey<P>> = (0..nkeys).map(|i| agg::SecretKey::<P>::generate(&mut rng(cli.seed, 100 + i))).collect();
    let pks: Vec<agg::PublicKey<P>> = sks.iter().map(agg::PublicKey::from_secret).collect();
    let msgs = messages();
    // (1) all (signing key, signed message, verifying key, verified message) tuples
    let sigs: Vec<Vec<agg::Signature<P>>> = sks.iter().map(|sk| msgs.iter().map(|m| sk.sign(m)).collect()).collect();
    let mut tuples = vec![];
    for k in 0..nkeys as usize {
        for m in 0..msgs.len() {
            for k2 in 0..nkeys as usize {
                for m2 in 0..msgs.len() {
                    tuples.push((k, m, k2, m2));
                }
            }
        }
    }
    tuples.par_iter().for_each(|&(k, m, k2, m2)| {
        case(report, json!({"bls_verify": {"signed_by": k, "signed_msg": m, "verify_key": k2, "verify_msg": m2}}), || {
            let got = pks[k2].verify(&msgs[m2], sigs[k][m]);
            let want = k == k2 && m == m2;
            report.trace(1);
            if got != want {
                return fail(if want { "valid-signature-rejected" } else { "signature-verifies-for-other-key-or-message" }, json!({"got": got}));
            }
            Ok(())
        });
    });
    // signing is deterministic
    case(report, json!({"bls": "deterministic"}), || {
        if sks[0].sign(b"a") != sks[0].sign(b"a") {
            return fail("signing-not-deterministic", json!({}));
        }
        Ok(())
    });
    // single-bit flips of a signature and of a public key
    let sig_bytes = to_bytes(&sigs[0][1]);
    let nflips = if cli.tier == Tier::Quick { 96 } else { sig_bytes.len() * 8 };
    (0..nflips).into_par_iter().for_each(|bit| {
        case(report, json!({"bls_signature_flip": bit}), || {
            if let Ok(s) = from_bytes::<agg::Signature<P>, _>(&mut &flip(&sig_bytes, bit)[..]) {
                report.trace(1);
                if s != sigs[0][1] && pks[0].verify(&msgs[1], s) {
                    return fail("altered-signature-verifies", json!({}));
                }
            }
            Ok(())
        });
    });
    let pk_bytes = to_bytes(&pks[0]);
    let nflips = if cli.tier == Tier::Quick { 96 } else { pk_bytes.len() * 8 };
    (0..nflips).into_par_iter().for_each(|bit| {
        case(report, json!({"bls_key_flip": bit}), || {
            if let Ok(k) = from_bytes::<agg::PublicKey<P>, _>(&mut &flip(&pk_bytes, bit)[..]) {
                report.trace(1);
                if k != pks[0] && k.verify(&msgs[1], sigs[0][1]) {
                    return fail("signature-verifies-under-altered-key", json!({}));
                }
            }
            Ok(())
        });
    });

    // (2) aggregates over all multisets of <= 4 (key, message) pairs from the 3x3 grid
    let grid: Vec<(usize, usize)> = (0..3).flat_map(|k| (0..3).map(move |m| (k, m))).collect();
    let maxn = if cli.tier == Tier::Quick { 3 } else { 4 };
    let mut multisets: Vec<Vec<usize>> = vec![vec![]];
    fn gen(start: usize, cur: &mut Vec<usize>, n: usize, maxn: usize, out: &mut Vec<Vec<usize>>) {
        if cur.len() == maxn {
            return;
        }
        for i in start..n {
            cur.push(i);
            out.push(cur.clone());
            gen(i, cur, n, maxn, out);
            cur.pop();
        }
    }
    gen(0, &mut vec![], grid.len(), maxn, &mut multisets);
    let aggregate = |ms: &Vec<usize>| -> agg::Signature<P> { ms.iter().fold(agg::Signature::<P>::empty(), |acc, &i| acc.aggregate(sigs[grid[i].0][grid[i].1])) };
    let by_size: Vec<Vec<&Vec<usize>>> = (0..=maxn).map(|n| multisets.iter().filter(|m| m.len() == n).collect()).collect();
    multisets.par_iter().for_each(|built| {
        let sig = aggregate(built);
        // verify against every multiset of the same size (quick: against a window of them)
        let others = &by_size[built.len()];
        for claimed in others.iter() {
            if cli.tier == Tier::Quick && built.len() == 3 && (claimed[0] + built[0]) % 3 != 0 && *claimed != built {
                continue;
            }
            let wit = json!({"bls_aggregate": {"built_from": built.iter().map(|&i| grid[i]).collect::<Vec<_>>(), "verified_against": claimed.iter().map(|&i| grid[i]).collect::<Vec<_>>()}});
            case(report, wit, || {
                let pairs: Vec<(&[u8], agg::PublicKey<P>)> = claimed.iter().map(|&i| (&msgs[grid[i].1][..], pks[grid[i].0])).collect();
                let got = agg::verify_aggregate_sig::<P>(&pairs, sig);
                let distinct_msgs = claimed.iter().map(|&i| grid[i].1).collect::<BTreeSet<_>>().len() == claimed.len();
                // documented: rejects the empty set and any repeated message
                let want = !claimed.is_empty() && distinct_msgs && *claimed == built;
                report.trace(1);
                if got != want {
                    return fail(if want { "valid-aggregate-rejected" } else { "aggregate-verifies-for-other-multiset" }, json!({"got": got, "variant": "plain"}));
                }
                // hybrid variant: group by message; precondition: each key at most once per message
                let mut groups: Vec<(usize, Vec<usize>)> = vec![];
                for &i in claimed.iter() {
                    let (k, m) = grid[i];
                    match groups.iter_mut().find(|g| g.0 == m) {
                        Some(g) => g.1.push(k),
                        None => groups.push((m, vec![k])),
                    }
                }
                let precondition = !claimed.is_empty() && groups.iter().all(|g| g.1.iter().collect::<BTreeSet<_>>().len() == g.1.len());
                if precondition {
                    let key_groups: Vec<Vec<agg::PublicKey<P>>> = groups.iter().map(|g| g.1.iter().map(|&k| pks[k]).collect()).collect();
                    let hp: Vec<(&[u8], &[agg::PublicKey<P>])> = groups.iter().zip(key_groups.iter()).map(|(g, ks)| (&msgs[g.0][..], &ks[..])).collect();
                    let got_h = agg::verify_aggregate_sig_hybrid::<P>(&hp, sig);
                    let want_h = *claimed == built;
                    report.trace(1);
                    if got_h != want_h {
                        return fail(if want_h { "valid-aggregate-rejected" } else { "aggregate-verifies-for-other-multiset" }, json!({"got": got_h, "variant": "hybrid"}));
                    }
                    // where the plain variant's precondition (distinct messages) also holds the two agree
                    if distinct_msgs && got_h != got {
                        return fail("aggregate-variants-disagree", json!({"plain": got, "hybrid": got_h}));
                    }
                    // trusted-keys variant: one message, distinct keys
                    if groups.len() == 1 {
                        let got_t = agg::verify_aggregate_sig_trusted_keys::<P>(&msgs[groups[0].0], &key_groups[0], sig);
                        report.trace(1);
                        if got_t != want_h {
                            return fail(if want_h { "valid-aggregate-rejected" } else { "aggregate-verifies-for-other-multiset" }, json!({"got": got_t, "variant": "trusted_keys"}));
                        }
                    }
                }
                Ok(())
            });
        }
    });
    case(report, json!({"bls_aggregate": "empty signer set"}), || {
        let e: Vec<(&[u8], agg::PublicKey<P>)> = vec![];
        if agg::verify_aggregate_sig::<P>(&e, agg::Signature::<P>::empty()) || agg::verify_aggregate_sig_trusted_keys::<P>(b"a", &[], agg::Signature::<P>::empty()) {
            return fail("empty-aggregate-verifies", json!({}));
        }
        Ok(())
    });
    // (3) proofs of possession: contexts x keys, all cross combinations
    let contexts: Vec<&[u8]> = vec![b"ctx-one", b"ctx-two"];
    let mut pops = vec![];
    for (k, sk) in sks.iter().enumerate() {
        for (c, ctx) in contexts.iter().enumerate() {
            let mut ro = RandomOracle::domain(ctx);
            pops.push((k, c, sk.prove(&mut rng(cli.seed, 200 + (k * 2 + c) as u64), &mut ro)));
        }
    }
    for (k, c, proof) in &pops {
        for k2 in 0..nkeys as usize {
            for (c2, ctx2) in contexts.iter().enumerate() {
                case(report, json!({"bls_pop": {"proved_key": k, "proved_ctx": c, "checked_key": k2, "checked_ctx": c2}}), || {
                    let mut ro = RandomOracle::domain(ctx2);
                    let got = pks[k2].check_proof(&mut ro, proof);
                    let want = *k == k2 && *c == c2;
                    report.trace(1);
                    if got != want {
                        return fail(if want { "valid-proof-of-possession-rejected" } else { "proof-of-possession-verifies-for-other-key-or-context" }, json!({"got": got}));
                    }
                    Ok(())
                });
            }
        }
    }
    report.add_extra_count("bls_multisets", multisets.len() as u64);
}

/// Signer sets of every size around the point where the verifiers switch from a sequential
/// to a parallel key summation (150 keys), and well beyond it: one message signed by n
/// keys (plus a second small group on another message for the hybrid verifier). For each n:
/// the honest aggregate verifies; the aggregate without the last / first / a middle signer,
/// with one extra signature, and against a key list with one key replaced does not.
fn bls_large_signer_sets(report: &Report, cli: &Cli) {
    let sizes: Vec<usize> = if cli.tier == Tier::Quick { vec![1, 2, 149, 150, 151, 299, 300, 301] } else { vec![1, 2, 3, 17, 148, 149, 150, 151, 152, 200, 299, 300, 301, 449, 450, 451, 600, 1000] };
    let max = *sizes.iter().max().unwrap();
    let sks: Vec<agg::SecretKey<P>> = (0..max + 1).into_par_iter().map(|i| agg::SecretKey::<P>::generate(&mut rng(cli.seed, 5000 + i as u64))).collect();
    let pks: Vec<agg::PublicKey<P>> = sks.par_iter().map(agg::PublicKey::from_secret).collect();
    let m1: &[u8] = b"one message, many signers";
    let m2: &[u8] = b"another message";
    let sigs1: Vec<agg::Signature<P>> = sks.par_iter().map(|sk| sk.sign(m1)).collect();
    let other_group: Vec<agg::PublicKey<P>> = pks[..3].to_vec();
    let other_sig = sks[..3].iter().fold(agg::Signature::<P>::empty(), |acc, sk| acc.aggregate(sk.sign(m2)));
    sizes.par_iter().for_each(|&n| {
        let all: agg::Signature<P> = sigs1[..n].iter().fold(agg::Signature::<P>::empty(), |acc, s| acc.aggregate(*s));
        let without = |skip: usize| sigs1[..n].iter().enumerate().filter(|(i, _)| *i != skip).fold(agg::Signature::<P>::empty(), |acc, (_, s)| acc.aggregate(*s));
        let keys = &pks[..n];
        let mut replaced_last = keys.to_vec();
        *replaced_last.last_mut().unwrap() = pks[max];
        let mut replaced_first = keys.to_vec();
        replaced_first[0] = pks[max];
        let mut candidates: Vec<(&str, agg::Signature<P>, Vec<agg::PublicKey<P>>, bool)> = vec![("honest aggregate", all, keys.to_vec(), true), ("one extra signature", all.aggregate(sigs1[max]), keys.to_vec(), false), ("last key replaced", all, replaced_last, false), ("first key replaced", all, replaced_first, false)];
        if n >= 2 {
            candidates.push(("last signer missing", without(n - 1), keys.to_vec(), false));
            candidates.push(("first signer missing", without(0), keys.to_vec(), false));
            candidates.push(("middle signer missing", without(n / 2), keys.to_vec(), false));
            candidates.push(("one key fewer than signatures", all, keys[..n - 1].to_vec(), false));
        }
        for (what, sig, ks, want) in candidates {
            case(report, json!({"bls_signer_set": {"signers": n, "case": what}}), || {
                let got_t = agg::verify_aggregate_sig_trusted_keys::<P>(m1, &ks, sig);
                report.trace(1);
                if got_t != want {
                    return fail(if want { "valid-aggregate-rejected" } else { "aggregate-verifies-for-other-multiset" }, json!({"got": got_t, "variant": "trusted_keys"}));
                }
                let got_h = agg::verify_aggregate_sig_hybrid::<P>(&[(m1, &ks[..])], sig);
                report.trace(1);
                if got_h != want {
                    return fail(if want { "valid-aggregate-rejected" } else { "aggregate-verifies-for-other-multiset" }, json!({"got": got_h, "variant": "hybrid"}));
                }
                // together with a second group on another message, in either order
                for first in [true, false] {
                    let groups: Vec<(&[u8], &[agg::PublicKey<P>])> = if first { vec![(m1, &ks[..]), (m2, &other_group[..])] } else { vec![(m2, &other_group[..]), (m1, &ks[..])] };
                    let got = agg::verify_aggregate_sig_hybrid::<P>(&groups, sig.aggregate(other_sig));
                    report.trace(1);
                    if got != want {
                        return fail(if want { "valid-aggregate-rejected" } else { "aggregate-verifies-for-other-multiset" }, json!({"got": got, "variant": "hybrid, two groups", "large_group_first": first}));
                    }
                }
                Ok(())
            });
        }
    });
    report.set_extra("bls_signer_set_sizes", json!(sizes));
}

/// Messages that differ only by what an encoding could drop: trailing / leading zero bytes, lengths
/// around the 32 / 64 / 128-byte block and digest sizes, a message that *is* the SHA-512 / SHA-256
/// digest of another one, the same integer in two widths.
fn shape_messages() -> Vec<Vec<u8>> {
    use sha2::Digest;
    let long = vec![0x5Au8; 1024];
    let mut v: Vec<Vec<u8>> = vec![vec![], vec![0], vec![0, 0], b"a".to_vec(), b"a\0".to_vec(), b"a\0\0".to_vec(), b"\0a".to_vec()];
    for n in [31usize, 32, 33, 63, 64, 65, 127, 128, 129] {
        v.push(vec![0; n]);
        v.push(vec![0x41; n]);
    }
    v.push(sha2::Sha512::digest(&long).to_vec());
    v.push(sha2::Sha256::digest(&long).to_vec());
    v.push(long);
    v.push(5u16.to_le_bytes().to_vec());
    v.push(5u64.to_le_bytes().to_vec());
    v.push(5u64.to_be_bytes().to_vec());
    v
}

/// Every ordered pair of distinct shape messages: a signature on one does not verify for the other; the
/// aggregate of (key 0, m1) and (key 1, m2) verifies for exactly that assignment (plain and hybrid), not
/// for the swapped one; VRF proofs and outputs likewise.
fn message_shapes(report: &Report, cli: &Cli) {
    let ms = shape_messages();
    let sks: Vec<agg::SecretKey<P>> = (0..2).map(|i| agg::SecretKey::<P>::generate(&mut rng(cli.seed, 150 + i))).collect();
    let pks: Vec<agg::PublicKey<P>> = sks.iter().map(agg::PublicKey::from_secret).collect();
    let sigs: Vec<Vec<agg::Signature<P>>> = sks.iter().map(|sk| ms.iter().map(|m| sk.sign(m)).collect()).collect();
    let kp = ecvrf::Keypair::generate(&mut rng(cli.seed, 350));
    let proofs: Vec<ecvrf::Proof> = ms.iter().map(|m| kp.prove(m)).collect();
    let pairs: Vec<(usize, usize)> = (0..ms.len()).flat_map(|a| (0..ms.len()).map(move |b| (a, b))).filter(|(a, b)| a != b).collect();
    pairs.par_iter().for_each(|&(a, b)| {
        case(report, json!({"message_shapes": {"m1": mc_core::hex(&ms[a][..ms[a].len().min(70)]), "len1": ms[a].len(), "m2": mc_core::hex(&ms[b][..ms[b].len().min(70)]), "len2": ms[b].len()}}), || {
            report.trace(1);
            if pks[0].verify(&ms[b], sigs[0][a]) {
                return fail("signature-verifies-for-other-message", json!({}));
            }
            let agg_sig = sigs[0][a].aggregate(sigs[1][b]);
            let right: Vec<(&[u8], agg::PublicKey<P>)> = vec![(&ms[a][..], pks[0]), (&ms[b][..], pks[1])];
            let swapped: Vec<(&[u8], agg::PublicKey<P>)> = vec![(&ms[b][..], pks[0]), (&ms[a][..], pks[1])];
            if !agg::verify_aggregate_sig::<P>(&right, agg_sig) {
                return fail("valid-aggregate-rejected", json!({"variant": "plain"}));
            }
            if agg::verify_aggregate_sig::<P>(&swapped, agg_sig) {
                return fail("aggregate-verifies-for-other-multiset", json!({"variant": "plain"}));
            }
            let (k0, k1) = ([pks[0]], [pks[1]]);
            let hr: Vec<(&[u8], &[agg::PublicKey<P>])> = vec![(&ms[a][..], &k0[..]), (&ms[b][..], &k1[..])];
            let hs: Vec<(&[u8], &[agg::PublicKey<P>])> = vec![(&ms[b][..], &k0[..]), (&ms[a][..], &k1[..])];
            if !agg::verify_aggregate_sig_hybrid::<P>(&hr, agg_sig) {
                return fail("valid-aggregate-rejected", json!({"variant": "hybrid"}));
            }
            if agg::verify_aggregate_sig_hybrid::<P>(&hs, agg_sig) {
                return fail("aggregate-verifies-for-other-multiset", json!({"variant": "hybrid"}));
            }
            // same key on both messages
            let one_key = sigs[0][a].aggregate(sigs[0][b]);
            let both: Vec<(&[u8], agg::PublicKey<P>)> = vec![(&ms[a][..], pks[0]), (&ms[b][..], pks[0])];
            if !agg::verify_aggregate_sig::<P>(&both, one_key) {
                return fail("valid-aggregate-rejected", json!({"variant": "plain, one key on two messages"}));
            }
            // VRF
            if kp.public.verify(&proofs[a], &ms[b]) {
                return fail("vrf-proof-verifies-for-other-input", json!({}));
            }
            if proofs[a].to_hash() == proofs[b].to_hash() {
                return fail("vrf-outputs-collide", json!({}));
            }
            Ok(())
        });
    });
    report.set_extra("message_shape_pairs", json!(pairs.len()));
}

fn vrf(report: &Report, cli: &Cli) {
    let kps: Vec<ecvrf::Keypair> = (0..3).map(|i| ecvrf::Keypair::generate(&mut rng(cli.seed, 300 + i))).collect();
    let msgs = messages();
    let proofs: Vec<Vec<ecvrf::Proof>> = kps.iter().map(|kp| msgs.iter().map(|m| kp.prove(m)).collect()).collect();
    let mut outputs = BTreeSet::new();
    for k in 0..kps.len() {
        for m in 0..msgs.len() {
            case(report, json!({"vrf": {"key": k, "msg": m, "what": "determinism"}}), || {
                let again = kps[k].prove(&msgs[m]);
                if again.to_hash() != proofs[k][m].to_hash() {
                    return fail("vrf-output-not-deterministic", json!({}));
                }
                if !outputs.insert(proofs[k][m].to_hash().to_vec()) {
                    return fail("vrf-output-collision", json!({}));
                }
                // serialisation round trip
                let b = to_bytes(&proofs[k][m]);
                let back: ecvrf::Proof = from_bytes(&mut &b[..]).map_err(|e| ("proof-does-not-decode".to_string(), json!(format!("{e:#}"))))?;
                if b.len() != 80 || back != proofs[k][m] {
                    return fail("proof-round-trip", json!({"len": b.len()}));
                }
                Ok(())
            });
            for k2 in 0..kps.len() {
                for m2 in 0..msgs.len() {
                    case(report, json!({"vrf_verify": {"proved_key": k, "proved_msg": m, "key": k2, "msg": m2}}), || {
                        let got = kps[k2].public.verify(&proofs[k][m], &msgs[m2]);
                        let want = k == k2 && m == m2;
                        report.trace(1);
                        if got != want {
                            return fail(if want { "valid-vrf-proof-rejected" } else { "vrf-proof-verifies-for-other-key-or-message" }, json!({}));
                        }
                        Ok(())
                    });
                }
            }
        }
    }
    // every single-bit flip of proof, key and message
    let pb = to_bytes(&proofs[0][1]);
    (0..pb.len() * 8).into_par_iter().for_each(|bit| {
        case(report, json!({"vrf_proof_flip": bit}), || {
            if let Ok(p) = from_bytes::<ecvrf::Proof, _>(&mut &flip(&pb, bit)[..]) {
                report.trace(1);
                if kps[0].public.verify(&p, &msgs[1]) {
                    // a different encoding that decodes to the SAME proof is not an alteration
                    if p != proofs[0][1] {
                        return fail("altered-vrf-proof-verifies", json!({}));
                    }
                }
            }
            Ok(())
        });
    });
    let kb = to_bytes(&kps[0].public);
    (0..kb.len() * 8).into_par_iter().for_each(|bit| {
        case(report, json!({"vrf_key_flip": bit}), || {
            if let Ok(k) = from_bytes::<ecvrf::PublicKey, _>(&mut &flip(&kb, bit)[..]) {
                report.trace(1);
                if k != kps[0].public && k.verify(&proofs[0][1], &msgs[1]) {
                    return fail("vrf-proof-verifies-under-altered-key", json!({}));
                }
            }
            Ok(())
        });
    });
    let long = &msgs[3];
    let nbits = if cli.tier == Tier::Quick { 256 } else { long.len() * 8 };
    (0..nbits).into_par_iter().for_each(|bit| {
        case(report, json!({"vrf_msg_flip": bit}), || {
            report.trace(1);
            if kps[0].public.verify(&proofs[0][3], &flip(long, bit)) {
                return fail("vrf-proof-verifies-for-altered-message", json!({}));
            }
            Ok(())
        });
    });
}

fn ps(report: &Report, cli: &Cli) {
    type F = <P as Pairing>::ScalarField;
    let vals: Vec<(String, F)> = vec![
        ("0".into(), F::zero()),
        ("1".into(), F::one()),
        ("r-1".into(), minus_one()),
        ("rnd".into(), <P as Pairing>::generate_scalar(&mut rng(cli.seed, 400))),
    ];
    let key_len = 5;
    let sk = ps_sig::SecretKey::<P>::generate(key_len, &mut rng(cli.seed, 401));
    let pk = ps_sig::PublicKey::from(&sk);
    let sk2 = ps_sig::SecretKey::<P>::generate(key_len, &mut rng(cli.seed, 402));
    let pk2 = ps_sig::PublicKey::from(&sk2);
    // message vectors: every vector of length 0, 1, 2 over the value alphabet, and a sample of length 5
    let mut vectors: Vec<Vec<usize>> = vec![vec![]];
    for a in 0..vals.len() {
        vectors.push(vec![a]);
        for b in 0..vals.len() {
            vectors.push(vec![a, b]);
        }
    }
    for a in 0..vals.len() {
        vectors.push(vec![a, (a + 1) % 4, (a + 2) % 4, (a + 3) % 4, a]);
    }
    if cli.tier == Tier::Thorough {
        for a in 0..vals.len() {
            for b in 0..vals.len() {
                for c in 0..vals.len() {
                    vectors.push(vec![a, b, c]);
                }
            }
        }
    }
    let padded = |v: &Vec<usize>| -> Vec<F> {
        let mut out: Vec<F> = v.iter().map(|&i| vals[i].1).collect();
        out.resize(key_len, F::zero());
        out
    };
    vectors.par_iter().enumerate().for_each(|(vi, v)| {
        let msg = ps_sig::KnownMessage::<P>(v.iter().map(|&i| vals[i].1).collect());
        let names: Vec<&String> = v.iter().map(|&i| &vals[i].0).collect();
        case(report, json!({"ps_sig": {"message": names}}), || {
            let mut r = rng(cli.seed, 500 + vi as u64);
            let sig = sk.sign_known_message(&msg, &mut r).map_err(|e| ("sign-failed".to_string(), json!(format!("{e:?}"))))?;
            if !pk.verify(&sig, &msg) {
                return fail("valid-ps-signature-rejected", json!({"how": "known message"}));
            }
            if pk2.verify(&sig, &msg) {
                return fail("ps-signature-verifies-under-other-key", json!({}));
            }
            // blind issuance: commit to the message with the key's generators, sign, unblind
            let rr = ps_sig::SigRetrievalRandomness::<P>::generate_non_zero(&mut r);
            let mut comm = pk.g.mul_by_scalar(&rr);
            for (y, m) in pk.ys.iter().zip(msg.0.iter()) {
                comm = comm.plus_point(&y.mul_by_scalar(m));
            }
            let blind_sig = sk.sign_unknown_message(&ps_sig::UnknownMessage(comm), &mut r);
            let unblinded = blind_sig.retrieve(&rr);
            if !pk.verify(&unblinded, &msg) {
                return fail("valid-ps-signature-rejected", json!({"how": "unknown message + retrieve"}));
            }
            if !v.is_empty() && pk.verify(&blind_sig, &msg) && !rr.is_zero() {
                return fail("blinded-signature-verifies-without-unblinding", json!({}));
            }
            // re-randomised (blinded) signatures are not valid as they are
            report.trace(4);
            // verification against every other vector: valid iff equal after zero padding
            for other in vectors.iter() {
                let omsg = ps_sig::KnownMessage::<P>(other.iter().map(|&i| vals[i].1).collect());
                let want = padded(other) == padded(v);
                let got = pk.verify(&unblinded, &omsg) && pk.verify(&sig, &omsg);
                let got_any = pk.verify(&unblinded, &omsg) || pk.verify(&sig, &omsg);
                report.trace(2);
                if want && !got {
                    return fail("valid-ps-signature-rejected", json!({"other": other}));
                }
                if !want && got_any {
                    return fail("ps-signature-verifies-for-other-message", json!({"other": other}));
                }
            }
            // message longer than the key is refused
            let too_long = ps_sig::KnownMessage::<P>(vec![F::one(); key_len + 1]);
            if sk.sign_known_message(&too_long, &mut r).is_ok() || pk.verify(&sig, &too_long) {
                return fail("over-long-message-accepted", json!({}));
            }
            // the signed message itself (padded to the key's length) with surplus components: the
            // signature binds nothing beyond the key's length, so such a message must be refused
            for surplus in 1..=3usize {
                for t in [F::zero(), F::one(), vals[3].1] {
                    let mut m = padded(v);
                    m.extend(std::iter::repeat(t).take(surplus));
                    report.trace(1);
                    if pk.verify(&sig, &ps_sig::KnownMessage::<P>(m.clone())) || pk.verify(&unblinded, &ps_sig::KnownMessage::<P>(m)) {
                        return fail("ps-signature-verifies-for-other-message", json!({"other": "the signed message with surplus components", "surplus": surplus}));
                    }
                }
            }
            // altered signature components
            let neg = ps_sig::Signature::<P>(sig.0, sig.1.inverse_point());
            let swapped = ps_sig::Signature::<P>(sig.1, sig.0);
            let zero = ps_sig::Signature::<P>(<P as Pairing>::G1::zero_point(), <P as Pairing>::G1::zero_point());
            for (what, s) in [("negated", neg), ("swapped", swapped), ("zero", zero)] {
                if pk.verify(&s, &msg) {
                    return fail("altered-ps-signature-verifies", json!({"what": what}));
                }
            }
            Ok(())
        });
    });
    report.add_extra_count("ps_message_vectors", vectors.len() as u64);
}

/// Proofs of possession of ed25519 keys (account / baker signature keys and, through the same
/// routine, VRF election keys): all (proved key, proved context) x (checked key, checked
/// context) combinations and the complete single-bit-flip neighbourhood of the proof.
fn ed25519_possession(report: &Report, cli: &Cli) {
    use concordium_base::eddsa_ed25519::{prove_dlog_ed25519, verify_dlog_ed25519, Ed25519DlogProof};
    struct Kp(ed25519_dalek::SigningKey);
    impl Kp {
        fn public(&self) -> ed25519_dalek::VerifyingKey { self.0.verifying_key() }
        fn secret(&self) -> [u8; 32] { self.0.to_bytes() }
    }
    let kps: Vec<Kp> = (0..3u8).map(|i| Kp(ed25519_dalek::SigningKey::from_bytes(&[(cli.seed as u8).wrapping_add(40 + i); 32]))).collect();
    let contexts: Vec<&[u8]> = vec![b"", b"ctx-one", b"ctx-two"];
    for (k, kp) in kps.iter().enumerate() {
        for (c, ctx) in contexts.iter().enumerate() {
            let proof = prove_dlog_ed25519(&mut rng(cli.seed, 1910 + (k * 3 + c) as u64), &mut RandomOracle::domain(ctx), &kp.public(), &kp.secret());
            for (k2, kp2) in kps.iter().enumerate() {
                for (c2, ctx2) in contexts.iter().enumerate() {
                    case(report, json!({"ed25519_pop": {"proved_key": k, "proved_ctx": c, "checked_key": k2, "checked_ctx": c2}}), || {
                        let got = verify_dlog_ed25519(&mut RandomOracle::domain(ctx2), &kp2.public(), &proof);
                        let want = k == k2 && c == c2;
                        report.trace(1);
                        if got != want {
                            return fail(if want { "valid-proof-of-possession-rejected" } else { "proof-of-possession-verifies-for-other-key-or-context" }, json!({"got": got, "scheme": "ed25519"}));
                        }
                        Ok(())
                    });
                }
            }
            // every bit of the proof
            let pb = to_bytes(&proof);
            for bit in 0..pb.len() * 8 {
                case(report, json!({"ed25519_pop_flip": {"key": k, "ctx": c, "bit": bit}}), || {
                    if let Ok(p2) = from_bytes::<Ed25519DlogProof, _>(&mut &flip(&pb, bit)[..]) {
                        report.trace(1);
                        if to_bytes(&p2) != pb && verify_dlog_ed25519(&mut RandomOracle::domain(ctx), &kp.public(), &p2) {
                            return fail("altered-proof-of-possession-verifies", json!({"bit": bit, "scheme": "ed25519"}));
                        }
                    }
                    Ok(())
                });
            }
            // round trip of the proof
            case(report, json!({"ed25519_pop_roundtrip": {"key": k, "ctx": c}}), || {
                let back: Ed25519DlogProof = from_bytes(&mut &pb[..]).map_err(|e| ("proof-does-not-decode".to_string(), json!(format!("{e:#}"))))?;
                if to_bytes(&back) != pb || !verify_dlog_ed25519(&mut RandomOracle::domain(ctx), &kp.public(), &back) {
                    return fail("proof-round-trip-differs", json!({}));
                }
                Ok(())
            });
        }
    }
    // the same routine proves possession of VRF keys
    let vsk = ecvrf::SecretKey::generate(&mut rng(cli.seed, 1950));
    let vpk = ecvrf::PublicKey::from(&vsk);
    let vsk2 = ecvrf::SecretKey::generate(&mut rng(cli.seed, 1951));
    let vpk2 = ecvrf::PublicKey::from(&vsk2);
    case(report, json!({"ed25519_pop": "vrf keys"}), || {
        let proof = prove_dlog_ed25519(&mut rng(cli.seed, 1952), &mut RandomOracle::domain(b"vrf"), &vpk, &vsk);
        let as_vk = |k: &ecvrf::PublicKey| ed25519_dalek::VerifyingKey::from_bytes(&to_bytes(k).try_into().unwrap()).ok();
        report.trace(3);
        let (Some(a), Some(b)) = (as_vk(&vpk), as_vk(&vpk2)) else { return fail("vrf-key-not-an-ed25519-point", json!({})) };
        if !verify_dlog_ed25519(&mut RandomOracle::domain(b"vrf"), &a, &proof) {
            return fail("valid-proof-of-possession-rejected", json!({"scheme": "ed25519 (vrf key)"}));
        }
        if verify_dlog_ed25519(&mut RandomOracle::domain(b"vrf"), &b, &proof) || verify_dlog_ed25519(&mut RandomOracle::domain(b"other"), &a, &proof) {
            return fail("proof-of-possession-verifies-for-other-key-or-context", json!({"scheme": "ed25519 (vrf key)"}));
        }
        Ok(())
    });
}

pub fn run(cli: &Cli) -> ! {
    let report = Report::new(cli);
    bls(&report, cli);
    ed25519_possession(&report, cli);
    bls_large_signer_sets(&report, cli);
    message_shapes(&report, cli);
    vrf(&report, cli);
    ps(&report, cli);
    let n = report.evaluations.load(std::sync::atomic::Ordering::Relaxed);
    report.state(n);
    report.transition(report.traces.load(std::sync::atomic::Ordering::Relaxed));
    report.nontrivial(n);
    report.sample(json!({"bls_aggregate": {"built_from": [[0, 0], [1, 0], [1, 2]], "verified_against": [[0, 0], [1, 0], [2, 2]]}}));
    report.sample(json!({"vrf_proof_flip": 17}));
    report.set_technique("exhaustive enumeration of all (key, message, signature) tuples, all multisets of <=3/4 (key,message) pairs verified against every multiset of the same size under the three aggregate verifiers, signer sets of every size around and beyond the sequential/parallel summation threshold (149, 150, 151, 299, 300, 301, ...) with each single signer missing / added / replaced, all proof-of-possession cross combinations, complete single-bit-flip neighbourhoods of VRF proof/key/message and BLS signature/key, all PS message vectors of length <= 2 (3) over a boundary scalar alphabet");
    report.set_rule("a case is one (built, verified-against) pair or one perturbed object; the verdict must equal the truth predicate (equal multiset and documented preconditions); all cases count as non-trivial");
    report.assume("keys are 3 seeded key pairs per scheme; messages {empty, a, b, 1 kB}; unforgeability beyond the enumerated alterations is a computational assumption");
    report.finish(true, json!({"keys": 3, "messages": 4, "max_multiset": if cli.tier == Tier::Quick { 3 } else { 4 }}));
}
