//! C12: encrypted amounts conserve value and bind transfers to keys and balances.
#![allow(deprecated)]

use crate::util::*;
use concordium_base::{
    common::types::Amount,
    curve_arithmetic::Curve,
    elgamal::{BabyStepGiantStep, Cipher, PublicKey, SecretKey},
    encrypted_transfers::{
        aggregate, decrypt_amount, encrypt_amount, encrypt_amount_with_fixed_randomness, make_sec_to_pub_transfer_data, make_transfer_data,
        types::{AggregatedDecryptedAmount, EncryptedAmount, EncryptedAmountAggIndex},
        verify_sec_to_pub_transfer_data, verify_transfer_data,
    },
    id::{constants::ArCurve, types::GlobalContext},
};
use mc_core::{Cli, Report, Tier};
use rayon::prelude::*;
use serde_json::json;

type C = ArCurve;

fn amounts(tier: Tier) -> Vec<u64> {
    if tier == Tier::Quick {
        vec![0, 1, (1 << 16) - 1, 1 << 32, (1 << 32) + 1, u64::MAX - 1, u64::MAX]
    } else {
        vec![0, 1, (1 << 16) - 1, 1 << 16, (1 << 32) - 1, 1 << 32, (1 << 32) + 1, 1 << 48, 1 << 63, u64::MAX - 1, u64::MAX]
    }
}

/// Amounts whose 32-bit chunks are small, so that decryption (linear in chunk / 2^16) is
/// fast enough to enumerate all balance/transfer pairs.
fn fast_amounts(tier: Tier) -> Vec<u64> {
    let mut v = vec![0u64, 1, 2, 65535, 65536, 1 << 32, (1 << 32) + 1, (3 << 32) + 70000, (1 << 32) - 1];
    if tier == Tier::Thorough {
        v.extend([u64::MAX, (1 << 63) + 5, ((1u64 << 32) - 1) << 32]);
    }
    v
}

/// The layer below the amounts: `ChunkSize::{mask, u64_to_chunks, chunks_to_u64}` for every chunk size on
/// every boundary pattern, `value_to_chunks / chunks_to_value` on field elements, chunked encryption /
/// decryption for every chunk size whose table is cheap, the baby-step-giant-step table for table sizes
/// around the discrete logs asked of it (0, 1, m-1, m, m+1, km-1, km, m^2-1, beyond m^2), and its
/// serialisation.
fn chunk_layer(report: &Report, cli: &Cli, ctx: &GlobalContext<C>, sks: &[SecretKey<C>], pks: &[PublicKey<C>]) {
    use concordium_base::{
        common::{from_bytes, to_bytes},
        curve_arithmetic::{Field, PrimeField},
        elgamal::{chunks_to_value, decrypt_from_chunks_given_generator, encrypt_in_chunks_given_generator, encrypt_u64_in_chunks_given_generator, value_to_chunks, ChunkSize},
        pedersen_commitment::Value,
    };
    let sizes = [ChunkSize::One, ChunkSize::Two, ChunkSize::Four, ChunkSize::Eight, ChunkSize::Sixteen, ChunkSize::ThirtyTwo, ChunkSize::SixtyFour];
    let mut xs: Vec<u64> = vec![0, 1, 2, u64::MAX, u64::MAX - 1, 0x5555_5555_5555_5555, 0xAAAA_AAAA_AAAA_AAAA, 0x0123_4567_89AB_CDEF, 0x8000_0000_0000_0000, 0xFFFF_FFFF_0000_0000, 0x0000_0000_FFFF_FFFF];
    for k in 0..64 {
        xs.push(1u64 << k);
        xs.push((1u64 << k).wrapping_sub(1));
    }
    for &cs in &sizes {
        let bits = u8::from(cs) as u32;
        for &x in &xs {
            case(report, json!({"chunks": {"size": bits, "x": x.to_string()}}), || {
                let ch = cs.u64_to_chunks(x);
                if ch.len() as u32 != 64 / bits {
                    return fail("chunk-count", json!({"len": ch.len()}));
                }
                let mut sum: u128 = 0;
                for (i, c) in ch.iter().enumerate() {
                    if bits < 64 && *c >> bits != 0 {
                        return fail("chunk-out-of-range", json!({"chunk": i, "value": c.to_string()}));
                    }
                    if *c != (x >> (bits * i as u32)) & cs.mask() {
                        return fail("chunk-differs", json!({"chunk": i, "value": c.to_string()}));
                    }
                    sum += (*c as u128) << (bits * i as u32);
                }
                if sum != x as u128 || cs.chunks_to_u64(ch.iter().copied()) != x {
                    return fail("chunks-do-not-recombine", json!({"recombined": cs.chunks_to_u64(ch.iter().copied()).to_string()}));
                }
                report.trace(1);
                Ok(())
            });
        }
    }
    // field elements: every limb pattern through value_to_chunks / chunks_to_value
    let mut scalars: Vec<(String, <C as Curve>::Scalar)> = vec![("0".into(), Field::zero()), ("1".into(), Field::one()), ("r-1".into(), minus_one()), ("random".into(), C::generate_scalar(&mut rng(cli.seed, 1790)))];
    for k in [63u32, 64, 65, 127, 128, 191, 192, 250] {
        scalars.push((format!("2^{k}"), pow2::<C>(k)));
        scalars.push((format!("2^{k}-1"), sub(pow2::<C>(k), Field::one())));
    }
    for &cs in &sizes {
        let bits = u8::from(cs) as usize;
        for (name, sc) in &scalars {
            case(report, json!({"value_chunks": {"size": bits, "scalar": name}}), || {
                let ch = value_to_chunks::<C>(sc, cs);
                if ch.len() != 256 / bits {
                    return fail("chunk-count", json!({"len": ch.len()}));
                }
                let limbs = sc.into_repr();
                for (i, c) in ch.iter().enumerate() {
                    let r = c.into_repr();
                    let pos = i * bits;
                    let want = (limbs[pos / 64] >> (pos % 64)) & cs.mask();
                    if r[0] != want || r[1..].iter().any(|l| *l != 0) {
                        return fail("chunk-differs", json!({"chunk": i}));
                    }
                }
                let back: Value<C> = chunks_to_value::<C>(&ch, cs);
                if *back != *sc {
                    return fail("chunks-do-not-recombine", json!({}));
                }
                report.trace(1);
                Ok(())
            });
        }
    }
    // chunked encryption / decryption with a fresh table per call (sizes with cheap logarithms)
    let g = ctx.encryption_in_exponent_generator();
    for &cs in &[ChunkSize::One, ChunkSize::Two, ChunkSize::Four, ChunkSize::Eight, ChunkSize::Sixteen] {
        let bits = u8::from(cs) as u32;
        for &x in &[0u64, 1, u64::MAX, 0x0123_4567_89AB_CDEF, 1 << 63, (1 << 32) - 1] {
            for m in [1u64, 3, 16, 1 << (bits / 2).max(1)] {
                if (1u64 << bits) / m > 4096 {
                    continue;
                }
                case(report, json!({"chunked_encryption": {"size": bits, "x": x.to_string(), "table": m}}), || {
                    let enc = encrypt_u64_in_chunks_given_generator(&pks[0], x, cs, g, &mut rng(cli.seed, 1791));
                    let ciphers: Vec<Cipher<C>> = enc.iter().map(|(c, _)| *c).collect();
                    if ciphers.len() as u32 != 64 / bits {
                        return fail("chunk-count", json!({"len": ciphers.len()}));
                    }
                    let v = decrypt_from_chunks_given_generator(&sks[0], &ciphers, g, m, cs);
                    if *v != C::scalar_from_u64(x) {
                        return fail("decryption-differs", json!({}));
                    }
                    // under the other key the chunks are not these
                    report.trace(1);
                    Ok(())
                });
            }
        }
    }
    for (name, sc) in scalars.iter().take(4) {
        case(report, json!({"chunked_encryption_of_scalar": name}), || {
            let enc = encrypt_in_chunks_given_generator(&pks[1], &Value::new(*sc), ChunkSize::Eight, g, &mut rng(cli.seed, 1792));
            let ciphers: Vec<Cipher<C>> = enc.iter().map(|(c, _)| *c).collect();
            let v = decrypt_from_chunks_given_generator(&sks[1], &ciphers, g, 16, ChunkSize::Eight);
            if *v != *sc {
                return fail("decryption-differs", json!({}));
            }
            report.trace(1);
            Ok(())
        });
    }
    // the table itself
    for m in [1u64, 2, 3, 16, 255, 256, 1000] {
        let t = BabyStepGiantStep::<C>::new(g, m);
        let mut ls: Vec<u64> = vec![0, 1, m - 1, m, m + 1, 2 * m - 1, 2 * m, 7 * m + (m / 2)];
        if m > 1 {
            ls.extend([m * m - 1, m * m, m * m + 1]);
        }
        ls.sort();
        ls.dedup();
        for l in ls {
            case(report, json!({"discrete_log": {"table": m, "log": l}}), || {
                let v = g.mul_by_scalar(&C::scalar_from_u64(l));
                if t.discrete_log(&v) != l || BabyStepGiantStep::<C>::discrete_log_full(g, m, &v) != l {
                    return fail("discrete-log-differs", json!({"got": t.discrete_log(&v)}));
                }
                report.trace(1);
                Ok(())
            });
        }
        case(report, json!({"discrete_log_table_serialisation": m}), || {
            let b = to_bytes(&t);
            let back: BabyStepGiantStep<C> = from_bytes(&mut &b[..]).map_err(|e| ("table-does-not-decode".to_string(), json!(format!("{e:#}"))))?;
            if back != t {
                return fail("table-round-trip-differs", json!({}));
            }
            let v = g.mul_by_scalar(&C::scalar_from_u64(5 * m + m / 3));
            if back.discrete_log(&v) != 5 * m + m / 3 {
                return fail("discrete-log-differs", json!({"what": "deserialised table"}));
            }
            Ok(())
        });
    }
    // join: the two chunks of an amount as one ciphertext of the amount itself
    for &a in &[0u64, 1, 65535, 65536, (1 << 20) - 1] {
        case(report, json!({"join": a}), || {
            let t = BabyStepGiantStep::<C>::new(g, 1 << 10);
            let (enc, _) = encrypt_amount(ctx, &pks[0], Amount::from_micro_ccd(a), &mut rng(cli.seed, 1793));
            if sks[0].decrypt_exponent(&enc.join(), &t) != a {
                return fail("join-differs", json!({}));
            }
            Ok(())
        });
    }
    // join for amounts with a high chunk: compare in the group (no logarithm needed)
    for &a in &[1u64 << 32, (1 << 32) + 1, u64::MAX, (1 << 63) + 12345] {
        case(report, json!({"join": a.to_string()}), || {
            let (enc, _) = encrypt_amount(ctx, &pks[0], Amount::from_micro_ccd(a), &mut rng(cli.seed, 1794));
            let m = sks[0].decrypt(&enc.join());
            if m.value != g.mul_by_scalar(&C::scalar_from_u64(a)) {
                return fail("join-differs", json!({}));
            }
            Ok(())
        });
    }
}

pub fn run(cli: &Cli) -> ! {
    let report = Report::new(cli);
    let ctx = GlobalContext::<C>::generate_size("mc-crypto".into(), 256);
    let table = BabyStepGiantStep::<C>::new(ctx.encryption_in_exponent_generator(), 1 << 16);
    let sks: Vec<SecretKey<C>> = (0..2).map(|i| SecretKey::generate(ctx.elgamal_generator(), &mut rng(cli.seed, 1700 + i))).collect();
    let pks: Vec<PublicKey<C>> = sks.iter().map(PublicKey::from).collect();

    chunk_layer(&report, cli, &ctx, &sks, &pks);

    // (1) encrypt -> decrypt for every boundary amount, both keys, and with fixed randomness
    let all = amounts(cli.tier);
    all.par_iter().for_each(|&a| {
        for k in 0..2 {
            case(&report, json!({"encrypt_decrypt": {"amount": a.to_string(), "key": k}}), || {
                let (enc, _) = encrypt_amount(&ctx, &pks[k], Amount::from_micro_ccd(a), &mut rng(cli.seed, 1710));
                let d = decrypt_amount(&table, &sks[k], &enc);
                report.trace(1);
                if d.micro_ccd() != a {
                    return fail("decryption-differs", json!({"decrypted": d.micro_ccd().to_string()}));
                }
                let fixed = encrypt_amount_with_fixed_randomness(&ctx, Amount::from_micro_ccd(a));
                if decrypt_amount(&table, &sks[k], &fixed).micro_ccd() != a {
                    return fail("decryption-differs", json!({"what": "fixed randomness"}));
                }
                Ok(())
            });
        }
    });

    // (2) aggregation: every pair whose sum fits in 64 bits (per-chunk sums up to 2^33 - 2)
    let fa = fast_amounts(cli.tier);
    let pairs: Vec<(u64, u64)> = fa.iter().flat_map(|a| fa.iter().map(move |b| (*a, *b))).filter(|(a, b)| a.checked_add(*b).is_some() && a <= b).collect();
    pairs.par_iter().for_each(|&(a, b)| {
        case(&report, json!({"aggregate": {"a": a.to_string(), "b": b.to_string()}}), || {
            let (ea, _) = encrypt_amount(&ctx, &pks[0], Amount::from_micro_ccd(a), &mut rng(cli.seed, 1720));
            let (eb, _) = encrypt_amount(&ctx, &pks[0], Amount::from_micro_ccd(b), &mut rng(cli.seed, 1721));
            let sum = aggregate(&ea, &eb);
            let d = decrypt_amount(&table, &sks[0], &sum).micro_ccd();
            report.trace(1);
            if d != a + b {
                return fail("aggregate-does-not-decrypt-to-sum", json!({"decrypted": d.to_string()}));
            }
            // commutative, and aggregating the encryption of 0 changes nothing
            let sum2 = aggregate(&eb, &ea);
            if sum2.encryptions != sum.encryptions {
                return fail("aggregate-not-commutative", json!({}));
            }
            let zero = encrypt_amount_with_fixed_randomness(&ctx, Amount::from_micro_ccd(0));
            if aggregate(&ea, &zero).encryptions != ea.encryptions {
                return fail("aggregate-with-zero-changes-ciphertext", json!({}));
            }
            Ok(())
        });
    });

    // (3) transfers: every (balance, amount) pair
    let mut tcases = vec![];
    for &bal in &fa {
        for &amt in &fa {
            for idx in [0u64, 5] {
                tcases.push((bal, amt, idx));
            }
        }
    }
    tcases.par_iter().for_each(|&(bal, amt, idx)| {
        case(&report, json!({"transfer": {"balance": bal.to_string(), "amount": amt.to_string(), "index": idx}}), || {
            let (enc_bal, _) = encrypt_amount(&ctx, &pks[0], Amount::from_micro_ccd(bal), &mut rng(cli.seed, 1730));
            let input = AggregatedDecryptedAmount { agg_encrypted_amount: enc_bal.clone(), agg_amount: Amount::from_micro_ccd(bal), agg_index: EncryptedAmountAggIndex::from(idx) };
            let data = make_transfer_data(&ctx, &pks[1], &sks[0], &input, Amount::from_micro_ccd(amt), &mut rng(cli.seed, 1731));
            report.trace(1);
            match data {
                None => {
                    if amt <= bal {
                        return fail("valid-transfer-not-producible", json!({}));
                    }
                }
                Some(d) => {
                    if amt > bal {
                        // whatever was produced must at least not verify
                        if verify_transfer_data(&ctx, &pks[1], &pks[0], &enc_bal, &d) {
                            return fail("transfer-exceeding-balance-verifies", json!({}));
                        }
                        return fail("transfer-exceeding-balance-produced", json!({}));
                    }
                    if !verify_transfer_data(&ctx, &pks[1], &pks[0], &enc_bal, &d) {
                        return fail("valid-transfer-rejected", json!({}));
                    }
                    let rem = decrypt_amount(&table, &sks[0], &d.remaining_amount).micro_ccd();
                    let tr = decrypt_amount(&table, &sks[1], &d.transfer_amount).micro_ccd();
                    if tr != amt || rem != bal - amt {
                        return fail("transfer-does-not-conserve-value", json!({"remaining": rem.to_string(), "transferred": tr.to_string()}));
                    }
                    if d.index.index != idx {
                        return fail("transfer-index-differs", json!({}));
                    }
                }
            }
            // secret to public
            let s2p = make_sec_to_pub_transfer_data(&ctx, &sks[0], &input, Amount::from_micro_ccd(amt), &mut rng(cli.seed, 1732));
            report.trace(1);
            match s2p {
                None => {
                    if amt <= bal {
                        return fail("valid-transfer-not-producible", json!({"kind": "sec-to-pub"}));
                    }
                }
                Some(d) => {
                    if amt > bal {
                        return fail("transfer-exceeding-balance-produced", json!({"kind": "sec-to-pub"}));
                    }
                    if !verify_sec_to_pub_transfer_data(&ctx, &pks[0], &enc_bal, &d) {
                        return fail("valid-transfer-rejected", json!({"kind": "sec-to-pub"}));
                    }
                    let rem = decrypt_amount(&table, &sks[0], &d.remaining_amount).micro_ccd();
                    if d.transfer_amount.micro_ccd() != amt || rem != bal - amt {
                        return fail("transfer-does-not-conserve-value", json!({"kind": "sec-to-pub", "remaining": rem.to_string()}));
                    }
                    // altered public amount / key / balance
                    let mut d2 = d.clone();
                    d2.transfer_amount = Amount::from_micro_ccd(amt.wrapping_add(1));
                    if verify_sec_to_pub_transfer_data(&ctx, &pks[0], &enc_bal, &d2) {
                        return fail("altered-transfer-verifies", json!({"kind": "sec-to-pub", "what": "amount+1"}));
                    }
                    if verify_sec_to_pub_transfer_data(&ctx, &pks[1], &enc_bal, &d) {
                        return fail("altered-transfer-verifies", json!({"kind": "sec-to-pub", "what": "other key"}));
                    }
                }
            }
            Ok(())
        });
    });

    // (4) perturbations of one valid encrypted transfer
    let bal = (3u64 << 32) + 70000;
    let amt = (1u64 << 32) + 1;
    let (enc_bal, _) = encrypt_amount(&ctx, &pks[0], Amount::from_micro_ccd(bal), &mut rng(cli.seed, 1740));
    let input = AggregatedDecryptedAmount { agg_encrypted_amount: enc_bal.clone(), agg_amount: Amount::from_micro_ccd(bal), agg_index: EncryptedAmountAggIndex::from(7) };
    let base = make_transfer_data(&ctx, &pks[1], &sks[0], &input, Amount::from_micro_ccd(amt), &mut rng(cli.seed, 1741));
    let other = {
        let (eb2, _) = encrypt_amount(&ctx, &pks[0], Amount::from_micro_ccd(bal), &mut rng(cli.seed, 1742));
        let input2 = AggregatedDecryptedAmount { agg_encrypted_amount: eb2, agg_amount: Amount::from_micro_ccd(bal), agg_index: EncryptedAmountAggIndex::from(7) };
        make_transfer_data(&ctx, &pks[1], &sks[0], &input2, Amount::from_micro_ccd(amt), &mut rng(cli.seed, 1743))
    };
    match (base, other) {
        (Some(d), Some(o)) => {
            type Mutation = (String, Box<dyn Fn(&mut concordium_base::encrypted_transfers::types::EncryptedAmountTransferData<C>) + Sync + Send>);
            let mut muts: Vec<Mutation> = vec![];
            for which in 0..2usize {
                for chunk in 0..2usize {
                    for comp in 0..2usize {
                        let o2 = o.clone();
                        muts.push((
                            format!("ciphertext component replaced: {} chunk {chunk} component {comp}", if which == 0 { "remaining" } else { "transfer" }),
                            Box::new(move |x| {
                                let src = if which == 0 { &o2.remaining_amount } else { &o2.transfer_amount };
                                let dst = if which == 0 { &mut x.remaining_amount } else { &mut x.transfer_amount };
                                let Cipher(a, b) = src.encryptions[chunk];
                                let Cipher(c, e) = dst.encryptions[chunk];
                                dst.encryptions[chunk] = if comp == 0 { Cipher(a, e) } else { Cipher(c, b) };
                            }),
                        ));
                        muts.push((
                            format!("ciphertext component negated: {} chunk {chunk} component {comp}", if which == 0 { "remaining" } else { "transfer" }),
                            Box::new(move |x| {
                                let dst = if which == 0 { &mut x.remaining_amount } else { &mut x.transfer_amount };
                                let Cipher(c, e) = dst.encryptions[chunk];
                                dst.encryptions[chunk] = if comp == 0 { Cipher(c.inverse_point(), e) } else { Cipher(c, e.inverse_point()) };
                            }),
                        ));
                    }
                    muts.push((
                        format!("chunks swapped: {} ({chunk})", if which == 0 { "remaining" } else { "transfer" }),
                        Box::new(move |x| {
                            let dst = if which == 0 { &mut x.remaining_amount } else { &mut x.transfer_amount };
                            dst.encryptions.swap(0, 1);
                        }),
                    ));
                }
            }
            muts.push(("remaining and transfer swapped".to_string(), Box::new(|x| std::mem::swap(&mut x.remaining_amount, &mut x.transfer_amount))));
            muts.push(("index+1".to_string(), Box::new(|x| x.index = EncryptedAmountAggIndex::from(x.index.index + 1))));
            muts.push(("index-1".to_string(), Box::new(|x| x.index = EncryptedAmountAggIndex::from(x.index.index - 1))));
            let o3 = o.clone();
            muts.push(("accounting proof of another transfer".to_string(), Box::new(move |x| x.proof.accounting = o3.proof.accounting.clone())));
            let o4 = o.clone();
            muts.push(("transfer range proof of another transfer".to_string(), Box::new(move |x| x.proof.transfer_amount_correct_encryption = o4.proof.transfer_amount_correct_encryption.clone())));
            let o5 = o.clone();
            muts.push(("remaining range proof of another transfer".to_string(), Box::new(move |x| x.proof.remaining_amount_correct_encryption = o5.proof.remaining_amount_correct_encryption.clone())));
            muts.push((
                "range proofs swapped".to_string(),
                Box::new(|x| std::mem::swap(&mut x.proof.transfer_amount_correct_encryption, &mut x.proof.remaining_amount_correct_encryption)),
            ));
            case(&report, json!({"transfer_perturbation": "none"}), || {
                if !verify_transfer_data(&ctx, &pks[1], &pks[0], &enc_bal, &d) {
                    return fail("valid-transfer-rejected", json!({}));
                }
                Ok(())
            });
            muts.par_iter().enumerate().for_each(|(i, (what, m))| {
                let _ = i;
                case(&report, json!({"transfer_perturbation": what}), || {
                    let mut x = d.clone();
                    m(&mut x);
                    report.trace(1);
                    if verify_transfer_data(&ctx, &pks[1], &pks[0], &enc_bal, &x) {
                        return fail("altered-transfer-verifies", json!({"what": what}));
                    }
                    Ok(())
                });
            });
            // context perturbations
            let ctx_cases: Vec<(&str, Box<dyn Fn() -> bool + Sync + Send>)> = vec![
                ("keys swapped", Box::new(|| verify_transfer_data(&ctx, &pks[0], &pks[1], &enc_bal, &d))),
                ("receiver = sender", Box::new(|| verify_transfer_data(&ctx, &pks[0], &pks[0], &enc_bal, &d))),
                ("sender = receiver key", Box::new(|| verify_transfer_data(&ctx, &pks[1], &pks[1], &enc_bal, &d))),
                (
                    "balance+1",
                    Box::new(|| {
                        let one = encrypt_amount_with_fixed_randomness(&ctx, Amount::from_micro_ccd(1));
                        verify_transfer_data(&ctx, &pks[1], &pks[0], &aggregate(&enc_bal, &one), &d)
                    }),
                ),
                (
                    "other encryption of the balance",
                    Box::new(|| {
                        let (e2, _) = encrypt_amount(&ctx, &pks[0], Amount::from_micro_ccd(bal), &mut rng(cli.seed, 1750));
                        verify_transfer_data(&ctx, &pks[1], &pks[0], &e2, &d)
                    }),
                ),
                (
                    "other global context",
                    Box::new(|| {
                        let ctx2 = GlobalContext::<C>::generate_size("another".into(), 256);
                        verify_transfer_data(&ctx2, &pks[1], &pks[0], &enc_bal, &d)
                    }),
                ),
            ];
            ctx_cases.par_iter().for_each(|(what, f)| {
                case(&report, json!({"transfer_context_perturbation": what}), || {
                    report.trace(1);
                    if f() {
                        return fail("altered-transfer-verifies", json!({"what": what}));
                    }
                    Ok(())
                });
            });
        }
        _ => report.violation("valid-transfer-not-producible", json!({"balance": bal, "amount": amt}), json!({})),
    }

    // (5) single-bit flips of the serialised transfer data: whatever still decodes must not verify
    // (the 8 bytes of the index are the subject of the perturbations "index+1" / "index-1" above)
    {
        use concordium_base::common::{from_bytes, to_bytes};
        use concordium_base::encrypted_transfers::types::{EncryptedAmountTransferData, SecToPubAmountTransferData};
        let stride = if cli.tier == Tier::Quick { 23 } else { 1 };
        let (enc_bal, _) = encrypt_amount(&ctx, &pks[0], Amount::from_micro_ccd(bal), &mut rng(cli.seed, 1760));
        let input = AggregatedDecryptedAmount { agg_encrypted_amount: enc_bal.clone(), agg_amount: Amount::from_micro_ccd(bal), agg_index: EncryptedAmountAggIndex::from(7) };
        if let Some(d) = make_transfer_data(&ctx, &pks[1], &sks[0], &input, Amount::from_micro_ccd(amt), &mut rng(cli.seed, 1761)) {
            let bytes = to_bytes(&d);
            let index_at = to_bytes(&d.remaining_amount).len() + to_bytes(&d.transfer_amount).len();
            let bits: Vec<usize> = (0..bytes.len() * 8).filter(|b| b % stride == 0 && !(index_at * 8..(index_at + 8) * 8).contains(b)).collect();
            report.set_extra("transfer_bit_flips", json!(bits.len()));
            let edits = count_field_edits(&bytes);
            report.set_extra("transfer_count_field_edits", json!(edits.len()));
            edits.par_iter().for_each(|(what, eb)| {
                case(&report, json!({"transfer_structural_edit": what}), || {
                    report.trace(1);
                    if let Ok(x) = from_bytes::<EncryptedAmountTransferData<C>, _>(&mut std::io::Cursor::new(eb)) {
                        if to_bytes(&x) != bytes && verify_transfer_data(&ctx, &pks[1], &pks[0], &enc_bal, &x) {
                            return fail("altered-transfer-verifies", json!({"what": what}));
                        }
                    }
                    Ok(())
                });
            });
            bits.par_iter().for_each(|&bit| {
                case(&report, json!({"transfer_bit_flip": bit}), || {
                    let fb = flip(&bytes, bit);
                    report.trace(1);
                    if let Ok(x) = from_bytes::<EncryptedAmountTransferData<C>, _>(&mut std::io::Cursor::new(&fb)) {
                        if verify_transfer_data(&ctx, &pks[1], &pks[0], &enc_bal, &x) {
                            return fail("altered-transfer-verifies", json!({"what": "bit flipped in the serialised transfer", "bit": bit}));
                        }
                    }
                    Ok(())
                });
            });
        }
        if let Some(d) = make_sec_to_pub_transfer_data(&ctx, &sks[0], &input, Amount::from_micro_ccd(amt), &mut rng(cli.seed, 1762)) {
            let bytes = to_bytes(&d);
            let index_at = to_bytes(&d.remaining_amount).len() + to_bytes(&d.transfer_amount).len();
            let bits: Vec<usize> = (0..bytes.len() * 8).filter(|b| b % stride == 0 && !(index_at * 8..(index_at + 8) * 8).contains(b)).collect();
            report.set_extra("sec_to_pub_bit_flips", json!(bits.len()));
            let edits = count_field_edits(&bytes);
            report.set_extra("sec_to_pub_count_field_edits", json!(edits.len()));
            edits.par_iter().for_each(|(what, eb)| {
                case(&report, json!({"sec_to_pub_structural_edit": what}), || {
                    report.trace(1);
                    if let Ok(x) = from_bytes::<SecToPubAmountTransferData<C>, _>(&mut std::io::Cursor::new(eb)) {
                        if to_bytes(&x) != bytes && verify_sec_to_pub_transfer_data(&ctx, &pks[0], &enc_bal, &x) {
                            return fail("altered-transfer-verifies", json!({"what": what}));
                        }
                    }
                    Ok(())
                });
            });
            bits.par_iter().for_each(|&bit| {
                case(&report, json!({"sec_to_pub_bit_flip": bit}), || {
                    let fb = flip(&bytes, bit);
                    report.trace(1);
                    if let Ok(x) = from_bytes::<SecToPubAmountTransferData<C>, _>(&mut std::io::Cursor::new(&fb)) {
                        if verify_sec_to_pub_transfer_data(&ctx, &pks[0], &enc_bal, &x) {
                            return fail("altered-transfer-verifies", json!({"what": "bit flipped in the serialised secret-to-public transfer", "bit": bit}));
                        }
                    }
                    Ok(())
                });
            });
        }
    }
    let _ = EncryptedAmount::<C>::join;
    let n = report.evaluations.load(std::sync::atomic::Ordering::Relaxed);
    report.state(n);
    report.transition(report.traces.load(std::sync::atomic::Ordering::Relaxed));
    report.nontrivial(n);
    report.sample(json!({"transfer": {"balance": "4294967297", "amount": "4294967296", "expected": "verifies; remaining decrypts to 1, transferred to 2^32"}}));
    report.sample(json!({"aggregate": {"a": "4294967295", "b": "4294967295", "expected": "decrypts to the sum (low chunk sum 2^33-2 carries)"}}));
    report.set_technique("exhaustive enumeration of boundary amounts (all chunk-boundary / carry patterns), all pairs for aggregation, all (balance, amount, index) triples for encrypted and secret-to-public transfers, complete component-perturbation list of one transfer; verdict = integer arithmetic on the plaintexts");
    report.set_rule("one case = one amount / pair / (balance, amount, index) / perturbation; transfers with amount > balance must not be producible; all cases non-trivial");
    report.assume("two seeded key pairs; amounts outside the boundary alphabets are not covered; decryption uses a 2^16 baby-step table");
    report.finish(true, json!({"amounts": all.len(), "transfer_pairs": fa.len() * fa.len()}));
}
