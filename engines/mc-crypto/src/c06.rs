//! C06: transaction and update authorisation is exactly the threshold policy; digests,
//! sizes and energies are the documented functions of the serialised bytes.

use crate::util::*;
use concordium_base::{
    base::{Energy, Nonce, UpdateKeyPair, UpdateKeysIndex, UpdateKeysThreshold, UpdatePublicKey, UpdateSequenceNumber},
    common::{
        from_bytes, to_bytes,
        types::{Amount, CredentialIndex, KeyIndex, KeyPair, Signature, TransactionSignature, TransactionSignaturesV1, TransactionTime},
    },
    contracts_common::{AccountAddress, AccountThreshold, SignatureThreshold},
    id::types::{CredentialPublicKeys, VerifyKey},
    transactions::{
        compute_transaction_sign_hash, compute_transaction_sign_hash_v1, construct, cost, verify_data_signature, verify_signature_transaction_sign_hash,
        AccountAccessStructure, AccountTransaction, AccountTransactionV1, BlockItem, EncodedPayload, Memo, PayloadLike, RegisteredData, TransactionHeader,
        TransactionHeaderV1,
    },
    updates::{self, find_authorized_keys, AccessStructure, UpdatePayload},
};
use mc_core::{Cli, Report, Tier};
use rayon::prelude::*;
use serde_json::json;
use sha2::{Digest, Sha256};
use std::collections::{BTreeMap, BTreeSet};

#[derive(Clone, Copy, PartialEq, Eq, Debug)]
enum Slot {
    Absent,
    Valid,
    OtherMessage,
    OtherKey,
    BitFlipped,
}

const SLOT_STATES: [Slot; 4] = [Slot::Valid, Slot::OtherMessage, Slot::OtherKey, Slot::BitFlipped];

struct Keys {
    /// key pair registered at (credential, key)
    registered: BTreeMap<(u8, u8), KeyPair>,
    /// an unrelated key pair per slot
    foreign:    BTreeMap<(u8, u8), KeyPair>,
}

fn make_keys(seed: u64, creds: &[u8], keys: &[u8]) -> Keys {
    let mut registered = BTreeMap::new();
    let mut foreign = BTreeMap::new();
    for (i, c) in creds.iter().enumerate() {
        for (j, k) in keys.iter().enumerate() {
            registered.insert((*c, *k), KeyPair::generate(&mut rng(seed, 6000 + (i * 16 + j) as u64)));
            foreign.insert((*c, *k), KeyPair::generate(&mut rng(seed, 6500 + (i * 16 + j) as u64)));
        }
    }
    Keys { registered, foreign }
}

/// (key index set, threshold) menu per credential
fn cred_menu() -> Vec<(Vec<u8>, u8)> { vec![(vec![0], 1), (vec![0, 1], 1), (vec![0, 1], 2), (vec![0, 255], 2), (vec![0, 1, 255], 2), (vec![0], 2)] }

fn structures() -> Vec<(Vec<(u8, usize)>, u8)> {
    // (list of (credential index, menu entry), account threshold)
    let mut out = vec![];
    let n = cred_menu().len();
    for t in 1..=3u8 {
        for a in 0..n {
            out.push((vec![(0u8, a)], t));
            out.push((vec![(0, a), (1, a), (255, a)], t));
            for b in 0..n {
                out.push((vec![(0, a), (1, b)], t));
                out.push((vec![(0, a), (255, b)], t));
            }
        }
    }
    out
}

fn build_structure(keys: &Keys, s: &(Vec<(u8, usize)>, u8)) -> AccountAccessStructure {
    let menu = cred_menu();
    let mut m = BTreeMap::new();
    for (c, e) in &s.0 {
        let (kis, thr) = &menu[*e];
        let mut ks = BTreeMap::new();
        for k in kis {
            ks.insert(KeyIndex(*k), VerifyKey::from(keys.registered[&(*c, *k)].public()));
        }
        m.insert(CredentialIndex { index: *c }, CredentialPublicKeys { keys: ks, threshold: SignatureThreshold::try_from(*thr).unwrap() });
    }
    AccountAccessStructure { keys: m, threshold: AccountThreshold::try_from(s.1).unwrap() }
}

/// The policy, evaluated from what the harness knows about each supplied signature.
fn policy(s: &(Vec<(u8, usize)>, u8), sigs: &BTreeMap<(u8, u8), Slot>) -> bool {
    let menu = cred_menu();
    let signed_creds: BTreeSet<u8> = sigs.keys().map(|(c, _)| *c).collect();
    if signed_creds.len() < s.1 as usize {
        return false;
    }
    for c in &signed_creds {
        let Some((_, e)) = s.0.iter().find(|(ci, _)| ci == c) else { return false };
        let (kis, thr) = &menu[*e];
        let n = sigs.keys().filter(|(ci, _)| ci == c).count();
        if n < *thr as usize {
            return false;
        }
        for ((ci, k), st) in sigs {
            if ci == c && (!kis.contains(k) || *st != Slot::Valid) {
                return false;
            }
        }
    }
    true
}

fn policy_predicate(report: &Report, cli: &Cli) {
    let q = cli.tier == Tier::Quick;
    let slot_creds: Vec<u8> = if q { vec![0, 1, 7] } else { vec![0, 1, 255, 7] };
    let slot_keys: Vec<u8> = if q { vec![0, 1, 9] } else { vec![0, 1, 255, 9] };
    let max_populated = if q { 3 } else { 4 };
    let all_creds = [0u8, 1, 255, 7];
    let all_keys = [0u8, 1, 255, 9];
    let keys = make_keys(cli.seed, &all_creds, &all_keys);
    let data = Sha256::digest(b"the message").to_vec();
    let other = Sha256::digest(b"another message").to_vec();
    // the signature for each (slot, state), made once
    let slots: Vec<(u8, u8)> = slot_creds.iter().flat_map(|c| slot_keys.iter().map(move |k| (*c, *k))).collect();
    let mut sig_for: BTreeMap<((u8, u8), usize), Signature> = BTreeMap::new();
    for s in &slots {
        // unregistered slots (credential 7 / key 9) are signed with a key of their own
        let kp = &keys.registered[s];
        for (si, st) in SLOT_STATES.iter().enumerate() {
            let sig: Signature = match st {
                Slot::Valid => kp.sign(&data).into(),
                Slot::OtherMessage => kp.sign(&other).into(),
                Slot::OtherKey => keys.foreign[s].sign(&data).into(),
                Slot::BitFlipped => {
                    let mut x: Signature = kp.sign(&data).into();
                    x.sig[5] ^= 0x10;
                    x
                }
                Slot::Absent => unreachable!(),
            };
            sig_for.insert((*s, si), sig);
        }
    }
    // all signature maps with <= max_populated populated slots
    let mut maps: Vec<Vec<(usize, usize)>> = vec![vec![]];
    fn gen(start: usize, nslots: usize, cur: &mut Vec<(usize, usize)>, max: usize, out: &mut Vec<Vec<(usize, usize)>>) {
        if cur.len() == max {
            return;
        }
        for s in start..nslots {
            for st in 0..4 {
                cur.push((s, st));
                out.push(cur.clone());
                gen(s + 1, nslots, cur, max, out);
                cur.pop();
            }
        }
    }
    gen(0, slots.len(), &mut vec![], max_populated, &mut maps);
    let structs = structures();
    let hash = concordium_base::hashes::TransactionSignHash::new(<[u8; 32]>::try_from(&data[..]).unwrap());
    let accepted = std::sync::atomic::AtomicU64::new(0);
    structs.par_iter().enumerate().for_each(|(si, s)| {
        let acc = build_structure(&keys, s);
        let mut local_accept = 0u64;
        for m in &maps {
            let mut sigmap: BTreeMap<CredentialIndex, BTreeMap<KeyIndex, Signature>> = BTreeMap::new();
            let mut states: BTreeMap<(u8, u8), Slot> = BTreeMap::new();
            for (slot, st) in m {
                let (c, k) = slots[*slot];
                sigmap.entry(CredentialIndex { index: c }).or_default().insert(KeyIndex(k), sig_for[&((c, k), *st)].clone());
                states.insert((c, k), SLOT_STATES[*st]);
            }
            let want = policy(s, &states);
            let got = verify_data_signature(&acc, &data, &sigmap);
            if got {
                local_accept += 1;
            }
            if got != want {
                report.violation(
                    if want { "authorised-signature-set-rejected" } else { "unauthorised-signature-set-accepted" },
                    json!({"structure": {"credentials": s.0.iter().map(|(c, e)| json!({"index": c, "keys": cred_menu()[*e].0, "threshold": cred_menu()[*e].1})).collect::<Vec<_>>(), "account_threshold": s.1},
                           "signatures": states.iter().map(|((c, k), st)| json!([c, k, format!("{st:?}")])).collect::<Vec<_>>()}),
                    json!({"expected": want, "observed": got, "function": "verify_data_signature"}),
                );
            }
            // the transaction-level entry point agrees (same map as a TransactionSignature)
            if m.len() <= 2 {
                let ts = TransactionSignature { signatures: sigmap };
                let got2 = verify_signature_transaction_sign_hash(&acc, &hash, &ts);
                if got2 != want {
                    report.violation("transaction-signature-verification-differs", json!({"structure": si, "map": format!("{states:?}")}), json!({"expected": want, "observed": got2}));
                }
            }
        }
        report.eval(maps.len() as u64);
        report.trace(maps.len() as u64);
        accepted.fetch_add(local_accept, std::sync::atomic::Ordering::Relaxed);
    });
    // a credential entry with an empty signature map
    case(report, json!({"policy": "credential with an empty signature map"}), || {
        let s = (vec![(0u8, 0usize)], 1u8);
        let acc = build_structure(&keys, &s);
        let mut sigmap: BTreeMap<CredentialIndex, BTreeMap<KeyIndex, Signature>> = BTreeMap::new();
        sigmap.insert(CredentialIndex { index: 0 }, BTreeMap::new());
        if verify_data_signature(&acc, &data, &sigmap) {
            return fail("unauthorised-signature-set-accepted", json!({}));
        }
        Ok(())
    });
    report.nontrivial(accepted.load(std::sync::atomic::Ordering::Relaxed));
    report.set_extra("policy_structures", json!(structs.len()));
    report.set_extra("policy_signature_maps", json!(maps.len()));
    report.set_extra("policy_accepting_cases", json!(accepted.load(std::sync::atomic::Ordering::Relaxed)));
}

/// Byte strings near a valid signature: longer (a valid signature followed by anything), shorter, empty.
/// None of them is a valid signature, whatever its first 64 bytes are.
fn signature_shapes(valid: &[u8]) -> Vec<(&'static str, Vec<u8>)> {
    let mut out: Vec<(&'static str, Vec<u8>)> = vec![];
    let with = |tail: &[u8]| -> Vec<u8> { valid.iter().chain(tail).copied().collect() };
    out.push(("valid + 00", with(&[0])));
    out.push(("valid + ff", with(&[0xFF])));
    out.push(("valid + valid", with(valid)));
    out.push(("valid + 1000 bytes", with(&[0xA5; 1000])));
    out.push(("valid + 64 zero bytes", with(&[0; 64])));
    out.push(("first 63 bytes", valid[..63].to_vec()));
    out.push(("first 32 bytes", valid[..32].to_vec()));
    out.push(("last 63 bytes", valid[1..].to_vec()));
    out.push(("00 + valid", [0u8].iter().chain(valid).copied().collect()));
    out.push(("empty", vec![]));
    out
}

/// Signature *shapes*: in a sufficient, fully valid signature set each single signature is replaced by
/// each byte string of `signature_shapes`; every result must be refused - by the data-level and the
/// transaction-level verifiers, before and after a trip through the wire format (the signature carries
/// its own length there), for plain and sponsored transactions, and by the per-key check of chain updates.
fn signature_shape_layer(report: &Report, cli: &Cli) {
    let all_creds = [0u8, 1, 255];
    let all_keys = [0u8, 1, 255];
    let keys = make_keys(cli.seed + 5, &all_creds, &all_keys);
    let data = Sha256::digest(b"the message").to_vec();
    let hash = concordium_base::hashes::TransactionSignHash::new(<[u8; 32]>::try_from(&data[..]).unwrap());
    let n = cred_menu().len();
    let mut structs: Vec<(Vec<(u8, usize)>, u8)> = vec![];
    for a in 0..n {
        structs.push((vec![(0u8, a)], 1));
        structs.push((vec![(0, a), (1, a), (255, a)], 2));
    }
    for s in &structs {
        // thresholds above the number of keys cannot be met at all
        if s.0.iter().any(|(_, e)| cred_menu()[*e].0.len() < cred_menu()[*e].1 as usize) {
            continue;
        }
        let acc = build_structure(&keys, s);
        let mut full: BTreeMap<CredentialIndex, BTreeMap<KeyIndex, Signature>> = BTreeMap::new();
        for (c, e) in &s.0 {
            for k in &cred_menu()[*e].0 {
                full.entry(CredentialIndex { index: *c }).or_default().insert(KeyIndex(*k), keys.registered[&(*c, *k)].sign(&data).into());
            }
        }
        case(report, json!({"signature_shapes": {"structure": format!("{s:?}"), "what": "all keys sign"}}), || {
            if !verify_data_signature(&acc, &data, &full) || !verify_signature_transaction_sign_hash(&acc, &hash, &TransactionSignature { signatures: full.clone() }) {
                return fail("authorised-signature-set-rejected", json!({}));
            }
            Ok(())
        });
        for (c, e) in &s.0 {
            for k in &cred_menu()[*e].0 {
                let valid: Signature = full[&CredentialIndex { index: *c }][&KeyIndex(*k)].clone();
                for (name, bytes) in signature_shapes(&valid.sig) {
                    case(report, json!({"signature_shapes": {"structure": format!("{s:?}"), "slot": [c, k], "shape": name}}), || {
                        let mut m = full.clone();
                        m.get_mut(&CredentialIndex { index: *c }).unwrap().insert(KeyIndex(*k), Signature { sig: bytes.clone() });
                        report.trace(1);
                        if verify_data_signature(&acc, &data, &m) {
                            return fail("unauthorised-signature-set-accepted", json!({"function": "verify_data_signature"}));
                        }
                        let ts = TransactionSignature { signatures: m };
                        if verify_signature_transaction_sign_hash(&acc, &hash, &ts) {
                            return fail("unauthorised-signature-set-accepted", json!({"function": "verify_signature_transaction_sign_hash"}));
                        }
                        // through the wire: whatever decodes must still be refused
                        let b = to_bytes(&ts);
                        if let Ok(back) = from_bytes::<TransactionSignature, _>(&mut &b[..]) {
                            if verify_signature_transaction_sign_hash(&acc, &hash, &back) {
                                return fail("unauthorised-signature-set-accepted", json!({"function": "verify_signature_transaction_sign_hash after decoding"}));
                            }
                        }
                        // the key itself
                        if VerifyKey::from(keys.registered[&(*c, *k)].public()).verify(&data, &Signature { sig: bytes.clone() }) {
                            return fail("malformed-signature-verifies-under-key", json!({}));
                        }
                        Ok(())
                    });
                }
            }
        }
    }
    // chain update keys
    let kp = UpdateKeyPair::generate(&mut rng(cli.seed, 6990));
    let pk = UpdatePublicKey::from(&kp);
    let h: [u8; 32] = Sha256::digest(b"update body").into();
    let valid = kp.sign(&h);
    case(report, json!({"signature_shapes": "update key, valid"}), || {
        if !pk.public.verify(h, &valid) {
            return fail("update-signature-not-over-documented-digest", json!({}));
        }
        Ok(())
    });
    for (name, bytes) in signature_shapes(&valid.sig) {
        case(report, json!({"signature_shapes": {"update key": name}}), || {
            if pk.public.verify(h, &Signature { sig: bytes.clone() }) {
                return fail("malformed-signature-verifies-under-key", json!({"what": "update key"}));
            }
            Ok(())
        });
    }
}

fn addr(b: u8) -> AccountAddress { AccountAddress([b; 32]) }

fn fixtures(num_sigs: u32, nonce: u64, expiry: u64) -> Vec<(&'static str, construct::PreAccountTransaction, u64)> {
    let n = Nonce { nonce };
    let e = TransactionTime { seconds: expiry };
    let s = addr(1);
    let mut out = vec![];
    out.push(("transfer", construct::transfer(num_sigs, s, n, e, addr(2), Amount::from_micro_ccd(17)), 300));
    out.push(("transfer_with_memo", construct::transfer_with_memo(num_sigs, s, n, e, addr(2), Amount::from_micro_ccd(u64::MAX), Memo::try_from(vec![1, 2, 3]).unwrap()), 300));
    out.push(("register_data", construct::register_data(num_sigs, s, n, e, RegisteredData::try_from(vec![9; 40]).unwrap()), 300));
    out.push(("register_data_empty", construct::register_data(num_sigs, s, n, e, RegisteredData::try_from(vec![]).unwrap()), 300));
    let sched = vec![(concordium_base::common::types::Timestamp { millis: 5 }, Amount::from_micro_ccd(1)), (concordium_base::common::types::Timestamp { millis: 6 }, Amount::from_micro_ccd(2))];
    out.push(("transfer_with_schedule", construct::transfer_with_schedule(num_sigs, s, n, e, addr(3), sched), 2 * (300 + 64)));
    let mut deleg = concordium_base::transactions::ConfigureDelegationPayload::new();
    deleg.set_capital(Amount::from_micro_ccd(1000)).set_restake_earnings(true);
    out.push(("configure_delegation", construct::configure_delegation(num_sigs, s, n, e, deleg), 300));
    out.push(("remove_baker", construct::remove_baker(num_sigs, s, n, e), 300));
    out.push(("update_baker_restake", construct::update_baker_restake_earnings(num_sigs, s, n, e, true), 300));
    out.push(("update_baker_stake", construct::update_baker_stake(num_sigs, s, n, e, Amount::from_micro_ccd(5)), 300));
    let mut baker = concordium_base::transactions::ConfigureBakerPayload::new();
    baker.set_capital(Amount::from_micro_ccd(7)).set_restake_earnings(false);
    out.push(("configure_baker_without_keys", construct::configure_baker(num_sigs, s, n, e, baker), 300));
    out
}

fn digest_binding_and_formulas(report: &Report, cli: &Cli) {
    let keys = make_keys(cli.seed, &[0, 1], &[0, 1]);
    let structure = (vec![(0u8, 2usize), (1u8, 0usize)], 2u8); // cred 0: keys {0,1} t=2; cred 1: key {0} t=1; account threshold 2
    let acc = build_structure(&keys, &structure);
    let mut signer: BTreeMap<CredentialIndex, BTreeMap<KeyIndex, KeyPair>> = BTreeMap::new();
    for (c, k) in [(0u8, 0u8), (0, 1), (1, 0)] {
        signer.entry(CredentialIndex { index: c }).or_default().insert(KeyIndex(k), keys.registered[&(c, k)].clone());
    }
    let header_alphabet: Vec<(u64, u64)> = if cli.tier == Tier::Quick { vec![(1, 0), (u64::MAX, u64::MAX)] } else { vec![(0, 0), (1, 1), (u64::MAX, u64::MAX), (1, u64::MAX)] };
    for &(nonce, expiry) in &header_alphabet {
        for (name, pre, specific) in fixtures(3, nonce, expiry) {
            let wit = json!({"fixture": name, "nonce": nonce.to_string(), "expiry": expiry.to_string()});
            case(report, wit.clone(), || {
                // (c) documented functions
                let payload_bytes = pre.encoded.to_owned();
                let body = {
                    let mut b = to_bytes(&pre.header);
                    b.extend_from_slice(payload_bytes.as_ref());
                    b
                };
                if u32::from(pre.header.payload_size) as usize != payload_bytes.as_ref().len() {
                    return fail("payload-size-differs", json!({"declared": u32::from(pre.header.payload_size), "actual": payload_bytes.as_ref().len()}));
                }
                let want_hash: [u8; 32] = Sha256::digest(&body).into();
                if pre.hash_to_sign.as_ref() != want_hash || compute_transaction_sign_hash(&pre.header, &pre.encoded).as_ref() != want_hash {
                    return fail("sign-hash-differs", json!({}));
                }
                let want_energy = cost::B * (60 + payload_bytes.as_ref().len() as u64) + cost::A * 3 + specific;
                if u64::from(pre.header.energy_amount) != want_energy {
                    return fail("energy-differs-from-documented-formula", json!({"expected": want_energy, "observed": u64::from(pre.header.energy_amount)}));
                }
                if to_bytes(&pre.header).len() != 60 {
                    return fail("header-size-differs", json!({"len": to_bytes(&pre.header).len()}));
                }
                // the payload decodes back to the payload it was built from
                let decoded = pre.encoded.decode().map_err(|e| ("payload-does-not-decode".to_string(), json!(format!("{e:#}"))))?;
                if to_bytes(&decoded.encode()) != to_bytes(&pre.encoded) {
                    return fail("payload-round-trip-differs", json!({}));
                }
                // signing with sufficient keys verifies
                let tx: AccountTransaction<EncodedPayload> = pre.clone().sign(&signer);
                report.trace(1);
                if !tx.verify_transaction_signature(&acc) {
                    return fail("sufficiently-signed-transaction-rejected", json!({}));
                }
                // block item hash = SHA-256 of the serialised block item
                let bi: BlockItem<EncodedPayload> = BlockItem::from(tx.clone());
                let bi_bytes = to_bytes(&bi);
                let want_bi: [u8; 32] = Sha256::digest(&bi_bytes).into();
                if bi.hash().as_ref() != want_bi {
                    return fail("block-item-hash-differs", json!({}));
                }
                // (b) digest binding: every bit of header || payload
                let full = to_bytes(&tx);
                let sig_len = to_bytes(&tx.signature).len();
                if full.len() != sig_len + body.len() {
                    return fail("serialisation-layout", json!({}));
                }
                for bit in 0..body.len() * 8 {
                    let m = flip(&full, sig_len * 8 + bit);
                    if let Ok(t2) = from_bytes::<AccountTransaction<EncodedPayload>, _>(&mut &m[..]) {
                        report.trace(1);
                        if t2.verify_transaction_signature(&acc) {
                            return fail("altered-transaction-verifies", json!({"bit_of_body": bit}));
                        }
                    }
                }
                // every bit of the signature part
                for bit in 0..sig_len * 8 {
                    let m = flip(&full, bit);
                    if let Ok(t2) = from_bytes::<AccountTransaction<EncodedPayload>, _>(&mut &m[..]) {
                        report.trace(1);
                        if to_bytes(&t2) == m && t2.verify_transaction_signature(&acc) {
                            return fail("altered-signature-set-verifies", json!({"bit_of_signatures": bit}));
                        }
                    }
                }
                // entries of the signature set added / removed (count fields with their elements,
                // every element size up to two-signature credentials)
                let sizes: Vec<usize> = (1..=140).collect();
                for (what, eb) in count_field_edits_sizes(&full[..sig_len], &sizes) {
                    let mut m = eb;
                    m.extend_from_slice(&full[sig_len..]);
                    if let Ok(t2) = from_bytes::<AccountTransaction<EncodedPayload>, _>(&mut &m[..]) {
                        report.trace(1);
                        if m != full && t2.verify_transaction_signature(&acc) {
                            return fail("altered-signature-set-verifies", json!({"edit": what}));
                        }
                    }
                }
                // key set: any registered key replaced makes verification fail
                for (c, k) in [(0u8, 0u8), (0, 1), (1, 0)] {
                    let mut acc2 = acc.clone();
                    acc2.keys.get_mut(&CredentialIndex { index: c }).unwrap().keys.insert(KeyIndex(k), VerifyKey::from(keys.foreign[&(0, 0)].public()));
                    if tx.verify_transaction_signature(&acc2) {
                        return fail("transaction-verifies-under-altered-key-set", json!({"credential": c, "key": k}));
                    }
                }
                // v1 (sponsored) transactions
                let mut v1 = pre.clone().extend();
                let want_v1: [u8; 32] = {
                    let mut h = Sha256::new();
                    let mut prefix = [0u8; 32];
                    prefix[31] = 1;
                    h.update(prefix);
                    h.update(to_bytes(&v1.header));
                    h.update(payload_bytes.as_ref());
                    h.finalize().into()
                };
                if v1.hash_to_sign.as_ref() != want_v1 || compute_transaction_sign_hash_v1(&v1.header, &v1.encoded).as_ref() != want_v1 {
                    return fail("sign-hash-differs", json!({"version": 1}));
                }
                if u64::from(v1.header.energy_amount) != want_energy + 2 {
                    return fail("energy-differs-from-documented-formula", json!({"version": 1}));
                }
                v1.sign(&signer);
                let unsponsored = v1.finalize().map_err(|e| ("finalize-failed".to_string(), json!(e)))?;
                report.trace(1);
                if !unsponsored.verify_transaction_signature(&acc, &acc) {
                    return fail("sufficiently-signed-transaction-rejected", json!({"version": 1}));
                }
                // sponsored by another account
                let sponsor_keys = make_keys(cli.seed + 77, &[0], &[0]);
                let sponsor_acc = build_structure(&sponsor_keys, &(vec![(0u8, 0usize)], 1u8));
                let mut sponsor_signer: BTreeMap<CredentialIndex, BTreeMap<KeyIndex, KeyPair>> = BTreeMap::new();
                sponsor_signer.entry(CredentialIndex { index: 0 }).or_default().insert(KeyIndex(0), sponsor_keys.registered[&(0, 0)].clone());
                let mut v1s = pre.clone().extend();
                v1s.add_sponsor(addr(9), 1).map_err(|e| ("add-sponsor-failed".to_string(), json!(e)))?;
                if u64::from(v1s.header.energy_amount) != want_energy + 2 + 32 + cost::A {
                    return fail("energy-differs-from-documented-formula", json!({"version": 1, "sponsored": true}));
                }
                v1s.sign(&signer);
                // sender signed, sponsor did not: a sponsored transaction lacks its sponsor's authorisation
                let half = v1s.finalize().map_err(|e| ("finalize-failed".to_string(), json!(e)))?;
                report.trace(1);
                if half.verify_transaction_signature(&acc, &sponsor_acc) {
                    return fail("sponsored-transaction-without-sponsor-signature-verifies", json!({}));
                }
                v1s.sponsor(&sponsor_signer).map_err(|e| ("sponsor-failed".to_string(), json!(e)))?;
                let full_v1 = v1s.finalize().map_err(|e| ("finalize-failed".to_string(), json!(e)))?;
                report.trace(1);
                if !full_v1.verify_transaction_signature(&acc, &sponsor_acc) {
                    return fail("sufficiently-signed-transaction-rejected", json!({"version": 1, "sponsored": true}));
                }
                // sponsor's signature checked against the wrong account / sender's against the sponsor's keys
                if full_v1.verify_transaction_signature(&acc, &acc) || full_v1.verify_transaction_signature(&sponsor_acc, &sponsor_acc) {
                    return fail("transaction-verifies-under-altered-key-set", json!({"version": 1}));
                }
                // sponsor address changed after signing
                let mut moved = full_v1.clone();
                moved.header.sponsor = Some(addr(10));
                if moved.verify_transaction_signature(&acc, &sponsor_acc) {
                    return fail("altered-transaction-verifies", json!({"what": "sponsor address"}));
                }
                // signatures swapped
                let swapped = AccountTransactionV1 {
                    signatures: TransactionSignaturesV1 { sender: full_v1.signatures.sponsor.clone().unwrap(), sponsor: Some(full_v1.signatures.sender.clone()) },
                    header: full_v1.header.clone(),
                    payload: full_v1.payload.clone(),
                };
                if swapped.verify_transaction_signature(&acc, &sponsor_acc) {
                    return fail("altered-signature-set-verifies", json!({"what": "sender and sponsor signatures swapped"}));
                }
                // v1 bytes: every bit of header || payload
                let full_bytes = to_bytes(&full_v1);
                let sigs_len = to_bytes(&full_v1.signatures).len();
                for bit in (sigs_len * 8)..(full_bytes.len() * 8) {
                    let m = flip(&full_bytes, bit);
                    if let Ok(t2) = from_bytes::<AccountTransactionV1<EncodedPayload>, _>(&mut &m[..]) {
                        report.trace(1);
                        if t2.verify_transaction_signature(&acc, &sponsor_acc) {
                            return fail("altered-transaction-verifies", json!({"version": 1, "bit": bit - sigs_len * 8}));
                        }
                    }
                }
                let _ = TransactionHeaderV1 { sender: addr(1), nonce: Nonce { nonce: 1 }, energy_amount: Energy { energy: 1 }, payload_size: pre.header.payload_size, expiry: TransactionTime { seconds: 1 }, sponsor: None };
                Ok(())
            });
        }
    }
    let _ = TransactionHeader { sender: addr(1), nonce: Nonce { nonce: 1 }, energy_amount: Energy { energy: 1 }, payload_size: fixtures(1, 1, 1)[0].1.header.payload_size, expiry: TransactionTime { seconds: 1 } };
}

fn chain_updates(report: &Report, cli: &Cli) {
    // 4 registered update keys, one unregistered
    let kps: Vec<UpdateKeyPair> = (0..5).map(|i| UpdateKeyPair::generate(&mut rng(cli.seed, 6900 + i))).collect();
    let registered: Vec<UpdatePublicKey> = kps[..4].iter().map(UpdatePublicKey::from).collect();
    let payloads: Vec<(&str, UpdatePayload)> = vec![
        ("euro_per_energy", UpdatePayload::EuroPerEnergy(concordium_base::base::ExchangeRate::new(1, 50000).unwrap())),
        ("micro_gtu_per_euro", UpdatePayload::MicroGTUPerEuro(concordium_base::base::ExchangeRate::new(7, 3).unwrap())),
        ("foundation_account", UpdatePayload::FoundationAccount(addr(4))),
    ];
    for authorized in [vec![0u16, 1], vec![0, 1, 2], vec![2]] {
        for threshold in 1..=(authorized.len() as u16).min(3) {
            let access = AccessStructure {
                authorized_keys: authorized.iter().map(|i| UpdateKeysIndex { index: *i }).collect(),
                threshold: UpdateKeysThreshold::try_from(threshold).unwrap(),
            };
            // every sequence of <= 3 signer keys (with repetition, incl. unauthorised / unregistered)
            let mut seqs: Vec<Vec<usize>> = vec![vec![]];
            for a in 0..5 {
                seqs.push(vec![a]);
                for b in 0..5 {
                    seqs.push(vec![a, b]);
                    if cli.tier == Tier::Thorough {
                        for c in 0..5 {
                            seqs.push(vec![a, b, c]);
                        }
                    }
                }
            }
            for seq in seqs {
                let wit = json!({"update": {"authorized": authorized, "threshold": threshold, "signers": seq}});
                case(report, wit, || {
                    let actual: Vec<UpdateKeyPair> = seq.iter().map(|i| kps[*i].clone()).collect();
                    let got = find_authorized_keys(&registered, &access, actual);
                    let distinct = seq.iter().collect::<BTreeSet<_>>().len() == seq.len();
                    let all_ok = seq.iter().all(|i| *i < 4 && authorized.contains(&(*i as u16)));
                    let want = distinct && all_ok;
                    report.trace(1);
                    if got.is_some() != want {
                        return fail(if want { "authorised-update-signers-rejected" } else { "unauthorised-update-signers-accepted" }, json!({"got": got.is_some()}));
                    }
                    if let Some(signer) = got {
                        // indices are the positions of the keys in the registered list
                        let idx: BTreeSet<u16> = signer.keys().map(|k| k.index).collect();
                        let want_idx: BTreeSet<u16> = seq.iter().map(|i| *i as u16).collect();
                        if idx != want_idx {
                            return fail("update-signer-indices-differ", json!({}));
                        }
                        if signer.is_empty() {
                            return Ok(());
                        }
                        for (pn, payload) in &payloads {
                            let ui = updates::update::update(&signer, UpdateSequenceNumber::from(5u64), TransactionTime { seconds: 100 }, TransactionTime { seconds: 90 }, payload.clone());
                            // sign hash = SHA-256(serialised header || payload bytes)
                            let mut body = to_bytes(&ui.header);
                            body.extend_from_slice(ui.payload.as_ref());
                            let h: [u8; 32] = Sha256::digest(&body).into();
                            if u32::from(ui.header.payload_size) as usize != ui.payload.as_ref().len() {
                                return fail("payload-size-differs", json!({"update": pn}));
                            }
                            for (ki, sig) in ui.signatures.signatures.iter() {
                                let pk = &registered[ki.index as usize];
                                report.trace(1);
                                if !pk.public.verify(h, sig) {
                                    return fail("update-signature-not-over-documented-digest", json!({"update": pn}));
                                }
                                // any flipped bit of the body invalidates the signature
                                for bit in (0..body.len() * 8).step_by(if cli.tier == Tier::Quick { 7 } else { 1 }) {
                                    let h2: [u8; 32] = Sha256::digest(flip(&body, bit)).into();
                                    if pk.public.verify(h2, sig) {
                                        return fail("update-signature-verifies-for-altered-body", json!({"bit": bit}));
                                    }
                                }
                                // and it does not verify under any other registered key
                                for (j, other) in registered.iter().enumerate() {
                                    if j != ki.index as usize && other.public.verify(h, sig) {
                                        return fail("update-signature-verifies-under-other-key", json!({}));
                                    }
                                }
                            }
                            // serialisation round trip of the instruction
                            let b = to_bytes(&ui);
                            let back: updates::UpdateInstruction = from_bytes(&mut &b[..]).map_err(|e| ("update-does-not-decode".to_string(), json!(format!("{e:#}"))))?;
                            if to_bytes(&back) != b {
                                return fail("update-round-trip-differs", json!({}));
                            }
                        }
                    }
                    Ok(())
                });
            }
        }
    }
}

/// Every `TransactionSigner` the library offers, on accounts whose credential and key indices are
/// dense, sparse, shifted and at the top of the range: a signer that holds at least the
/// thresholds signs so that the transaction verifies, supplies exactly `num_keys()` signatures,
/// and `send::*` declares the energy for that many signatures.
fn signers(report: &Report, cli: &Cli) {
    use concordium_base::id::types::{AccountKeys, CredentialData};
    use concordium_base::transactions::{send, ExactSizeTransactionSigner, TransactionSigner};
    let cred_sets: Vec<Vec<u8>> = vec![vec![0], vec![5], vec![255], vec![0, 1], vec![0, 2], vec![1, 2], vec![254, 255], vec![0, 1, 2], vec![0, 7, 255]];
    let key_sets: Vec<Vec<u8>> = vec![vec![0], vec![3], vec![0, 1], vec![0, 3], vec![254, 255], vec![1, 2, 7]];
    let mut cases = vec![];
    for cs in &cred_sets {
        for at in 1..=cs.len() as u8 {
            for (ki, ks) in key_sets.iter().enumerate() {
                for kt in 1..=ks.len() as u8 {
                    // the other credentials take the next key set with threshold 1
                    cases.push((cs.clone(), at, ki, kt));
                }
            }
        }
    }
    report.set_extra("signer_structures", json!(cases.len()));
    cases.par_iter().for_each(|(cs, at, ki, kt)| {
        let wit = json!({"signer": {"credentials": cs, "account_threshold": at, "keys_of_first_credential": key_sets[*ki], "key_threshold": kt}});
        case(report, wit, || {
            let mut keys = BTreeMap::new();
            for (n, c) in cs.iter().enumerate() {
                let (kset, thr) = if n == 0 { (&key_sets[*ki], *kt) } else { (&key_sets[(*ki + n) % key_sets.len()], 1u8) };
                let mut m = BTreeMap::new();
                for k in kset {
                    m.insert(KeyIndex(*k), KeyPair::generate(&mut rng(cli.seed, 6900 + *c as u64 * 256 + *k as u64)));
                }
                keys.insert(CredentialIndex { index: *c }, CredentialData { keys: m, threshold: SignatureThreshold::try_from(thr).unwrap() });
            }
            let explicit: BTreeMap<CredentialIndex, BTreeMap<KeyIndex, KeyPair>> = keys.iter().map(|(c, d)| (*c, d.keys.clone())).collect();
            let ak = AccountKeys { keys, threshold: AccountThreshold::try_from(*at).unwrap() };
            let acc = AccountAccessStructure::from(&ak);
            let check = |name: &str, n_keys: u32, tx: AccountTransaction<EncodedPayload>| -> Result<(), (String, serde_json::Value)> {
                report.trace(1);
                if !tx.verify_transaction_signature(&acc) {
                    return fail("sufficiently-signed-transaction-rejected", json!({"signer": name}));
                }
                let supplied: usize = tx.signature.signatures.values().map(|m| m.len()).sum();
                if supplied as u32 != n_keys {
                    return fail("signer-supplies-other-number-of-signatures-than-it-declares", json!({"signer": name, "declared": n_keys, "supplied": supplied}));
                }
                let want_energy = cost::B * (60 + u32::from(tx.header.payload_size) as u64) + cost::A * n_keys as u64 + 300;
                if u64::from(tx.header.energy_amount) != want_energy {
                    return fail("energy-differs-from-documented-formula", json!({"signer": name, "expected": want_energy, "observed": u64::from(tx.header.energy_amount)}));
                }
                Ok(())
            };
            let (s, n, e) = (addr(1), Nonce { nonce: 1 }, TransactionTime { seconds: 9 });
            let t = |tx: AccountTransaction<EncodedPayload>| tx;
            check("AccountKeys", ak.num_keys(), t(send::transfer(&ak, s, n, e, addr(2), Amount::from_micro_ccd(3))))?;
            let r = &ak;
            check("&AccountKeys", r.num_keys(), t(send::transfer(&r, s, n, e, addr(2), Amount::from_micro_ccd(3))))?;
            check("explicit key map", explicit.num_keys(), t(send::transfer(&explicit, s, n, e, addr(2), Amount::from_micro_ccd(3))))?;
            let arc = std::sync::Arc::new(explicit.clone());
            check("Arc<key map>", arc.num_keys(), t(send::transfer(&arc, s, n, e, addr(2), Amount::from_micro_ccd(3))))?;
            // pre-transaction signed through the plain TransactionSigner interface
            let pre = construct::transfer(ak.num_keys(), s, n, e, addr(2), Amount::from_micro_ccd(3));
            let tx: AccountTransaction<EncodedPayload> = pre.clone().sign(&ak);
            check("construct + sign(AccountKeys)", ak.num_keys(), tx)?;
            // and the sponsor side of a sponsored transaction is signed the same way
            let h = ak.sign_transaction_hash(&pre.hash_to_sign);
            let sup: usize = h.signatures.values().map(|m| m.len()).sum();
            if sup as u32 != ak.num_keys() {
                return fail("signer-supplies-other-number-of-signatures-than-it-declares", json!({"signer": "sign_transaction_hash", "declared": ak.num_keys(), "supplied": sup}));
            }
            if !verify_signature_transaction_sign_hash(&acc, &pre.hash_to_sign, &h) {
                return fail("sufficiently-signed-transaction-rejected", json!({"signer": "sign_transaction_hash"}));
            }
            Ok(())
        });
    });
}

pub fn run(cli: &Cli) -> ! {
    let report = Report::new(cli);
    policy_predicate(&report, cli);
    signature_shape_layer(&report, cli);
    signers(&report, cli);
    digest_binding_and_formulas(&report, cli);
    chain_updates(&report, cli);
    let n = report.evaluations.load(std::sync::atomic::Ordering::Relaxed);
    report.state(n);
    report.transition(report.traces.load(std::sync::atomic::Ordering::Relaxed));
    report.sample(json!({"structure": {"credentials": [{"index": 0, "keys": [0, 1], "threshold": 2}, {"index": 1, "keys": [0], "threshold": 1}], "account_threshold": 2}, "signatures": [[0, 0, "Valid"], [0, 1, "OtherKey"], [1, 0, "Valid"]], "expected": false}));
    report.sample(json!({"fixture": "transfer_with_memo", "bit_flip_of_body": 133, "expected": "does not verify"}));
    report.set_technique("exhaustive enumeration of access structures x signature maps (each slot absent / valid / valid for another message / valid under another key / bit-flipped, <=3/4 populated slots) against the 4-line threshold policy; complete bit-flip neighbourhood of header||payload and of the signature part for every payload fixture and header alphabet; recomputation of digests, sizes and energies from bytes; all signer sequences for chain updates; every signature of a sufficient set replaced by over-long / truncated / empty byte strings around it");
    report.set_rule("one case = one (structure, signature map) pair, one fixture with all its bit flips, or one update signer sequence; non-trivial = accepting (structure, map) pairs");
    report.assume("thresholds 1..3 and index values {0,1,255} stand for the full 1..255 range; the library has no verifier for update instructions, so for updates the signer selection and the per-key signatures over the documented digest are checked");
    report.finish(true, json!({"max_populated_slots": if cli.tier == Tier::Quick { 3 } else { 4 }}));
}
