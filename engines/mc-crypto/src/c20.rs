//! C20: group arithmetic, encodings, secret sharing, key derivation.

use crate::util::*;
use ark_ec::{short_weierstrass::Affine, CurveGroup};
use ark_serialize::CanonicalSerialize;
use concordium_base::{
    common::{from_bytes, to_bytes, Deserial, Serial},
    curve_arithmetic::{multiexp, Curve, Field, GenericMultiExp, MultiExp, PrimeField},
    id::{
        constants::{ArCurve, BlsG2},
        secret_sharing::{reveal, reveal_in_group, share, Threshold},
    },
    pedersen_commitment::Value as PedersenValue,
};
use curve25519_dalek::ristretto::RistrettoPoint;
use mc_core::{Cli, Report, Tier};
use rayon::prelude::*;
use serde_json::json;
use std::collections::BTreeSet;

fn boundary_scalars<C: Curve>(seed: u64, tier: Tier) -> Vec<(String, C::Scalar)> {
    let mut v: Vec<(String, C::Scalar)> = vec![];
    v.push(("0".into(), C::Scalar::zero()));
    v.push(("1".into(), C::Scalar::one()));
    v.push(("2".into(), from_u64::<C>(2)));
    v.push(("r-1".into(), minus_one()));
    v.push(("r-2".into(), sub(minus_one::<C::Scalar>(), C::Scalar::one())));
    let nbits = <C::Scalar as PrimeField>::NUM_BITS;
    let mut ks: Vec<u32> = vec![1, 2, 3, 4, 5, 6, 7, 8, 9, 63, 64, 65, 127, 128, 129, 191, 192, 193, nbits - 3, nbits - 2];
    if tier == Tier::Quick {
        ks = vec![3, 4, 5, 63, 64, 65, 128, 192, nbits - 2];
    }
    for k in ks {
        let p = pow2::<C>(k);
        v.push((format!("2^{k}-1"), sub(p, C::Scalar::one())));
        v.push((format!("2^{k}"), p));
        v.push((format!("2^{k}+1"), add(p, C::Scalar::one())));
    }
    // alternating bit patterns (windows of all-ones / carries everywhere), reduced below 2^(nbits-2)
    for (name, pat) in [("0x55..", 0x5555_5555_5555_5555u64), ("0xAA..", 0xAAAA_AAAA_AAAA_AAAA), ("0xFF..", u64::MAX), ("0xF0..", 0xF0F0_F0F0_F0F0_F0F0)] {
        let top = pat & ((1u64 << ((nbits - 2) % 64)) - 1);
        let limbs = [pat, pat, pat, top];
        if let Ok(s) = <C::Scalar as PrimeField>::from_repr(&limbs) {
            v.push((name.into(), s));
        }
    }
    let mut r = rng(seed, 20);
    v.push(("random".into(), C::generate_scalar(&mut r)));
    v
}

fn points<C: Curve>(seed: u64) -> Vec<(String, C)> {
    let g = C::one_point();
    let mut r = rng(seed, 21);
    vec![
        ("g".into(), g),
        ("2g".into(), g.double_point()),
        ("-g".into(), g.inverse_point()),
        ("0".into(), C::zero_point()),
        ("h".into(), C::generate(&mut r)),
    ]
}

fn naive<C: Curve>(ps: &[C], ss: &[C::Scalar]) -> C { ps.iter().zip(ss).fold(C::zero_point(), |acc, (p, s)| acc.plus_point(&p.mul_by_scalar(s))) }

fn multiexp_curve<C: Curve>(report: &Report, name: &str, cli: &Cli) {
    let scalars = boundary_scalars::<C>(cli.seed, cli.tier);
    let pts = points::<C>(cli.seed);
    let windows: Vec<usize> = if cli.tier == Tier::Quick { vec![1, 2, 4, 5, 8] } else { (1..=8).collect() };
    // length 0
    case(report, json!({"multiexp": name, "len": 0}), || {
        let e: Vec<C> = vec![];
        let s: Vec<C::Scalar> = vec![];
        if !multiexp::<C, C>(&e, &s).is_zero_point() {
            return fail("multiexp-differs", json!("empty product is not the identity"));
        }
        Ok(())
    });
    // length 1: every scalar x every point x every window size (+ the curve's default algorithm)
    let cases1: Vec<(usize, usize)> = (0..scalars.len()).flat_map(|s| (0..pts.len()).map(move |p| (s, p))).collect();
    cases1.par_iter().for_each(|&(si, pi)| {
        let (sn, s) = &scalars[si];
        let (pn, p) = &pts[pi];
        let want = p.mul_by_scalar(s);
        case(report, json!({"multiexp": name, "scalars": [sn], "points": [pn]}), || {
            if multiexp::<C, C>(&[*p], &[*s]) != want {
                return fail("multiexp-differs", json!({"algorithm": "default"}));
            }
            for &w in &windows {
                let t = GenericMultiExp::<C>::new(&[*p], w);
                if t.multiexp(&[*s]) != want {
                    return fail("multiexp-differs", json!({"window": w}));
                }
            }
            report.trace(windows.len() as u64 + 1);
            Ok(())
        });
    });
    // length 2: every pair of scalars x a reduced set of point pairs (repeated point, identity, inverse)
    let pairs: Vec<(usize, usize)> = vec![(0, 0), (0, 1), (0, 2), (0, 3), (4, 0), (3, 3)];
    let cases2: Vec<(usize, usize, usize)> =
        (0..scalars.len()).flat_map(|a| (0..scalars.len()).map(move |b| (a, b))).flat_map(|(a, b)| (0..pairs.len()).map(move |p| (a, b, p))).collect();
    let w2: Vec<usize> = if cli.tier == Tier::Quick { vec![4] } else { vec![1, 3, 4, 7] };
    cases2.par_iter().for_each(|&(a, b, pp)| {
        let ss = [scalars[a].1, scalars[b].1];
        let ps = [pts[pairs[pp].0].1, pts[pairs[pp].1].1];
        let want = naive(&ps, &ss);
        case(report, json!({"multiexp": name, "scalars": [scalars[a].0, scalars[b].0], "points": [pts[pairs[pp].0].0, pts[pairs[pp].1].0]}), || {
            if multiexp::<C, C>(&ps, &ss) != want {
                return fail("multiexp-differs", json!({"algorithm": "default"}));
            }
            for &w in &w2 {
                if GenericMultiExp::<C>::new(&ps, w).multiexp(&ss) != want {
                    return fail("multiexp-differs", json!({"window": w}));
                }
            }
            report.trace(w2.len() as u64 + 1);
            Ok(())
        });
    });
    // length 3 and 5: a reduced scalar alphabet, all triples
    let small: Vec<usize> = vec![0, 1, 3, 4, scalars.len() - 1, 8, 11];
    let mut cases3 = vec![];
    for &a in &small {
        for &b in &small {
            for &c in &small {
                cases3.push((a, b, c));
            }
        }
    }
    cases3.par_iter().for_each(|&(a, b, c)| {
        let ss = [scalars[a].1, scalars[b].1, scalars[c].1];
        let ps = [pts[0].1, pts[4].1, pts[0].1];
        let want = naive(&ps, &ss);
        case(report, json!({"multiexp": name, "scalars": [scalars[a].0, scalars[b].0, scalars[c].0], "points": ["g", "h", "g"]}), || {
            if multiexp::<C, C>(&ps, &ss) != want || GenericMultiExp::<C>::new(&ps, 4).multiexp(&ss) != want {
                return fail("multiexp-differs", json!({}));
            }
            report.trace(2);
            Ok(())
        });
    });
    report.add_extra_count("multiexp_cases", (1 + cases1.len() + cases2.len() + cases3.len()) as u64);
}

/// Every single-bit flip of valid encodings: whatever decodes must re-encode to the same
/// bytes (canonical) and be a group element; plus structured invalid encodings.
fn encodings_curve<C: Curve + Serial + Deserial>(report: &Report, name: &str, cli: &Cli, in_subgroup: &(dyn Fn(&C) -> bool + Sync)) {
    let pts = points::<C>(cli.seed);
    let mut accepted = 0u64;
    for (pn, p) in &pts {
        let enc = to_bytes(p);
        case(report, json!({"encoding": name, "point": pn, "what": "round trip"}), || {
            if enc.len() != C::GROUP_ELEMENT_LENGTH {
                return fail("encoding-length", json!({"len": enc.len()}));
            }
            let back: C = from_bytes(&mut &enc[..]).map_err(|e| ("valid-encoding-rejected".to_string(), json!(format!("{e:#}"))))?;
            if back != *p {
                return fail("round-trip-differs", json!({}));
            }
            Ok(())
        });
        let results: Vec<bool> = (0..enc.len() * 8)
            .into_par_iter()
            .map(|bit| {
                let m = flip(&enc, bit);
                let mut ok = false;
                case(report, json!({"encoding": name, "point": pn, "flip_bit": bit}), || {
                    match from_bytes::<C, _>(&mut &m[..]) {
                        Err(_) => Ok(()),
                        Ok(q) => {
                            ok = true;
                            if to_bytes(&q) != m {
                                return fail("non-canonical-encoding-accepted", json!({"bytes": mc_core::hex(&m), "reencoded": mc_core::hex(&to_bytes(&q))}));
                            }
                            if !in_subgroup(&q) {
                                return fail("point-outside-group-accepted", json!({"bytes": mc_core::hex(&m)}));
                            }
                            if q == *p {
                                return fail("two-encodings-of-one-point", json!({"bytes": mc_core::hex(&m)}));
                            }
                            Ok(())
                        }
                    }
                });
                ok
            })
            .collect();
        accepted += results.iter().filter(|x| **x).count() as u64;
        // truncations and one trailing byte
        for cut in [0, 1, enc.len() - 1] {
            case(report, json!({"encoding": name, "point": pn, "truncate": cut}), || {
                if from_bytes::<C, _>(&mut &enc[..cut]).is_ok() {
                    return fail("truncated-encoding-accepted", json!({"len": cut}));
                }
                Ok(())
            });
        }
    }
    report.nontrivial(accepted);
    report.add_extra_count("bit_flipped_encodings_that_decode", accepted);
}

/// Points on the BLS12-381 curves that are NOT in the prime-order subgroup, found by
/// scanning x = 0, 1, 2, ...; their (unchecked) compressed encodings must be rejected.
fn wrong_subgroup_g1(report: &Report, n: usize) {
    use ark_bls12_381::{g1::Config as G1Config, Fq};
    let mut found = 0;
    let mut x = 0u64;
    while found < n && x < 10_000 {
        let fx = Fq::from(x);
        x += 1;
        for greatest in [false, true] {
            if let Some(p) = Affine::<G1Config>::get_point_from_x_unchecked(fx, greatest) {
                if p.is_on_curve() && !p.is_in_correct_subgroup_assuming_on_curve() {
                    found += 1;
                    let mut bytes = vec![];
                    p.serialize_compressed(&mut bytes).unwrap();
                    case(report, json!({"encoding": "G1", "wrong_subgroup_x": x - 1, "greatest": greatest}), || {
                        if from_bytes::<ArCurve, _>(&mut &bytes[..]).is_ok() {
                            return fail("point-outside-group-accepted", json!({"bytes": mc_core::hex(&bytes)}));
                        }
                        Ok(())
                    });
                }
            }
        }
    }
    report.add_extra_count("wrong_subgroup_points", found as u64);
}

fn wrong_subgroup_g2(report: &Report, n: usize) {
    use ark_bls12_381::{g2::Config as G2Config, Fq, Fq2};
    let mut found = 0;
    let mut x = 0u64;
    while found < n && x < 10_000 {
        let fx = Fq2::new(Fq::from(x), Fq::from(1u64));
        x += 1;
        for greatest in [false, true] {
            if let Some(p) = Affine::<G2Config>::get_point_from_x_unchecked(fx, greatest) {
                if p.is_on_curve() && !p.is_in_correct_subgroup_assuming_on_curve() {
                    found += 1;
                    let mut bytes = vec![];
                    p.serialize_compressed(&mut bytes).unwrap();
                    case(report, json!({"encoding": "G2", "wrong_subgroup_x": x - 1, "greatest": greatest}), || {
                        if from_bytes::<BlsG2, _>(&mut &bytes[..]).is_ok() {
                            return fail("point-outside-group-accepted", json!({"bytes": mc_core::hex(&bytes)}));
                        }
                        Ok(())
                    });
                }
            }
        }
    }
    report.add_extra_count("wrong_subgroup_points", found as u64);
}

fn scalar_encodings<C: Curve>(report: &Report, name: &str, cli: &Cli)
where
    C::Scalar: Serial + Deserial, {
    let scalars = boundary_scalars::<C>(cli.seed, cli.tier);
    for (sn, s) in &scalars {
        case(report, json!({"scalar_encoding": name, "scalar": sn}), || {
            let b = to_bytes(s);
            if b.len() != C::SCALAR_LENGTH {
                return fail("encoding-length", json!({"len": b.len()}));
            }
            let back: C::Scalar = from_bytes(&mut &b[..]).map_err(|e| ("valid-encoding-rejected".to_string(), json!(format!("{e:#}"))))?;
            if back != *s {
                return fail("round-trip-differs", json!({}));
            }
            Ok(())
        });
    }
    // r, r+1, 2^256-1 in the encoding's byte order must be rejected; anything accepted must
    // be canonical. The byte order is discovered from the encoding of 1.
    let one = to_bytes(&C::Scalar::one());
    let big_endian = one[one.len() - 1] == 1;
    let rm1 = to_bytes(&minus_one::<C::Scalar>());
    let to_le = |b: &[u8]| -> Vec<u8> {
        if big_endian {
            b.iter().rev().copied().collect()
        } else {
            b.to_vec()
        }
    };
    let from_le = |b: &[u8]| -> Vec<u8> {
        if big_endian {
            b.iter().rev().copied().collect()
        } else {
            b.to_vec()
        }
    };
    let r_minus_1 = num_bigint::BigUint::from_bytes_le(&to_le(&rm1));
    for (what, val) in [("r", &r_minus_1 + 1u32), ("r+1", &r_minus_1 + 2u32), ("2r-1", &r_minus_1 * 2u32 + 1u32), ("2^256-1", (num_bigint::BigUint::from(1u32) << 256) - 1u32)] {
        let mut le = val.to_bytes_le();
        if le.len() > 32 {
            continue;
        }
        le.resize(32, 0);
        let enc = from_le(&le);
        case(report, json!({"scalar_encoding": name, "value": what}), || {
            if from_bytes::<C::Scalar, _>(&mut &enc[..]).is_ok() {
                return fail("non-canonical-scalar-accepted", json!({"bytes": mc_core::hex(&enc)}));
            }
            Ok(())
        });
    }
    for bit in 0..256 {
        let m = flip(&rm1, bit);
        case(report, json!({"scalar_encoding": name, "flip_bit_of_r-1": bit}), || {
            if let Ok(s) = from_bytes::<C::Scalar, _>(&mut &m[..]) {
                if to_bytes(&s) != m {
                    return fail("non-canonical-scalar-accepted", json!({"bytes": mc_core::hex(&m)}));
                }
            }
            Ok(())
        });
    }
}

fn hash_to_group_checks<C: Curve + Serial>(report: &Report, name: &str, in_subgroup: &dyn Fn(&C) -> bool) {
    let mut seen = BTreeSet::new();
    for i in 0..64u32 {
        let msg: Vec<u8> = match i {
            0 => vec![],
            1 => vec![0],
            2 => vec![0, 0],
            _ => i.to_be_bytes().repeat((i % 7 + 1) as usize),
        };
        case(report, json!({"hash_to_group": name, "message": mc_core::hex(&msg)}), || {
            let a = C::hash_to_group(&msg).map_err(|e| ("hash-to-group-failed".to_string(), json!(format!("{e:?}"))))?;
            let b = C::hash_to_group(&msg).map_err(|e| ("hash-to-group-failed".to_string(), json!(format!("{e:?}"))))?;
            if a != b {
                return fail("hash-to-group-not-deterministic", json!({}));
            }
            if !in_subgroup(&a) || a.is_zero_point() {
                return fail("hash-to-group-outside-group", json!({}));
            }
            if !seen.insert(to_bytes(&a)) {
                return fail("hash-to-group-collision", json!({}));
            }
            Ok(())
        });
    }
}

fn secret_sharing(report: &Report, cli: &Cli) {
    type C = ArCurve;
    let nmax = if cli.tier == Tier::Quick { 4 } else { 6 };
    let secrets: Vec<(String, <C as Curve>::Scalar)> = vec![
        ("0".into(), <C as Curve>::Scalar::zero()),
        ("1".into(), <C as Curve>::Scalar::one()),
        ("r-1".into(), minus_one()),
        ("random".into(), C::generate_scalar(&mut rng(cli.seed, 30))),
    ];
    let g = C::generate(&mut rng(cli.seed, 31));
    let mut configs = vec![];
    for n in 1..=nmax {
        for t in 1..=n {
            for s in 0..secrets.len() {
                // x-coordinates: 1..n, and a non-contiguous unordered set
                // and coordinates at the top of the u32 range (revoker identities are u32)
                for xs_kind in 0..3 {
                    configs.push((n, t, s, xs_kind));
                }
            }
        }
    }
    configs.par_iter().for_each(|&(n, t, si, xs_kind)| {
        let (sn, secret) = &secrets[si];
        const LARGE: [u32; 6] = [u32::MAX, (1 << 31) + 1, u32::MAX - 1, (1 << 22) + 5, 1 << 31, 3_000_000_019];
        let xs: Vec<u32> = match xs_kind {
            0 => (1..=n as u32).collect(),
            1 => (1..=n as u32).map(|i| (i * 7919 + 3) % 65521 + 1).rev().collect(),
            _ => LARGE[..n].to_vec(),
        };
        let mut r = rng(cli.seed, (n * 1000 + t * 10 + si) as u64);
        let data = share::<C, u32, _, _>(secret, xs.iter().copied(), Threshold::try_new(t as u8).unwrap(), &mut r);
        let secret_point = g.mul_by_scalar(secret);
        for subset in subsets(n) {
            if subset.is_empty() {
                continue;
            }
            let wit = json!({"secret_sharing": {"n": n, "threshold": t, "secret": sn, "xs": xs, "subset": subset}});
            case(report, wit, || {
                let shares: Vec<(u32, PedersenValue<C>)> = subset.iter().map(|&i| (xs[i], data.shares[i].clone())).collect();
                let got = reveal::<u32, C>(&shares);
                let gshares: Vec<(u32, C)> = subset.iter().map(|&i| (xs[i], g.mul_by_scalar(&data.shares[i]))).collect();
                let got_g = reveal_in_group::<u32, C>(&gshares);
                report.trace(2);
                if subset.len() >= t {
                    if got != *secret {
                        return fail("threshold-shares-do-not-reconstruct", json!({"where": "field"}));
                    }
                    if got_g != secret_point {
                        return fail("threshold-shares-do-not-reconstruct", json!({"where": "exponent"}));
                    }
                    // order of the shares must not matter
                    let mut rev = shares.clone();
                    rev.reverse();
                    if reveal::<u32, C>(&rev) != *secret {
                        return fail("reconstruction-depends-on-order", json!({}));
                    }
                } else if subset.len() + 1 == t {
                    if got == *secret || got_g == secret_point {
                        return fail("too-few-shares-reconstruct", json!({}));
                    }
                }
                Ok(())
            });
        }
    });
}

/// Many shares: 25 and 40 points (products of the coordinates far beyond 64 bits), thresholds at
/// both ends; the first / last / an interleaved threshold-many shares and all of them.
fn many_shares(report: &Report, cli: &Cli) {
    type C = ArCurve;
    let g = C::generate(&mut rng(cli.seed, 41));
    let secret = C::generate_scalar(&mut rng(cli.seed, 42));
    let secret_point = g.mul_by_scalar(&secret);
    for (n, offset) in [(25usize, 0u32), (40, 0), (25, 1_000_000), (25, u32::MAX - 30)] {
        for t in [1usize, 2, 21, 22, 23, n] {
            if t > n {
                continue;
            }
            let xs: Vec<u32> = (1..=n as u32).map(|i| offset + i).collect();
            let data = share::<C, u32, _, _>(&secret, xs.iter().copied(), Threshold::try_new(t as u8).unwrap(), &mut rng(cli.seed, 43 + (n * 100 + t) as u64));
            let picks: Vec<(&str, Vec<usize>)> = vec![("first", (0..t).collect()), ("last", (n - t..n).collect()), ("interleaved", (0..n).filter(|i| i % 2 == 0).chain((0..n).filter(|i| i % 2 == 1)).take(t).collect()), ("all", (0..n).collect())];
            for (name, subset) in picks {
                case(report, json!({"secret_sharing_many": {"n": n, "first_coordinate": offset + 1, "threshold": t, "shares": name}}), || {
                    let shares: Vec<(u32, PedersenValue<C>)> = subset.iter().map(|&i| (xs[i], data.shares[i].clone())).collect();
                    let gshares: Vec<(u32, C)> = subset.iter().map(|&i| (xs[i], g.mul_by_scalar(&data.shares[i]))).collect();
                    report.trace(2);
                    if reveal::<u32, C>(&shares) != secret {
                        return fail("threshold-shares-do-not-reconstruct", json!({"where": "field"}));
                    }
                    if reveal_in_group::<u32, C>(&gshares) != secret_point {
                        return fail("threshold-shares-do-not-reconstruct", json!({"where": "exponent"}));
                    }
                    Ok(())
                });
            }
        }
    }
}

/// SLIP-0010 for ed25519, written from the specification.
fn slip10(path: &[u32], seed: &[u8]) -> ([u8; 32], [u8; 32]) {
    use hmac::{Hmac, Mac};
    type H = Hmac<sha2::Sha512>;
    let mut mac = H::new_from_slice(b"ed25519 seed").unwrap();
    mac.update(seed);
    let i = mac.finalize().into_bytes();
    let mut key = [0u8; 32];
    let mut chain = [0u8; 32];
    key.copy_from_slice(&i[..32]);
    chain.copy_from_slice(&i[32..]);
    for idx in path {
        let mut mac = H::new_from_slice(&chain).unwrap();
        mac.update(&[0u8]);
        mac.update(&key);
        mac.update(&idx.to_be_bytes());
        let i = mac.finalize().into_bytes();
        key.copy_from_slice(&i[..32]);
        chain.copy_from_slice(&i[32..]);
    }
    (key, chain)
}

fn key_derivation_checks(report: &Report, cli: &Cli) {
    use ed25519_hd_key_derivation::{derive_from_parsed_path, harden};
    use key_derivation::{ConcordiumHdWallet, Net};
    let mut seeds: Vec<[u8; 64]> = vec![[0u8; 64], [0xFF; 64]];
    let mut s = [0u8; 64];
    use rand::RngCore;
    rng(cli.seed, 40).fill_bytes(&mut s);
    seeds.push(s);
    let idx: Vec<u32> = vec![0, 1, (1u32 << 31) - 1];
    // (a) the SLIP-10 layer against the specification
    for seed in &seeds {
        for len in [16usize, 32, 64] {
            for depth in 0..=3usize {
                for &i in &idx {
                    let path: Vec<u32> = (0..depth).map(|d| harden(if d % 2 == 0 { i } else { 44 })).collect();
                    case(report, json!({"slip10": {"seed": mc_core::hex(&seed[..len]), "path": path}}), || {
                        let k = derive_from_parsed_path(&path, &seed[..len]).map_err(|e| ("derive-failed".to_string(), json!(format!("{e:?}"))))?;
                        let (key, chain) = slip10(&path, &seed[..len]);
                        let _ = chain;
                        if k.private_key != key {
                            return fail("slip10-differs", json!({}));
                        }
                        report.trace(1);
                        Ok(())
                    });
                }
            }
        }
        // non-hardened index and out-of-range seeds are errors, not panics
        case(report, json!({"slip10": "non-hardened index"}), || {
            if derive_from_parsed_path(&[5], &seed[..]).is_ok() {
                return fail("non-hardened-index-accepted", json!({}));
            }
            if derive_from_parsed_path(&[harden(1)], &seed[..15]).is_ok() || derive_from_parsed_path(&[harden(1)], &[0u8; 65]).is_ok() {
                return fail("bad-seed-length-accepted", json!({}));
            }
            Ok(())
        });
    }
    // (b) the wallet: deterministic, public = f(secret), distinct paths give distinct keys
    for seed in &seeds {
        let mut all: BTreeSet<Vec<u8>> = BTreeSet::new();
        let mut count = 0;
        for net in [Net::Mainnet, Net::Testnet] {
            let w = ConcordiumHdWallet { seed: *seed, net };
            let w2 = ConcordiumHdWallet { seed: *seed, net };
            for &ip in &idx {
                for &id in &idx {
                    for &c in &[0u32, 1, 255] {
                        let wit = json!({"wallet": {"net": format!("{net:?}"), "ip": ip, "identity": id, "counter": c}});
                        case(report, wit, || {
                            let sk = w.get_account_signing_key(ip, id, c).map_err(|e| ("derive-failed".to_string(), json!(format!("{e:?}"))))?;
                            let pk = w.get_account_public_key(ip, id, c).map_err(|e| ("derive-failed".to_string(), json!(format!("{e:?}"))))?;
                            let sk2 = w2.get_account_signing_key(ip, id, c).map_err(|e| ("derive-failed".to_string(), json!(format!("{e:?}"))))?;
                            if sk != sk2 {
                                return fail("derivation-not-deterministic", json!({}));
                            }
                            let raw = sk;
                            let sk = ed25519_dalek::SigningKey::from_bytes(&raw);
                            if sk.verifying_key() != pk {
                                return fail("public-key-does-not-match-secret", json!({}));
                            }
                            use ed25519_dalek::{Signer, Verifier};
                            let sig = sk.sign(b"msg");
                            if pk.verify(b"msg", &sig).is_err() {
                                return fail("public-key-does-not-match-secret", json!({"what": "signature"}));
                            }
                            // documented path: m/44'/net'/ip'/id'/0'/c'
                            let path = [harden(44), harden(net.net_code()), harden(ip), harden(id), harden(0), harden(c)];
                            let (key, _) = slip10(&path, &seed[..]);
                            if sk.to_bytes() != key {
                                return fail("wallet-path-differs-from-documentation", json!({}));
                            }
                            if !all.insert(sk.to_bytes().to_vec()) {
                                return fail("distinct-paths-give-equal-keys", json!({}));
                            }
                            count += 1;
                            report.trace(1);
                            Ok(())
                        });
                    }
                    let wit = json!({"wallet": {"net": format!("{net:?}"), "ip": ip, "identity": id, "what": "identity keys"}});
                    case(report, wit, || {
                        let a = w.get_id_cred_sec(ip, id).map_err(|e| ("derive-failed".to_string(), json!(format!("{e:?}"))))?;
                        let b = w2.get_id_cred_sec(ip, id).map_err(|e| ("derive-failed".to_string(), json!(format!("{e:?}"))))?;
                        let p = w.get_prf_key(ip, id).map_err(|e| ("derive-failed".to_string(), json!(format!("{e:?}"))))?;
                        let p2 = w2.get_prf_key(ip, id).map_err(|e| ("derive-failed".to_string(), json!(format!("{e:?}"))))?;
                        let r = w.get_blinding_randomness(ip, id).map_err(|e| ("derive-failed".to_string(), json!(format!("{e:?}"))))?;
                        if to_bytes(&a) != to_bytes(&b) || to_bytes(&p) != to_bytes(&p2) {
                            return fail("derivation-not-deterministic", json!({}));
                        }
                        for k in [to_bytes(&a), to_bytes(&p), to_bytes(&r)] {
                            if !all.insert(k) {
                                return fail("distinct-paths-give-equal-keys", json!({}));
                            }
                        }
                        report.trace(1);
                        Ok(())
                    });
                }
            }
        }
        report.add_extra_count("wallet_paths", count);
    }
}

/// `Curve::scalar_from_bytes` against its documentation: the first CAPACITY bits of the input read
/// as a little-endian integer, shorter inputs padded with zeros, longer inputs cut. Every single-bit
/// input over 0..=39 bytes' worth of positions, the all-ones input of every length 0..=40 and 64, and
/// byte-counting patterns.
fn scalar_from_bytes_checks<C: Curve>(report: &Report, name: &str)
where
    C::Scalar: Serial, {
    let one = to_bytes(&C::Scalar::one());
    let big_endian = one[one.len() - 1] == 1;
    let cap = <C::Scalar as PrimeField>::CAPACITY as usize;
    let to_int = |s: &C::Scalar| -> num_bigint::BigUint {
        let b = to_bytes(s);
        if big_endian {
            num_bigint::BigUint::from_bytes_be(&b)
        } else {
            num_bigint::BigUint::from_bytes_le(&b)
        }
    };
    let mut inputs: Vec<(String, Vec<u8>)> = vec![];
    for len in (0..=40usize).chain([48, 64]) {
        inputs.push((format!("{len} x ff"), vec![0xFF; len]));
        inputs.push((format!("counting {len}"), (0..len).map(|i| (i as u8).wrapping_mul(37).wrapping_add(1)).collect()));
        for bit in 0..len * 8 {
            let mut v = vec![0u8; len];
            v[bit / 8] |= 1 << (bit % 8);
            // one input per (length class, bit): lengths around the limb and field boundaries only
            if matches!(len, 1 | 7 | 8 | 9 | 16 | 24 | 31 | 32 | 33 | 40 | 64) {
                inputs.push((format!("len {len} bit {bit}"), v));
            }
        }
    }
    for (what, bytes) in inputs {
        case(report, json!({"scalar_from_bytes": name, "input": what}), || {
            let got = to_int(&C::scalar_from_bytes(&bytes));
            let mut le = bytes.clone();
            le.truncate(32);
            let expect = num_bigint::BigUint::from_bytes_le(&le) & ((num_bigint::BigUint::from(1u32) << cap) - 1u32);
            if got != expect {
                return fail("scalar-from-bytes-differs-from-documentation", json!({"bytes": mc_core::hex(&bytes), "got": got.to_str_radix(16), "expected": expect.to_str_radix(16)}));
            }
            report.trace(1);
            Ok(())
        });
    }
}

fn hmac256(key: &[u8], parts: &[&[u8]]) -> [u8; 32] {
    use hmac::{Hmac, Mac};
    let mut m = Hmac::<sha2::Sha256>::new_from_slice(key).expect("any key length");
    for p in parts {
        m.update(p);
    }
    m.finalize().into_bytes().into()
}

/// KeyGen of draft-irtf-cfrg-bls-signature-04, section 2.3, written from the draft (HKDF from RFC 5869
/// over HMAC-SHA256); `deprecated` is the documented little-endian variant kept for old keys.
fn keygen_reference(ikm: &[u8], key_info: &[u8], deprecated: bool) -> num_bigint::BigUint {
    use sha2::Digest;
    let r = num_bigint::BigUint::parse_bytes(b"52435875175126190479447740508185965837690552500527637822603658699938581184513", 10).unwrap();
    let mut salt: [u8; 32] = sha2::Sha256::digest(b"BLS-SIG-KEYGEN-SALT-").into();
    let mut ikm0 = ikm.to_vec();
    ikm0.push(0);
    let mut info = key_info.to_vec();
    if deprecated {
        info.extend_from_slice(&[48, 0]);
    } else {
        info.extend_from_slice(&[0, 48]);
    }
    loop {
        let prk = hmac256(&salt, &[&ikm0]);
        let t1 = hmac256(&prk, &[&info, &[1]]);
        let t2 = hmac256(&prk, &[&t1, &info, &[2]]);
        let mut okm = t1.to_vec();
        okm.extend_from_slice(&t2[..16]);
        let sk = if deprecated { num_bigint::BigUint::from_bytes_le(&okm) } else { num_bigint::BigUint::from_bytes_be(&okm) } % &r;
        if sk != num_bigint::BigUint::from(0u32) {
            return sk;
        }
        salt = sha2::Sha256::digest(salt).into();
    }
}

fn fr_to_int(s: &<ArCurve as Curve>::Scalar) -> num_bigint::BigUint {
    let one = to_bytes(&<ArCurve as Curve>::Scalar::one());
    let b = to_bytes(s);
    if one[one.len() - 1] == 1 {
        num_bigint::BigUint::from_bytes_be(&b)
    } else {
        num_bigint::BigUint::from_bytes_le(&b)
    }
}

/// keygen_bls / keygen_bls_deprecated against the draft, on an (ikm, key_info) grid.
fn keygen_checks(report: &Report, cli: &Cli) {
    use rand::RngCore;
    let mut long = [0u8; 64];
    rng(cli.seed, 41).fill_bytes(&mut long);
    let ikms: Vec<Vec<u8>> = vec![vec![], vec![0], vec![1], vec![0; 32], vec![0xFF; 32], long[..32].to_vec(), long.to_vec(), vec![0xAB; 255]];
    let infos: Vec<Vec<u8>> = vec![vec![], vec![0], b"a".to_vec(), long[..32].to_vec(), vec![0x30; 200]];
    for ikm in &ikms {
        for info in &infos {
            case(report, json!({"keygen_bls": {"ikm": mc_core::hex(ikm), "key_info": mc_core::hex(info)}}), || {
                let a = keygen_bls::keygen_bls(ikm, info).map_err(|e| ("keygen-failed".to_string(), json!(format!("{e:?}"))))?;
                let b = keygen_bls::keygen_bls(ikm, info).map_err(|e| ("keygen-failed".to_string(), json!(format!("{e:?}"))))?;
                if a != b {
                    return fail("keygen-not-deterministic", json!({}));
                }
                if fr_to_int(&a) != keygen_reference(ikm, info, false) {
                    return fail("keygen-differs-from-the-draft", json!({"got": fr_to_int(&a).to_str_radix(16), "expected": keygen_reference(ikm, info, false).to_str_radix(16)}));
                }
                let d = keygen_bls::keygen_bls_deprecated(ikm, info).map_err(|e| ("keygen-failed".to_string(), json!(format!("{e:?}"))))?;
                if fr_to_int(&d) != keygen_reference(ikm, info, true) {
                    return fail("deprecated-keygen-differs-from-its-documentation", json!({"got": fr_to_int(&d).to_str_radix(16), "expected": keygen_reference(ikm, info, true).to_str_radix(16)}));
                }
                report.trace(1);
                Ok(())
            });
        }
    }
}

/// Every getter of the wallet against its documented path (SLIP-10 reference, then KeyGen reference
/// for the BLS-field values), over a grid that puts every index at 0 / 1 / a middle value / 2^31-1 and
/// the issuer address at the 16-bit chunk boundaries; 2^31 and above must be refused, not wrap around.
/// All derived values of one seed are pairwise distinct.
fn wallet_full_checks(report: &Report, cli: &Cli) {
    use concordium_base::{contracts_common::ContractAddress, id::types::AttributeTag};
    use ed25519_hd_key_derivation::harden;
    use key_derivation::{ConcordiumHdWallet, Net};
    use rand::RngCore;
    let mut s = [0u8; 64];
    rng(cli.seed, 42).fill_bytes(&mut s);
    let seeds: Vec<[u8; 64]> = if cli.tier == Tier::Quick { vec![s] } else { vec![s, [0u8; 64], [0xFF; 64]] };
    let idx: Vec<u32> = vec![0, 1, 65536, (1u32 << 31) - 1];
    let small: Vec<u32> = vec![0, 1, 255];
    let err = |e: key_derivation::DeriveError| ("derive-failed".to_string(), json!(format!("{e:?}")));
    for seed in &seeds {
        let all = std::sync::Mutex::new(std::collections::BTreeMap::<Vec<u8>, String>::new());
        let note = |k: Vec<u8>, what: String| -> Result<(), (String, serde_json::Value)> {
            if let Some(prev) = all.lock().unwrap().insert(k, what.clone()) {
                if prev != what {
                    return fail("distinct-paths-give-equal-keys", json!({"first": prev, "second": what}));
                }
            }
            Ok(())
        };
        for net in [Net::Mainnet, Net::Testnet] {
            let w = ConcordiumHdWallet { seed: *seed, net };
            let root = |tail: &[u32]| -> Vec<u32> { [44u32, net.net_code()].iter().chain(tail).map(|i| harden(*i)).collect() };
            let vcroot = |tail: &[u32]| -> Vec<u32> { [1958950021u32, net.net_code()].iter().chain(tail).map(|i| harden(*i)).collect() };
            let bls = |path: &[u32]| -> num_bigint::BigUint { keygen_reference(&slip10(path, &seed[..]).0, b"", false) };
            for &ip in &idx {
                for &id in &idx {
                    case(report, json!({"wallet_full": {"net": format!("{net:?}"), "ip": ip, "identity": id, "what": "identity-level values"}}), || {
                        let a = w.get_id_cred_sec(ip, id).map_err(err)?;
                        if fr_to_int(&a) != bls(&root(&[ip, id, 2])) {
                            return fail("wallet-path-differs-from-documentation", json!({"getter": "get_id_cred_sec"}));
                        }
                        let p = w.get_prf_key(ip, id).map_err(err)?;
                        if num_bigint::BigUint::from_bytes_be(&to_bytes(&p)) != bls(&root(&[ip, id, 3])) {
                            return fail("wallet-path-differs-from-documentation", json!({"getter": "get_prf_key"}));
                        }
                        let r = w.get_blinding_randomness(ip, id).map_err(err)?;
                        if num_bigint::BigUint::from_bytes_be(&to_bytes(&r)) != bls(&root(&[ip, id, 4])) {
                            return fail("wallet-path-differs-from-documentation", json!({"getter": "get_blinding_randomness"}));
                        }
                        note(to_bytes(&a), format!("{net:?} idcredsec {ip} {id}"))?;
                        note(to_bytes(&p), format!("{net:?} prf {ip} {id}"))?;
                        note(to_bytes(&r), format!("{net:?} blinding {ip} {id}"))?;
                        report.trace(1);
                        Ok(())
                    });
                    for &c in &small {
                        case(report, json!({"wallet_full": {"net": format!("{net:?}"), "ip": ip, "identity": id, "counter": c, "what": "account keys"}}), || {
                            let sk = w.get_account_signing_key(ip, id, c).map_err(err)?;
                            let pk = w.get_account_public_key(ip, id, c).map_err(err)?;
                            if sk != slip10(&root(&[ip, id, 0, c]), &seed[..]).0 {
                                return fail("wallet-path-differs-from-documentation", json!({"getter": "get_account_signing_key"}));
                            }
                            if ed25519_dalek::SigningKey::from_bytes(&sk).verifying_key() != pk {
                                return fail("public-key-does-not-match-secret", json!({}));
                            }
                            note(sk.to_vec(), format!("{net:?} account {ip} {id} {c}"))?;
                            report.trace(1);
                            Ok(())
                        });
                        for tag in [0u8, 1, 13, 255] {
                            case(report, json!({"wallet_full": {"net": format!("{net:?}"), "ip": ip, "identity": id, "counter": c, "attribute": tag}}), || {
                                let r = w.get_attribute_commitment_randomness(ip, id, c, AttributeTag(tag)).map_err(err)?;
                                if num_bigint::BigUint::from_bytes_be(&to_bytes(&r)) != bls(&root(&[ip, id, 5, c, tag as u32])) {
                                    return fail("wallet-path-differs-from-documentation", json!({"getter": "get_attribute_commitment_randomness"}));
                                }
                                note(to_bytes(&r), format!("{net:?} attribute randomness {ip} {id} {c} {tag}"))?;
                                report.trace(1);
                                Ok(())
                            });
                        }
                    }
                }
            }
            // indices that cannot be hardened are refused by every getter
            for bad in [1u32 << 31, (1u32 << 31) + 1, u32::MAX] {
                case(report, json!({"wallet_full": {"net": format!("{net:?}"), "unhardenable index": bad}}), || {
                    let refused = w.get_account_signing_key(bad, 0, 0).is_err()
                        && w.get_account_signing_key(0, bad, 0).is_err()
                        && w.get_account_signing_key(0, 0, bad).is_err()
                        && w.get_account_public_key(0, 0, bad).is_err()
                        && w.get_id_cred_sec(bad, 0).is_err()
                        && w.get_id_cred_sec(0, bad).is_err()
                        && w.get_prf_key(0, bad).is_err()
                        && w.get_blinding_randomness(bad, 0).is_err()
                        && w.get_attribute_commitment_randomness(0, 0, bad, AttributeTag(0)).is_err()
                        && w.get_verifiable_credential_signing_key(ContractAddress::new(0, 0), bad).is_err()
                        && w.get_verifiable_credential_public_key(ContractAddress::new(0, 0), bad).is_err();
                    if !refused {
                        return fail("unhardenable-index-accepted", json!({}));
                    }
                    Ok(())
                });
            }
            // verifiable-credential keys: issuer (index, subindex) split into 16-bit chunks, big-endian
            let addr: Vec<u64> = vec![0, 1, 0xFFFF, 0x1_0000, 0xFFFF_FFFF, 0x1_0000_0000, 0x0001_0002_0003_0004, u64::MAX];
            for &index in &addr {
                for &sub in &addr {
                    for &vc in &[0u32, 1, (1u32 << 31) - 1] {
                        case(report, json!({"wallet_full": {"net": format!("{net:?}"), "issuer": [index, sub], "credential": vc}}), || {
                            let sk = w.get_verifiable_credential_signing_key(ContractAddress::new(index, sub), vc).map_err(err)?;
                            let pk = w.get_verifiable_credential_public_key(ContractAddress::new(index, sub), vc).map_err(err)?;
                            let ch = |x: u64| -> [u32; 4] { [(x >> 48) as u32 & 0xFFFF, (x >> 32) as u32 & 0xFFFF, (x >> 16) as u32 & 0xFFFF, x as u32 & 0xFFFF] };
                            let (a, b) = (ch(index), ch(sub));
                            let path = vcroot(&[0, a[0], a[1], a[2], a[3], b[0], b[1], b[2], b[3], vc, 0]);
                            if sk != slip10(&path, &seed[..]).0 {
                                return fail("wallet-path-differs-from-documentation", json!({"getter": "get_verifiable_credential_signing_key"}));
                            }
                            if ed25519_dalek::SigningKey::from_bytes(&sk).verifying_key() != pk {
                                return fail("public-key-does-not-match-secret", json!({}));
                            }
                            note(sk.to_vec(), format!("{net:?} vc {index} {sub} {vc}"))?;
                            report.trace(1);
                            Ok(())
                        });
                    }
                }
            }
            case(report, json!({"wallet_full": {"net": format!("{net:?}"), "what": "backup encryption key"}}), || {
                let k = w.get_verifiable_credential_backup_encryption_key().map_err(err)?;
                if k != slip10(&vcroot(&[1]), &seed[..]).0 {
                    return fail("wallet-path-differs-from-documentation", json!({"getter": "get_verifiable_credential_backup_encryption_key"}));
                }
                note(k.to_vec(), format!("{net:?} backup key"))?;
                Ok(())
            });
        }
        report.add_extra_count("wallet_full_values", all.lock().unwrap().len() as u64);
    }
}

pub fn run(cli: &Cli) -> ! {
    let report = Report::new(cli);
    multiexp_curve::<ArCurve>(&report, "G1", cli);
    multiexp_curve::<BlsG2>(&report, "G2", cli);
    multiexp_curve::<RistrettoPoint>(&report, "ristretto", cli);
    let g1_sub = |p: &ArCurve| p.into_ark().into_affine().is_in_correct_subgroup_assuming_on_curve() && p.into_ark().into_affine().is_on_curve();
    let g2_sub = |p: &BlsG2| p.into_ark().into_affine().is_in_correct_subgroup_assuming_on_curve() && p.into_ark().into_affine().is_on_curve();
    let ris_sub = |_p: &RistrettoPoint| true;
    encodings_curve::<ArCurve>(&report, "G1", cli, &g1_sub);
    encodings_curve::<BlsG2>(&report, "G2", cli, &g2_sub);
    encodings_curve::<RistrettoPoint>(&report, "ristretto", cli, &ris_sub);
    let n_wrong = if cli.tier == Tier::Quick { 16 } else { 64 };
    wrong_subgroup_g1(&report, n_wrong);
    wrong_subgroup_g2(&report, n_wrong);
    scalar_encodings::<ArCurve>(&report, "bls-fr", cli);
    scalar_encodings::<RistrettoPoint>(&report, "ed25519-scalar", cli);
    hash_to_group_checks::<ArCurve>(&report, "G1", &g1_sub);
    hash_to_group_checks::<BlsG2>(&report, "G2", &g2_sub);
    hash_to_group_checks::<RistrettoPoint>(&report, "ristretto", &ris_sub);
    secret_sharing(&report, cli);
    many_shares(&report, cli);
    key_derivation_checks(&report, cli);
    scalar_from_bytes_checks::<ArCurve>(&report, "bls-fr");
    scalar_from_bytes_checks::<RistrettoPoint>(&report, "ed25519-scalar");
    keygen_checks(&report, cli);
    wallet_full_checks(&report, cli);
    let n = report.evaluations.load(std::sync::atomic::Ordering::Relaxed);
    report.state(n);
    report.transition(n);
    report.sample(json!({"multiexp": "G1", "scalars": ["2^64-1", "r-1"], "points": ["g", "-g"], "window": 4}));
    report.sample(json!({"secret_sharing": {"n": 4, "threshold": 3, "subset": [0, 2, 3]}}));
    report.set_technique("exhaustive enumeration of boundary-scalar x point tuples for every window size vs. naive sum; complete single-bit-flip neighbourhoods of encodings; all (n, threshold, subset) sharing configurations; derivation path grid vs. a SLIP-10 implementation written from the specification");
    report.set_rule("multiexp: all 1- and 2-tuples over the boundary scalar alphabet (window/limb boundaries, r-1, all-ones patterns) and reduced 3-tuples, per curve and window size; encodings: every bit flip of every encoded fixture point/scalar; sharing: every subset of every (n,t); derivation: seeds x networks x index grid. Non-trivial = bit-flipped encodings that still decode");
    report.assume("scalars outside the boundary alphabet and points other than g, 2g, -g, 0 and one seeded point are not covered");
    report.assume("48/96/32-byte strings other than single-bit flips of valid encodings, the scanned wrong-subgroup points and the listed non-canonical scalars are not covered");
    report.finish(true, json!({"scalars": boundary_scalars::<ArCurve>(cli.seed, cli.tier).len(), "sharing_n_max": if cli.tier == Tier::Quick { 4 } else { 6 }}));
}
