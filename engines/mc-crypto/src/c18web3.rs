//! C18 layer B: web3id presentations (`Request::prove_with_rng` / `Presentation::verify`)
//! over account credentials (commitments on chain) and web3 credentials (commitments signed
//! by the issuer, presentation linked by the holder's signature), singly and in pairs.

use crate::c18::*;
use crate::util::*;
use concordium_base::{
    base::CredentialRegistrationID,
    contracts_common::{ContractAddress, Timestamp},
    curve_arithmetic::Curve,
    id::{
        constants::AttributeKind,
        id_proof_types::*,
        types::*,
    },
    pedersen_commitment::{Commitment, Randomness as PedersenRandomness, Value},
    web3id::{did::Network, *},
};
use ed25519_dalek::SigningKey;
use mc_core::{Cli, Report, Tier};
use rayon::prelude::*;
use serde_json::{json, Value as J};
use std::collections::{BTreeMap, BTreeSet};

pub type W = Web3IdAttribute;

pub fn ws(s: &str) -> W { W::String(AttributeKind::try_new(s.to_string()).unwrap()) }
pub fn wn(n: u64) -> W { W::Numeric(n) }
pub fn wt(ms: u64) -> W { W::Timestamp(Timestamp::from_timestamp_millis(ms)) }

pub const T0: u64 = 1_693_264_335_000;

/// Attribute values of the web3id layers and their neighbour alphabets (entry 1 = value).
pub fn web3_alphabets() -> Vec<(W, Vec<W>)> {
    vec![
        (ws("aa"), vec![ws("a`"), ws("aa"), ws("ab"), ws(""), ws("aaa")]),
        // the numeric variants embed alike (Timestamp(ms) as Numeric(ms)): a statement may mix them, and
        // its truth is that of the embedded values - the first three entries (the quick tier's bounds)
        // put the other variant on both sides of the value
        (wn(T0 + 137), vec![wt(T0 + 136), wn(T0 + 137), wt(T0 + 138), wn(T0 + 136), wn(T0 + 138), wn(0), wn(u64::MAX)]),
        (wt(T0), vec![wn(T0 - 1), wt(T0), wn(T0 + 1), wt(T0 - 1), wt(T0 + 1), wn(T0)]),
        // String("") and Numeric(0) embed to the same field element
        (wn(0), vec![wn(2), wn(0), wn(1), ws("")]),
        (wn(u64::MAX), vec![wn(u64::MAX - 1), wn(u64::MAX), ws("\u{0}")]),
        (ws("testvalue"), vec![ws("testvalud"), ws("testvalue"), ws("testvaluf")]),
    ]
}

/// successor / predecessor in the embedding (same variant)
pub fn wbump(a: &W, up: bool) -> Option<W> {
    match a {
        W::Numeric(n) => if up { n.checked_add(1) } else { n.checked_sub(1) }.map(W::Numeric),
        W::Timestamp(t) => {
            let n = t.timestamp_millis();
            if up { n.checked_add(1) } else { n.checked_sub(1) }.map(wt)
        }
        W::String(s) => {
            let mut b = s.to_string().into_bytes();
            let last = b.last_mut()?;
            if up {
                if *last >= 0x7e {
                    return None;
                }
                *last += 1
            } else {
                if *last == 0 {
                    return None;
                }
                *last -= 1
            }
            String::from_utf8(b).ok().map(|s| ws(&s))
        }
    }
}

/// Every single-component alteration of an abstract statement (the result differs from the
/// original as a statement; it may well still be true).
pub fn atom_alterations(a: &Atom<W>, ntags: u8) -> Vec<(String, Atom<W>)> {
    let mut out = vec![];
    for t in 0..ntags {
        if t != a.tag {
            out.push((format!("tag -> {t}"), Atom { tag: t, st: a.st.clone() }));
        }
    }
    match &a.st {
        St::Reveal => out.push(("reveal -> range".into(), Atom { tag: a.tag, st: St::Range(wn(0), wn(u64::MAX)) })),
        St::Range(lo, hi) => {
            for (which, up) in [(0, false), (0, true), (1, false), (1, true)] {
                let cur = if which == 0 { lo } else { hi };
                if let Some(nv) = wbump(cur, up) {
                    let st = if which == 0 { St::Range(nv, hi.clone()) } else { St::Range(lo.clone(), nv) };
                    out.push((format!("{} {}", if which == 0 { "lower" } else { "upper" }, if up { "+1" } else { "-1" }), Atom { tag: a.tag, st }));
                }
            }
            out.push(("bounds swapped".into(), Atom { tag: a.tag, st: St::Range(hi.clone(), lo.clone()) }));
            out.push(("range -> reveal".into(), Atom { tag: a.tag, st: St::Reveal }));
        }
        St::InSet(s) | St::NotInSet(s) => {
            let member = matches!(a.st, St::InSet(_));
            let mk = |v: Vec<W>| if member { St::InSet(v) } else { St::NotInSet(v) };
            let mut plus = s.clone();
            plus.push(ws("not in any set"));
            out.push(("element added to the set".into(), Atom { tag: a.tag, st: mk(plus) }));
            for k in 0..s.len() {
                let mut minus = s.clone();
                minus.remove(k);
                out.push((format!("element {k} removed from the set"), Atom { tag: a.tag, st: mk(minus.clone()) }));
                minus.push(ws("replacement"));
                out.push((format!("element {k} replaced"), Atom { tag: a.tag, st: mk(minus) }));
            }
            out.push(("membership <-> non-membership".into(), Atom { tag: a.tag, st: if member { St::NotInSet(s.clone()) } else { St::InSet(s.clone()) } }));
        }
    }
    out
}

pub fn now() -> chrono::DateTime<chrono::Utc> { chrono::DateTime::parse_from_rfc3339("2023-08-28T23:12:15Z").unwrap().with_timezone(&chrono::Utc) }

pub struct AccCred {
    pub values:  BTreeMap<AttributeTag, W>,
    pub rand_s:  BTreeMap<AttributeTag, F>,
    pub cmms:    BTreeMap<AttributeTag, Commitment<C>>,
    pub cred_id: CredentialRegistrationID,
    pub issuer:  IpIdentity,
}

pub struct W3Cred {
    pub values:    BTreeMap<String, W>,
    pub rand_s:    BTreeMap<String, F>,
    pub holder:    SigningKey,
    pub issuer:    SigningKey,
    pub contract:  ContractAddress,
    pub signature: ed25519_dalek::Signature,
    pub ty:        BTreeSet<String>,
}

pub enum Cred {
    Acc(AccCred),
    W3(W3Cred),
}

pub fn w3tag(t: u8) -> String { format!("attr{t}") }

pub fn acc_cred(seed: u64, salt: u64, global: &GlobalContext<C>) -> AccCred {
    let mut r = rng(seed, 18_100 + salt);
    let key = &global.on_chain_commitment_key;
    let (mut values, mut rand_s, mut cmms) = (BTreeMap::new(), BTreeMap::new(), BTreeMap::new());
    for (t, (v, _)) in web3_alphabets().into_iter().enumerate() {
        let tag = AttributeTag(t as u8);
        let rnd = PedersenRandomness::<C>::generate(&mut r);
        cmms.insert(tag, key.hide(&Value::<C>::new(v.to_field_element()), &rnd));
        rand_s.insert(tag, *rnd);
        values.insert(tag, v);
    }
    let cred_id = CredentialRegistrationID::from_exponent(global, C::generate_scalar(&mut r));
    AccCred { values, rand_s, cmms, cred_id, issuer: IpIdentity(17) }
}

pub fn w3_cred(seed: u64, salt: u64, global: &GlobalContext<C>) -> W3Cred {
    let mut r = rng(seed, 18_200 + salt);
    let holder = SigningKey::generate(&mut r);
    let issuer = SigningKey::generate(&mut r);
    let contract = ContractAddress::new(1337 + salt, 42);
    let (mut values, mut rand_s, mut rand) = (BTreeMap::new(), BTreeMap::new(), BTreeMap::new());
    for (t, (v, _)) in web3_alphabets().into_iter().enumerate() {
        let rnd = PedersenRandomness::<C>::generate(&mut r);
        rand_s.insert(w3tag(t as u8), *rnd);
        rand.insert(w3tag(t as u8), rnd);
        values.insert(w3tag(t as u8), v);
    }
    let signed = SignedCommitments::from_secrets(global, &values, &rand, &CredentialHolderId::new(holder.verifying_key()), &issuer, contract).unwrap();
    let ty = ["VerifiableCredential".to_string(), "ConcordiumVerifiableCredential".to_string(), "TestCredential".to_string()].into_iter().collect();
    W3Cred { values, rand_s, holder, issuer, contract, signature: signed.signature, ty }
}

impl Cred {
    pub fn value(&self, t: u8) -> &W {
        match self {
            Cred::Acc(a) => &a.values[&AttributeTag(t)],
            Cred::W3(w) => &w.values[&w3tag(t)],
        }
    }

    pub fn statement(&self, atoms: &[Atom<W>]) -> CredentialStatement<C, W> {
        match self {
            Cred::Acc(a) => CredentialStatement::Account { network: Network::Testnet, cred_id: a.cred_id, statement: atoms.iter().map(|x| mk_atomic(AttributeTag(x.tag), &x.st)).collect() },
            Cred::W3(w) => CredentialStatement::Web3Id { ty: w.ty.clone(), network: Network::Testnet, contract: w.contract, credential: CredentialHolderId::new(w.holder.verifying_key()), statement: atoms.iter().map(|x| mk_atomic(w3tag(x.tag), &x.st)).collect() },
        }
    }

    pub fn public(&self) -> CredentialsInputs<C> {
        match self {
            Cred::Acc(a) => CredentialsInputs::Account { commitments: a.cmms.clone() },
            Cred::W3(w) => CredentialsInputs::Web3 { issuer_pk: w.issuer.verifying_key().into() },
        }
    }

    pub fn kind(&self) -> &'static str {
        match self {
            Cred::Acc(_) => "account",
            Cred::W3(_) => "web3",
        }
    }
}

pub fn challenge(b: u8) -> Challenge { Challenge::new([b; 32]) }

pub fn prove(global: &GlobalContext<C>, ch: Challenge, creds: &[(&Cred, Vec<Atom<W>>)], seed: u64) -> (Request<C, W>, Result<Presentation<C, W>, ProofError>) {
    let request = Request { challenge: ch, credential_statements: creds.iter().map(|(c, a)| c.statement(a)).collect() };
    let acc_rand: Vec<BTreeMap<AttributeTag, PedersenRandomness<C>>> = creds
        .iter()
        .map(|(c, _)| match c {
            Cred::Acc(a) => a.rand_s.iter().map(|(t, s)| (*t, PedersenRandomness::<C>::new(*s))).collect(),
            _ => BTreeMap::new(),
        })
        .collect();
    let w3_rand: Vec<BTreeMap<String, PedersenRandomness<C>>> = creds
        .iter()
        .map(|(c, _)| match c {
            Cred::W3(w) => w.rand_s.iter().map(|(t, s)| (t.clone(), PedersenRandomness::<C>::new(*s))).collect(),
            _ => BTreeMap::new(),
        })
        .collect();
    let inputs: Vec<CommitmentInputs<C, W, SigningKey>> = creds
        .iter()
        .enumerate()
        .map(|(i, (c, _))| match c {
            Cred::Acc(a) => CommitmentInputs::Account { issuer: a.issuer, values: &a.values, randomness: &acc_rand[i] },
            Cred::W3(w) => CommitmentInputs::Web3Issuer { signature: w.signature, signer: &w.holder, values: &w.values, randomness: &w3_rand[i] },
        })
        .collect();
    let res = request.clone().prove_with_rng(global, inputs.into_iter(), &mut rng(seed, 18_300), now());
    (request, res)
}

pub fn clone_pres(p: &Presentation<C, W>) -> Presentation<C, W> { Presentation { presentation_context: p.presentation_context, verifiable_credential: p.verifiable_credential.clone(), linking_proof: p.linking_proof.clone() } }

fn truth_case(report: &Report, cli: &Cli, global: &GlobalContext<C>, cred: &Cred, atoms: &[Atom<W>]) -> Result<(), (String, J)> {
    let t = conj(atoms.iter().map(|a| truth(&a.st, cred.value(a.tag))));
    let (request, res) = prove(global, challenge(7), &[(cred, atoms.to_vec())], cli.seed);
    report.trace(1);
    let public = [cred.public()];
    let verdict = res.as_ref().ok().map(|p| p.verify(global, public.iter()));
    let verified = matches!(verdict, Some(Ok(_)));
    match t {
        Truth::True => {
            let Ok(pres) = res else {
                let rest: Vec<_> = atoms.iter().filter(|a| a.st != St::NotInSet(vec![])).cloned().collect();
                if rest.len() < atoms.len() {
                    let ok = rest.is_empty() || {
                        let (_, r2) = prove(global, challenge(7), &[(cred, rest)], cli.seed);
                        r2.map(|p| p.verify(global, public.iter()).is_ok()).unwrap_or(false)
                    };
                    if ok {
                        report.violation("true-statement-not-provable", not_in_empty_set_witness("web3id-presentation"), json!({"example": atoms.iter().map(describe).collect::<Vec<_>>()}));
                        return Ok(());
                    }
                }
                return fail("true-statement-not-provable", json!({"error": format!("{:?}", res.err())}));
            };
            match verdict.unwrap() {
                Ok(req) => {
                    if req != request {
                        return fail("verified-request-differs-from-the-request", json!({}));
                    }
                }
                Err(e) => return fail("true-statement-proof-rejected", json!({"error": format!("{e:?}")})),
            }
            // reveals exactly the committed values
            let revealed: Vec<(u8, W)> = match &pres.verifiable_credential[0] {
                CredentialProof::Account { proofs, .. } => proofs.iter().filter_map(|(s, p)| if let AtomicProof::RevealAttribute { attribute, .. } = p { Some((s.attribute().0, attribute.clone())) } else { None }).collect(),
                CredentialProof::Web3Id { proofs, .. } => proofs
                    .iter()
                    .zip(atoms)
                    .filter_map(|((_, p), a)| if let AtomicProof::RevealAttribute { attribute, .. } = p { Some((a.tag, attribute.clone())) } else { None })
                    .collect(),
            };
            for (tag, v) in revealed {
                if &v != cred.value(tag) {
                    return fail("revealed-value-differs-from-committed", json!({"tag": tag}));
                }
            }
            // the JSON form carries the same presentation
            let js = serde_json::to_value(&pres).map_err(|e| ("presentation-not-serialisable".to_string(), json!(e.to_string())))?;
            match serde_json::from_value::<Presentation<C, W>>(js) {
                Ok(back) => {
                    if back != pres || back.verify(global, public.iter()).is_err() {
                        return fail("json-round-trip-changes-presentation", json!({}));
                    }
                }
                Err(e) => return fail("json-round-trip-fails", json!(e.to_string())),
            }
            report.outcome("true: proved and verified", 1);
        }
        Truth::False => {
            if verified {
                return fail("false-statement-verifies", json!({}));
            }
            report.outcome(if res.is_ok() { "false: prover output rejected" } else { "false: not provable" }, 1);
        }
        Truth::Wide => {
            report.outcome(if verified { "true but wider than 2^64: verified" } else if res.is_ok() { "true but wider than 2^64: prover output rejected" } else { "true but wider than 2^64: not provable" }, 1);
        }
    }
    Ok(())
}

/// What a perturbation is expected to cause.
#[derive(Clone, Copy, PartialEq)]
enum Expect {
    /// verification must fail
    Reject,
    /// verification may succeed, but then for a request different from the original one
    /// (fields the verifier reads back from the returned request)
    RejectOrOtherRequest,
}

type PMut = Box<dyn Fn(&mut Presentation<C, W>, &mut Vec<CredentialsInputs<C>>) + Send + Sync>;

fn stmt_of_acc(a: &Atom<W>) -> AtomicStatement<C, AttributeTag, W> { mk_atomic(AttributeTag(a.tag), &a.st) }
fn stmt_of_w3(a: &Atom<W>) -> AtomicStatement<C, String, W> { mk_atomic(w3tag(a.tag), &a.st) }

fn edit_linking(p: &mut Presentation<C, W>, f: impl Fn(&mut Vec<J>)) {
    let mut js = serde_json::to_value(&p.linking_proof).unwrap();
    let mut arr = js["proofValue"].as_array().cloned().unwrap_or_default();
    f(&mut arr);
    js["proofValue"] = J::Array(arr);
    if let Ok(lp) = serde_json::from_value::<LinkingProof>(js) {
        p.linking_proof = lp;
    }
}

/// The holder's linking signatures recomputed over the (altered) presentation -- the
/// holder is the prover, so nothing stops them from signing again. Written from the
/// documented message: LINKING_DOMAIN_STRING || SHA-512(challenge || credential proofs).
pub fn resign(p: &mut Presentation<C, W>, keys: &[&SigningKey]) {
    use concordium_base::common::to_bytes;
    use sha2::Digest;
    let mut h = sha2::Sha512::new();
    h.update(to_bytes(&p.presentation_context));
    h.update(to_bytes(&p.verifiable_credential));
    let mut msg = LINKING_DOMAIN_STRING.to_vec();
    msg.extend_from_slice(&h.finalize());
    let mut sigs = vec![];
    for c in &p.verifiable_credential {
        if let CredentialProof::Web3Id { holder, .. } = c {
            if let Some(k) = keys.iter().find(|k| k.verifying_key() == holder.public_key) {
                sigs.push(json!(hex::encode(ed25519_dalek::Signer::sign(*k, &msg).to_bytes())));
            }
        }
    }
    edit_linking(p, |a| *a = sigs.clone());
}

fn perturbations(cli: &Cli, global: &GlobalContext<C>, creds: &[(&Cred, Vec<Atom<W>>)], base: &Presentation<C, W>, other: &Presentation<C, W>, spare_acc: &AccCred, spare_w3: &W3Cred) -> Vec<(String, Expect, PMut)> {
    let mut m: Vec<(String, Expect, PMut)> = vec![];
    macro_rules! m {
        ($name:expr, $e:expr, $f:expr) => {
            m.push(($name.to_string(), $e, Box::new($f)));
        };
    }
    use Expect::*;
    let ntags = web3_alphabets().len() as u8;
    m!("challenge: first bit flipped", Reject, |p: &mut Presentation<C, W>, _: &mut Vec<CredentialsInputs<C>>| {
        let mut b: [u8; 32] = p.presentation_context.as_ref().try_into().unwrap();
        b[0] ^= 1;
        p.presentation_context = Challenge::new(b);
    });
    m!("challenge: last bit flipped", Reject, |p: &mut Presentation<C, W>, _: &mut Vec<CredentialsInputs<C>>| {
        let mut b: [u8; 32] = p.presentation_context.as_ref().try_into().unwrap();
        b[31] ^= 0x80;
        p.presentation_context = Challenge::new(b);
    });
    let g2 = {
        let mut g = global.clone();
        g.genesis_string.push('x');
        g
    };
    let _ = g2;
    for (i, (cred, atoms)) in creds.iter().enumerate() {
        // --- statements and proofs -------------------------------------------------------
        for (k, a) in atoms.iter().enumerate() {
            for (label, alt) in atom_alterations(a, ntags) {
                let (sa, sw) = (stmt_of_acc(&alt), stmt_of_w3(&alt));
                m!(format!("credential {i} statement {k}: {label}"), Reject, move |p: &mut Presentation<C, W>, _: &mut Vec<CredentialsInputs<C>>| match &mut p.verifiable_credential[i] {
                    CredentialProof::Account { proofs, .. } => proofs[k].0 = sa.clone(),
                    CredentialProof::Web3Id { proofs, .. } => proofs[k].0 = sw.clone(),
                });
            }
            for j in k + 1..atoms.len() {
                if atoms[k] != atoms[j] {
                    m!(format!("credential {i}: proofs {k} and {j} swapped"), Reject, move |p: &mut Presentation<C, W>, _: &mut Vec<CredentialsInputs<C>>| match &mut p.verifiable_credential[i] {
                        CredentialProof::Account { proofs, .. } => {
                            let (a, b) = (proofs[k].1.clone(), proofs[j].1.clone());
                            proofs[k].1 = b;
                            proofs[j].1 = a;
                        }
                        CredentialProof::Web3Id { proofs, .. } => {
                            let (a, b) = (proofs[k].1.clone(), proofs[j].1.clone());
                            proofs[k].1 = b;
                            proofs[j].1 = a;
                        }
                    });
                }
            }
            let op: AtomicProof<C, W> = match &other.verifiable_credential[i] {
                CredentialProof::Account { proofs, .. } => proofs[k].1.clone(),
                CredentialProof::Web3Id { proofs, .. } => proofs[k].1.clone(),
            };
            m!(format!("credential {i} proof {k}: taken from a presentation for another challenge"), Reject, move |p: &mut Presentation<C, W>, _: &mut Vec<CredentialsInputs<C>>| match &mut p.verifiable_credential[i] {
                CredentialProof::Account { proofs, .. } => proofs[k].1 = op.clone(),
                CredentialProof::Web3Id { proofs, .. } => proofs[k].1 = op.clone(),
            });
            if a.st == St::Reveal {
                for up in [false, true] {
                    if let Some(nv) = wbump(cred.value(a.tag), up) {
                        m!(format!("credential {i} proof {k}: revealed value {}", if up { "+1" } else { "-1" }), Reject, move |p: &mut Presentation<C, W>, _: &mut Vec<CredentialsInputs<C>>| {
                            let pr = match &mut p.verifiable_credential[i] {
                                CredentialProof::Account { proofs, .. } => &mut proofs[k].1,
                                CredentialProof::Web3Id { proofs, .. } => &mut proofs[k].1,
                            };
                            if let AtomicProof::RevealAttribute { attribute, .. } = pr {
                                *attribute = nv.clone();
                            }
                        });
                    }
                }
            }
        }
        if atoms.len() >= 2 {
            m!(format!("credential {i}: first statement dropped with its proof"), Reject, move |p: &mut Presentation<C, W>, _: &mut Vec<CredentialsInputs<C>>| match &mut p.verifiable_credential[i] {
                CredentialProof::Account { proofs, .. } => {
                    proofs.remove(0);
                }
                CredentialProof::Web3Id { proofs, .. } => {
                    proofs.remove(0);
                }
            });
        }
        // --- credential metadata --------------------------------------------------------------
        match cred {
            Cred::Acc(_) => {
                // the account credential id and network are not part of the transcript of this
                // (pre-v1) protocol; the verifier reads them back from the returned request
                let oc = spare_acc.cred_id;
                m!(format!("credential {i}: cred_id of another credential"), RejectOrOtherRequest, move |p: &mut Presentation<C, W>, _: &mut Vec<CredentialsInputs<C>>| {
                    if let CredentialProof::Account { cred_id, .. } = &mut p.verifiable_credential[i] {
                        *cred_id = oc;
                    }
                });
                m!(format!("credential {i}: network mainnet"), RejectOrOtherRequest, move |p: &mut Presentation<C, W>, _: &mut Vec<CredentialsInputs<C>>| {
                    if let CredentialProof::Account { network, .. } = &mut p.verifiable_credential[i] {
                        *network = Network::Mainnet;
                    }
                });
                // public inputs
                let key = global.on_chain_commitment_key;
                for a in atoms.iter() {
                    let tag = AttributeTag(a.tag);
                    let c2 = key.hide(&Value::<C>::new(cred.value(a.tag).to_field_element()), &PedersenRandomness::<C>::generate(&mut rng(cli.seed, 18_400 + a.tag as u64)));
                    m!(format!("public {i}: commitment {} to the same value with other randomness", a.tag), Reject, move |_: &mut Presentation<C, W>, pb: &mut Vec<CredentialsInputs<C>>| {
                        if let CredentialsInputs::Account { commitments } = &mut pb[i] {
                            commitments.insert(tag, c2);
                        }
                    });
                    m!(format!("public {i}: commitment {} removed", a.tag), Reject, move |_: &mut Presentation<C, W>, pb: &mut Vec<CredentialsInputs<C>>| {
                        if let CredentialsInputs::Account { commitments } = &mut pb[i] {
                            commitments.remove(&tag);
                        }
                    });
                }
                let spare_cmms = spare_acc.cmms.clone();
                m!(format!("public {i}: commitments of another credential with the same values"), Reject, move |_: &mut Presentation<C, W>, pb: &mut Vec<CredentialsInputs<C>>| pb[i] = CredentialsInputs::Account { commitments: spare_cmms.clone() });
                let ipk = spare_w3.issuer.verifying_key();
                m!(format!("public {i}: web3 inputs for an account credential"), Reject, move |_: &mut Presentation<C, W>, pb: &mut Vec<CredentialsInputs<C>>| pb[i] = CredentialsInputs::Web3 { issuer_pk: ipk.into() });
            }
            Cred::W3(w) => {
                m!(format!("credential {i}: contract index + 1"), Reject, move |p: &mut Presentation<C, W>, _: &mut Vec<CredentialsInputs<C>>| {
                    if let CredentialProof::Web3Id { contract, .. } = &mut p.verifiable_credential[i] {
                        contract.index += 1;
                    }
                });
                m!(format!("credential {i}: contract subindex + 1"), Reject, move |p: &mut Presentation<C, W>, _: &mut Vec<CredentialsInputs<C>>| {
                    if let CredentialProof::Web3Id { contract, .. } = &mut p.verifiable_credential[i] {
                        contract.subindex += 1;
                    }
                });
                let oh = CredentialHolderId::new(spare_w3.holder.verifying_key());
                m!(format!("credential {i}: another holder"), Reject, move |p: &mut Presentation<C, W>, _: &mut Vec<CredentialsInputs<C>>| {
                    if let CredentialProof::Web3Id { holder, .. } = &mut p.verifiable_credential[i] {
                        *holder = oh;
                    }
                });
                m!(format!("credential {i}: network mainnet"), Reject, move |p: &mut Presentation<C, W>, _: &mut Vec<CredentialsInputs<C>>| {
                    if let CredentialProof::Web3Id { network, .. } = &mut p.verifiable_credential[i] {
                        *network = Network::Mainnet;
                    }
                });
                m!(format!("credential {i}: a type added"), Reject, move |p: &mut Presentation<C, W>, _: &mut Vec<CredentialsInputs<C>>| {
                    if let CredentialProof::Web3Id { ty, .. } = &mut p.verifiable_credential[i] {
                        ty.insert("Another".into());
                    }
                });
                m!(format!("credential {i}: a type removed"), Reject, move |p: &mut Presentation<C, W>, _: &mut Vec<CredentialsInputs<C>>| {
                    if let CredentialProof::Web3Id { ty, .. } = &mut p.verifiable_credential[i] {
                        ty.remove("TestCredential");
                    }
                });
                m!(format!("credential {i}: creation time + 1 ms"), Reject, move |p: &mut Presentation<C, W>, _: &mut Vec<CredentialsInputs<C>>| {
                    if let CredentialProof::Web3Id { created, .. } = &mut p.verifiable_credential[i] {
                        *created += chrono::Duration::milliseconds(1);
                    }
                });
                let key = global.on_chain_commitment_key;
                for t in 0..ntags {
                    let c2 = key.hide(&Value::<C>::new(cred.value(t).to_field_element()), &PedersenRandomness::<C>::generate(&mut rng(cli.seed, 18_500 + t as u64)));
                    m!(format!("credential {i}: signed commitment {t} replaced (same value, other randomness)"), Reject, move |p: &mut Presentation<C, W>, _: &mut Vec<CredentialsInputs<C>>| {
                        if let CredentialProof::Web3Id { commitments, .. } = &mut p.verifiable_credential[i] {
                            commitments.commitments.insert(w3tag(t), c2);
                        }
                    });
                    m!(format!("credential {i}: signed commitment {t} removed"), Reject, move |p: &mut Presentation<C, W>, _: &mut Vec<CredentialsInputs<C>>| {
                        if let CredentialProof::Web3Id { commitments, .. } = &mut p.verifiable_credential[i] {
                            commitments.commitments.remove(&w3tag(t));
                        }
                    });
                }
                let osig = spare_w3.signature;
                m!(format!("credential {i}: issuer signature of another credential"), Reject, move |p: &mut Presentation<C, W>, _: &mut Vec<CredentialsInputs<C>>| {
                    if let CredentialProof::Web3Id { commitments, .. } = &mut p.verifiable_credential[i] {
                        commitments.signature = osig;
                    }
                });
                // a holder who signs the commitments themself
                let self_signed = {
                    let rand: BTreeMap<String, PedersenRandomness<C>> = w.rand_s.iter().map(|(t, s)| (t.clone(), PedersenRandomness::<C>::new(*s))).collect();
                    SignedCommitments::from_secrets(global, &w.values, &rand, &CredentialHolderId::new(w.holder.verifying_key()), &w.holder, w.contract).unwrap().signature
                };
                m!(format!("credential {i}: commitments signed by the holder instead of the issuer"), Reject, move |p: &mut Presentation<C, W>, _: &mut Vec<CredentialsInputs<C>>| {
                    if let CredentialProof::Web3Id { commitments, .. } = &mut p.verifiable_credential[i] {
                        commitments.signature = self_signed;
                    }
                });
                let ipk = spare_w3.issuer.verifying_key();
                m!(format!("public {i}: another issuer key"), Reject, move |_: &mut Presentation<C, W>, pb: &mut Vec<CredentialsInputs<C>>| pb[i] = CredentialsInputs::Web3 { issuer_pk: ipk.into() });
                let hpk = w.holder.verifying_key();
                m!(format!("public {i}: holder key as issuer key"), Reject, move |_: &mut Presentation<C, W>, pb: &mut Vec<CredentialsInputs<C>>| pb[i] = CredentialsInputs::Web3 { issuer_pk: hpk.into() });
                let sc = spare_acc.cmms.clone();
                m!(format!("public {i}: account inputs for a web3 credential"), Reject, move |_: &mut Presentation<C, W>, pb: &mut Vec<CredentialsInputs<C>>| pb[i] = CredentialsInputs::Account { commitments: sc.clone() });
            }
        }
    }
    // --- linking proof ---------------------------------------------------------------------------
    let nw3 = creds.iter().filter(|(c, _)| matches!(c, Cred::W3(_))).count();
    if nw3 >= 1 {
        m!("linking proof: last signature dropped", Reject, |p: &mut Presentation<C, W>, _: &mut Vec<CredentialsInputs<C>>| edit_linking(p, |a| {
            a.pop();
        }));
        m!("linking proof: last signature duplicated", Reject, |p: &mut Presentation<C, W>, _: &mut Vec<CredentialsInputs<C>>| edit_linking(p, |a| {
            let l = a.last().unwrap().clone();
            a.push(l);
        }));
        let olp = serde_json::to_value(&other.linking_proof).unwrap();
        m!("linking proof: signatures of a presentation for another challenge", Reject, move |p: &mut Presentation<C, W>, _: &mut Vec<CredentialsInputs<C>>| {
            let o = olp["proofValue"].as_array().cloned().unwrap();
            edit_linking(p, |a| *a = o.clone());
        });
    }
    if nw3 >= 2 {
        m!("linking proof: signatures swapped", Reject, |p: &mut Presentation<C, W>, _: &mut Vec<CredentialsInputs<C>>| edit_linking(p, |a| a.swap(0, 1)));
    }
    if nw3 == 0 {
        let sig = Some(json!(hex::encode(spare_w3.signature.to_bytes())));
        m!("linking proof: a signature added to an account-only presentation", Reject, move |p: &mut Presentation<C, W>, _: &mut Vec<CredentialsInputs<C>>| {
            let s = sig.clone();
            edit_linking(p, move |a| {
                if let Some(s) = &s {
                    a.push(s.clone())
                }
            })
        });
    }
    // --- shape -------------------------------------------------------------------------------------
    m!("public: last input dropped", Reject, |_: &mut Presentation<C, W>, pb: &mut Vec<CredentialsInputs<C>>| {
        pb.pop();
    });
    m!("public: last input duplicated", Reject, |_: &mut Presentation<C, W>, pb: &mut Vec<CredentialsInputs<C>>| {
        let l = match pb.last().unwrap() {
            CredentialsInputs::Account { commitments } => CredentialsInputs::Account { commitments: commitments.clone() },
            CredentialsInputs::Web3 { issuer_pk } => CredentialsInputs::Web3 { issuer_pk: *issuer_pk },
        };
        pb.push(l);
    });
    if creds.len() == 2 {
        m!("credentials swapped (public inputs swapped along)", Reject, |p: &mut Presentation<C, W>, pb: &mut Vec<CredentialsInputs<C>>| {
            p.verifiable_credential.swap(0, 1);
            pb.swap(0, 1);
        });
        m!("last credential dropped (with its public input)", RejectOrOtherRequest, |p: &mut Presentation<C, W>, pb: &mut Vec<CredentialsInputs<C>>| {
            p.verifiable_credential.pop();
            pb.pop();
        });
        m!("first credential dropped (with its public input)", Reject, |p: &mut Presentation<C, W>, pb: &mut Vec<CredentialsInputs<C>>| {
            p.verifiable_credential.remove(0);
            pb.remove(0);
        });
    }
    let _ = base;
    m
}

pub fn layer_b(report: &Report, cli: &Cli, global: &GlobalContext<C>) {
    let quick = cli.tier == Tier::Quick;
    let acc = Cred::Acc(acc_cred(cli.seed, 0, global));
    let acc2 = Cred::Acc(acc_cred(cli.seed, 1, global));
    let w3 = Cred::W3(w3_cred(cli.seed, 0, global));
    let w3b = Cred::W3(w3_cred(cli.seed, 1, global));
    let spare_acc = acc_cred(cli.seed, 2, global);
    let spare_w3 = w3_cred(cli.seed, 2, global);
    let alph = web3_alphabets();
    // B1: every atomic statement on either credential kind
    let mut singles: Vec<(&Cred, Atom<W>)> = vec![];
    for cred in [&acc, &w3] {
        for (t, (v, nb)) in alph.iter().enumerate() {
            for a in atoms_around(t as u8, v, nb, !quick || matches!(cred, Cred::Acc(_))) {
                singles.push((cred, a));
            }
        }
    }
    report.set_extra("layer_b_single_statements", json!(singles.len()));
    singles.par_iter().for_each(|(cred, a)| {
        case(report, json!({"layer": "web3id-presentation", "credential": cred.kind(), "statements": [describe(a)]}), || truth_case(report, cli, global, cred, std::slice::from_ref(a)));
    });
    // B2: ordered pairs of the reduced alphabet (thorough: both kinds; quick: web3, three tags)
    let reduced: Vec<Atom<W>> = alph.iter().enumerate().filter(|(t, _)| !quick || *t < 3).flat_map(|(t, (v, nb))| reduced_atoms(t as u8, v, nb)).collect();
    let mut pairs: Vec<(&Cred, Atom<W>, Atom<W>)> = vec![];
    for cred in [&w3, &acc] {
        if quick && matches!(cred, Cred::Acc(_)) {
            continue;
        }
        for a in &reduced {
            for b in &reduced {
                pairs.push((cred, a.clone(), b.clone()));
            }
        }
    }
    report.set_extra("layer_b_statement_pairs", json!(pairs.len()));
    pairs.par_iter().for_each(|(cred, a, b)| {
        case(report, json!({"layer": "web3id-presentation", "credential": cred.kind(), "statements": [describe(a), describe(b)]}), || truth_case(report, cli, global, cred, &[a.clone(), b.clone()]));
    });
    // B3: perturbations of accepted presentations over one or two credentials
    let pick = |t: usize, f: &dyn Fn(&St<W>) -> bool| -> Atom<W> { atoms_around(t as u8, &alph[t].0, &alph[t].1, true).into_iter().find(|a| f(&a.st) && truth(&a.st, &alph[t].0) == Truth::True).unwrap() };
    let four = vec![Atom { tag: 5, st: St::Reveal }, pick(1, &|s| matches!(s, St::Range(..))), pick(0, &|s| matches!(s, St::InSet(x) if x.len() == 3)), pick(2, &|s| matches!(s, St::NotInSet(x) if x.len() == 2))];
    let two = vec![pick(2, &|s| matches!(s, St::Range(..))), Atom { tag: 0, st: St::Reveal }];
    let bases: Vec<(&str, Vec<(&Cred, Vec<Atom<W>>)>)> = vec![
        ("account", vec![(&acc, four.clone())]),
        ("web3", vec![(&w3, four.clone())]),
        ("account+web3", vec![(&acc, two.clone()), (&w3, four.clone())]),
        ("web3+account", vec![(&w3, two.clone()), (&acc, two.clone())]),
        ("web3+web3", vec![(&w3, two.clone()), (&w3b, two.clone())]),
        ("account+account", vec![(&acc, two.clone()), (&acc2, two.clone())]),
        // credentials presented without any statement: everything about the credential itself
        // (issuer signature, commitments, holder, contract) must still be checked
        // (an account credential without statements carries no proof at all - nothing to bind)
        ("web3 without statements", vec![(&w3, vec![])]),
        ("web3 without statements + web3", vec![(&w3, vec![]), (&w3b, two.clone())]),
        ("account + web3 without statements", vec![(&acc, two.clone()), (&w3, vec![])]),
    ];
    for (name, creds) in &bases {
        let base_w = json!({"layer": "web3id-presentation-perturbation", "credentials": name});
        let (request, res) = prove(global, challenge(7), creds, cli.seed);
        let (_, res_other) = prove(global, challenge(8), creds, cli.seed + 1);
        let (Ok(pres), Ok(other)) = (res, res_other) else {
            report.violation("true-statement-not-provable", base_w, json!({}));
            continue;
        };
        let public: Vec<CredentialsInputs<C>> = creds.iter().map(|(c, _)| c.public()).collect();
        match pres.verify(global, public.iter()) {
            Ok(r) if r == request => {}
            x => {
                report.violation("true-statement-proof-rejected", base_w, json!({"result": format!("{:?}", x.err())}));
                continue;
            }
        }
        let muts = perturbations(cli, global, creds, &pres, &other, &spare_acc, &spare_w3);
        report.set_extra(&format!("layer_b_perturbations_{name}"), json!(muts.len()));
        // the re-signing helper must reproduce the library's signatures on the unaltered
        // presentation, otherwise the re-signed variants below would be vacuous
        let holder_keys: Vec<&SigningKey> = [&w3, &w3b].iter().filter_map(|c| if let Cred::W3(w) = c { Some(&w.holder) } else { None }).chain(std::iter::once(&spare_w3.holder)).collect();
        let has_w3 = creds.iter().any(|(c, _)| matches!(c, Cred::W3(_)));
        // (if it does not - the library signs something else than the helper, which was written
        // from the documented message layout - the re-signed variants are skipped and the run is not
        // called exhaustive; the variants without re-signing still decide the property)
        let mut can_resign = has_w3;
        if has_w3 {
            let mut p = clone_pres(&pres);
            resign(&mut p, &holder_keys);
            if p != pres {
                can_resign = false;
                report.outcome("re-signing helper does not reproduce the library's linking proof: re-signed variants skipped", 1);
                report.cap_hit("C18 layer B: linking-proof message differs from the helper's; re-signed variants skipped");
            }
        }
        let variants: Vec<(usize, bool)> = (0..muts.len()).flat_map(|i| if can_resign { vec![(i, false), (i, true)] } else { vec![(i, false)] }).collect();
        variants.par_iter().for_each(|&(mi, re_sign)| {
            let (label, expect, f) = &muts[mi];
            // With the linking proof re-signed the altering party is the holder. The creation
            // time is the holder's own clock, and type set and network are not bound by the
            // issuer's signature: the verifier reads them back from the returned request.
            if re_sign && (label.starts_with("linking proof") || label.contains("creation time")) {
                return;
            }
            // A credential without statements has no proof that binds it to the challenge or to its
            // neighbours: its holder can sign another presentation containing it. What the verifier
            // returns is then another request; an outsider (no re-signing) is rejected as always.
            let expect = if re_sign && (label.contains(": a type ") || label.contains("network mainnet") || name.contains("without statements")) { &Expect::RejectOrOtherRequest } else { expect };
            // The holders of the web3 credentials sign the whole list of credential proofs: in a
            // presentation with a web3 credential nobody but them can alter anything - also not
            // the metadata of an account credential next to it, which nothing else binds.
            let expect = if has_w3 && !re_sign && !label.starts_with("public ") { &Expect::Reject } else { expect };
            let mut w = base_w.clone();
            w["perturbation"] = json!(label);
            if re_sign {
                w["linking_proof"] = json!("re-signed by the holder(s)");
            }
            case(report, w, || {
                let mut p = clone_pres(&pres);
                let mut pb: Vec<CredentialsInputs<C>> = creds.iter().map(|(c, _)| c.public()).collect();
                f(&mut p, &mut pb);
                if re_sign {
                    resign(&mut p, &holder_keys);
                }
                report.trace(1);
                match p.verify(global, pb.iter()) {
                    Err(e) => report.outcome(&format!("perturbation rejected: {e:?}"), 1),
                    Ok(r) => {
                        if *expect == Expect::Reject {
                            return fail("altered-presentation-verifies", json!({"what": label}));
                        }
                        if r == request {
                            return fail("altered-presentation-verifies-for-the-original-request", json!({"what": label}));
                        }
                        report.outcome("perturbation accepted for a different request (field read back by the verifier)", 1);
                    }
                }
                Ok(())
            });
        });
        // every bit of the holder's linking signatures
        if name.contains("web3") && (*name == "web3" || !quick) {
            let js = serde_json::to_value(&pres.linking_proof).unwrap();
            let sigs = js["proofValue"].as_array().cloned().unwrap();
            for (si, s) in sigs.iter().enumerate() {
                let hexsig = s.as_str().map(|x| x.to_string()).or_else(|| s.get("signature").and_then(|x| x.as_str()).map(|x| x.to_string()));
                let Some(hexsig) = hexsig else { mc_core::machinery_error("linking proof JSON shape not understood") };
                let raw = hex::decode(&hexsig).unwrap_or_else(|_| mc_core::machinery_error("linking signature is not hex"));
                (0..raw.len() * 8).into_par_iter().for_each(|bit| {
                    let mut w = base_w.clone();
                    w["linking_signature"] = json!(si);
                    w["bit_flip"] = json!(bit);
                    case(report, w, || {
                        let mut p = clone_pres(&pres);
                        let flipped = hex::encode(flip(&raw, bit));
                        let s2 = s.clone();
                        edit_linking(&mut p, |a| {
                            a[si] = if s2.is_string() { json!(flipped) } else { json!({"signature": flipped}) };
                        });
                        if p.linking_proof == pres.linking_proof {
                            report.outcome("bit flip unparsable", 1);
                            return Ok(());
                        }
                        report.trace(1);
                        if p.verify(global, public.iter()).is_ok() {
                            return fail("altered-linking-signature-verifies", json!({"bit": bit}));
                        }
                        report.outcome("bit flip rejected", 1);
                        Ok(())
                    });
                });
            }
        }
    }
}
