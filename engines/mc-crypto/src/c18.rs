//! C18: attribute statement proofs and verifiable presentations verify exactly true
//! statements.
//!
//! Layer A (`id` statements): `StatementWithContext::prove` / `Statement::verify` on a
//! four-attribute credential, every atomic statement of a boundary alphabet (all ordered
//! (lower, upper) pairs of a neighbour alphabet, empty / singleton / larger sets), all
//! ordered pairs of a reduced alphabet, both proof versions; then the complete
//! single-component perturbation list of accepted (statement, proof) pairs.
//! Layer B (`web3id` presentations): account and web3 credentials, singly and in pairs.
//! Layer C (`web3id::v1`): account-based and identity-based credentials and the
//! anchored-request verification (in `c18v1.rs`).
//!
//! Truth oracle: integer order of the field-element embedding of attributes. The range
//! technique of the library proves `v - a` and `v - b + 2^64` to be 64-bit numbers, so a
//! true range statement is only *provable* when `v - a < 2^64` and `b - v <= 2^64`
//! ("narrow"); true-but-wide statements are recorded as their own outcome class and only
//! soundness is required of them.

use crate::util::*;
use concordium_base::{
    common::{from_bytes, to_bytes, Serialize},
    curve_arithmetic::Curve,
    id::{
        constants::{ArCurve, AttributeKind},
        id_proof_types::*,
        types::*,
    },
    pedersen_commitment::{Randomness as PedersenRandomness, Value},
};
use mc_core::{Cli, Report, Tier};
use num_bigint::BigUint;
use rayon::prelude::*;
use serde_json::{json, Value as J};
use std::collections::{BTreeMap, BTreeSet};

pub type C = ArCurve;
pub type F = <ArCurve as Curve>::Scalar;

// ---------------------------------------------------------------------------------------
// abstract statements and the truth oracle
// ---------------------------------------------------------------------------------------

#[derive(Clone, Debug, PartialEq)]
pub enum St<A> {
    Reveal,
    Range(A, A),
    InSet(Vec<A>),
    NotInSet(Vec<A>),
}

#[derive(Clone, Debug, PartialEq)]
pub struct Atom<A> {
    pub tag: u8,
    pub st:  St<A>,
}

#[derive(Clone, Copy, Debug, PartialEq, Eq)]
pub enum Truth {
    True,
    /// true in the integer order, but outside what the 64-bit range technique can prove
    Wide,
    False,
}

pub fn fe_int<A: Attribute<F>>(a: &A) -> BigUint { BigUint::from_bytes_be(&to_bytes(&a.to_field_element())) }

pub fn truth<A: Attribute<F>>(st: &St<A>, v: &A) -> Truth {
    let vi = fe_int(v);
    match st {
        St::Reveal => Truth::True,
        St::Range(a, b) => {
            let (a, b) = (fe_int(a), fe_int(b));
            if a <= vi && vi < b {
                let two64 = BigUint::from(1u8) << 64;
                if &vi - &a < two64 && &b - &vi <= two64 {
                    Truth::True
                } else {
                    Truth::Wide
                }
            } else {
                Truth::False
            }
        }
        St::InSet(s) => {
            if s.iter().any(|x| fe_int(x) == vi) {
                Truth::True
            } else {
                Truth::False
            }
        }
        St::NotInSet(s) => {
            if s.iter().any(|x| fe_int(x) == vi) {
                Truth::False
            } else {
                Truth::True
            }
        }
    }
}

pub fn conj(ts: impl IntoIterator<Item = Truth>) -> Truth {
    let mut r = Truth::True;
    for t in ts {
        match t {
            Truth::False => return Truth::False,
            Truth::Wide => r = Truth::Wide,
            Truth::True => {}
        }
    }
    r
}

pub fn mk_atomic<T: Clone + Serialize, A: Attribute<F> + Ord + Clone>(tag: T, st: &St<A>) -> AtomicStatement<C, T, A> {
    match st {
        St::Reveal => AtomicStatement::RevealAttribute { statement: RevealAttributeStatement { attribute_tag: tag } },
        St::Range(a, b) => AtomicStatement::AttributeInRange { statement: AttributeInRangeStatement { attribute_tag: tag, lower: a.clone(), upper: b.clone(), _phantom: Default::default() } },
        St::InSet(s) => AtomicStatement::AttributeInSet { statement: AttributeInSetStatement { attribute_tag: tag, set: s.iter().cloned().collect(), _phantom: Default::default() } },
        St::NotInSet(s) => AtomicStatement::AttributeNotInSet { statement: AttributeNotInSetStatement { attribute_tag: tag, set: s.iter().cloned().collect(), _phantom: Default::default() } },
    }
}

pub fn describe<A: std::fmt::Debug>(a: &Atom<A>) -> J { json!({"tag": a.tag, "statement": format!("{:?}", a.st)}) }

/// The statement alphabet around a value `v` with neighbour alphabet `nb` (which contains
/// `v`): Reveal, every ordered (lower, upper) pair, and the sets {}, {v}, {n}, {v,n},
/// {n,n'}, {v,n,n'}, everything, everything but v -- each as membership and
/// non-membership.
pub fn atoms_around<A: Clone + PartialEq>(tag: u8, v: &A, nb: &[A], full_pairs: bool) -> Vec<Atom<A>> {
    let mut out = vec![Atom { tag, st: St::Reveal }];
    for (i, a) in nb.iter().enumerate() {
        for (j, b) in nb.iter().enumerate() {
            // reduced: only pairs touching the first three alphabet entries (predecessor,
            // value, successor)
            if full_pairs || (i < 3 && j < 3) {
                out.push(Atom { tag, st: St::Range(a.clone(), b.clone()) });
            }
        }
    }
    let others: Vec<A> = nb.iter().filter(|x| *x != v).cloned().collect();
    let mut sets: Vec<Vec<A>> = vec![vec![], vec![v.clone()]];
    if let Some(n) = others.first() {
        sets.push(vec![n.clone()]);
        sets.push(vec![v.clone(), n.clone()]);
    }
    if others.len() >= 2 {
        sets.push(vec![others[0].clone(), others[1].clone()]);
        sets.push(vec![v.clone(), others[0].clone(), others[1].clone()]);
    }
    if others.len() >= 3 {
        sets.push(nb.to_vec());
        sets.push(others.clone());
    }
    for s in sets {
        out.push(Atom { tag, st: St::InSet(s.clone()) });
        out.push(Atom { tag, st: St::NotInSet(s) });
    }
    out
}

/// Seven atoms per tag: Reveal and a true and a false instance of each other kind.
pub fn reduced_atoms<A: Clone + PartialEq + Attribute<F>>(tag: u8, v: &A, nb: &[A]) -> Vec<Atom<A>> {
    let all = atoms_around(tag, v, nb, true);
    let mut out = vec![all[0].clone()];
    for kind in 0..3 {
        for want in [Truth::True, Truth::False] {
            if let Some(a) = all.iter().find(|a| {
                let k = match a.st {
                    St::Range(..) => 0,
                    St::InSet(ref s) if !s.is_empty() => 1,
                    St::NotInSet(ref s) if !s.is_empty() => 2,
                    _ => 9,
                };
                k == kind && truth(&a.st, v) == want
            }) {
                out.push(a.clone());
            }
        }
    }
    out
}

/// Canonical (minimised) witness of known finding F9: `attribute not in {}` is true but the
/// set-non-membership prover cannot handle the empty set.
pub fn not_in_empty_set_witness(layer: &str) -> J { json!({"layer": layer, "statement": "NotInSet([])"}) }

// ---------------------------------------------------------------------------------------
// layer A: id statements over AttributeKind
// ---------------------------------------------------------------------------------------

pub fn ak(s: &str) -> AttributeKind { AttributeKind::try_new(s.to_string()).unwrap() }

/// Neighbour alphabets of the four attribute values; entry 0 = predecessor (or a second
/// successor where there is none), 1 = the value, 2 = successor, then shorter / longer /
/// far values.
pub fn string_alphabets() -> Vec<(AttributeKind, Vec<AttributeKind>)> {
    let z31 = "z".repeat(31);
    let z30 = "z".repeat(30);
    vec![
        (ak(""), vec![ak("\u{1}"), ak(""), ak("\u{0}"), ak("a")]),
        (ak("a"), vec![ak("`"), ak("a"), ak("b"), ak(""), ak("aa")]),
        (ak("20200101"), vec![ak("20200100"), ak("20200101"), ak("20200102"), ak("19000101"), ak("99991231"), ak("2020010"), ak("202001011")]),
        (ak(&z31), vec![ak(&format!("{z30}y")), ak(&z31), ak(&format!("{z30}{{")), ak(&"a".repeat(31)), ak("")]),
    ]
}

struct IdFix {
    global: GlobalContext<C>,
    values: BTreeMap<AttributeTag, AttributeKind>,
    /// commitment randomness as bare scalars (the library type holds an `Rc`)
    rand_s: BTreeMap<AttributeTag, F>,
    cmms:   CredentialDeploymentCommitments<C>,
    cred:   C,
    other_cred: C,
}

fn id_fix(cli: &Cli, global: &GlobalContext<C>) -> IdFix {
    let mut r = rng(cli.seed, 18_000);
    let key = &global.on_chain_commitment_key;
    let mut values = BTreeMap::new();
    let mut rand = BTreeMap::new();
    let mut cmm_attributes = BTreeMap::new();
    for (t, (v, _)) in string_alphabets().into_iter().enumerate() {
        let tag = AttributeTag(t as u8);
        let rnd = PedersenRandomness::<C>::generate(&mut r);
        cmm_attributes.insert(tag, key.hide(&Value::<C>::new(v.to_field_element()), &rnd));
        values.insert(tag, v);
        rand.insert(tag, *rnd);
    }
    let dummy = key.commit(&Value::<C>::new(C::scalar_from_u64(7)), &mut r).0;
    let cmms = CredentialDeploymentCommitments { cmm_prf: dummy, cmm_cred_counter: dummy, cmm_max_accounts: dummy, cmm_attributes, cmm_id_cred_sec_sharing_coeff: vec![dummy] };
    let cred = key.g.mul_by_scalar(&C::generate_scalar(&mut r));
    let other_cred = key.g.mul_by_scalar(&C::generate_scalar(&mut r));
    IdFix { global: global.clone(), values, rand_s: rand, cmms, cred, other_cred }
}

type IdStmt = AtomicStatement<C, AttributeTag, AttributeKind>;
type IdProof = Proof<C, AttributeKind>;

#[derive(Clone)]
struct VIn {
    version:   ProofVersion,
    challenge: Vec<u8>,
    global:    GlobalContext<C>,
    cred:      C,
    cmms:      CredentialDeploymentCommitments<C>,
    stmts:     Vec<IdStmt>,
    proof:     IdProof,
}

impl IdFix {
    fn rand(&self) -> BTreeMap<AttributeTag, PedersenRandomness<C>> { self.rand_s.iter().map(|(t, s)| (*t, PedersenRandomness::<C>::new(*s))).collect() }
}

impl VIn {
    fn run(&self) -> bool { Statement { statements: self.stmts.clone() }.verify(self.version, &self.challenge, &self.global, &self.cred, &self.cmms, &self.proof) }
}

fn id_prove(fx: &IdFix, version: ProofVersion, challenge: &[u8], atoms: &[Atom<AttributeKind>]) -> (Vec<IdStmt>, Option<IdProof>) {
    let stmts: Vec<IdStmt> = atoms.iter().map(|a| mk_atomic(AttributeTag(a.tag), &a.st)).collect();
    let swc = StatementWithContext { credential: fx.cred, statement: Statement { statements: stmts.clone() } };
    let p = swc.prove(version, &fx.global, challenge, &fx.values, &fx.rand());
    (stmts, p)
}

fn vname(v: ProofVersion) -> &'static str {
    match v {
        ProofVersion::Version1 => "v1",
        ProofVersion::Version2 => "v2",
    }
}

/// prove + verify one statement list and compare with the truth oracle.
fn id_truth_case(report: &Report, fx: &IdFix, version: ProofVersion, atoms: &[Atom<AttributeKind>]) -> Result<(), (String, J)> {
    let challenge = b"mc-crypto c18 challenge".to_vec();
    let t = conj(atoms.iter().map(|a| truth(&a.st, &fx.values[&AttributeTag(a.tag)])));
    let (stmts, p) = id_prove(fx, version, &challenge, atoms);
    report.trace(1);
    let vin = p.map(|proof| VIn { version, challenge: challenge.clone(), global: fx.global.clone(), cred: fx.cred, cmms: fx.cmms.clone(), stmts, proof });
    let verified = vin.as_ref().map(|v| v.run()).unwrap_or(false);
    match t {
        Truth::True => {
            let Some(vin) = vin else {
                // minimise: if the list without its `not in {}` statements is provable, the
                // empty-set statement is what cannot be proved
                let rest: Vec<_> = atoms.iter().filter(|a| a.st != St::NotInSet(vec![])).cloned().collect();
                if rest.len() < atoms.len() {
                    let ok = rest.is_empty() || {
                        let (stmts, p) = id_prove(fx, version, &challenge, &rest);
                        p.map(|proof| VIn { version, challenge: challenge.clone(), global: fx.global.clone(), cred: fx.cred, cmms: fx.cmms.clone(), stmts, proof }.run()).unwrap_or(false)
                    };
                    if ok {
                        report.violation("true-statement-not-provable", not_in_empty_set_witness("id-statement"), json!({"example": atoms.iter().map(describe).collect::<Vec<_>>()}));
                        return Ok(());
                    }
                }
                return fail("true-statement-not-provable", json!({}));
            };
            if !verified {
                return fail("true-statement-proof-rejected", json!({}));
            }
            report.outcome("true: proved and verified", 1);
            // reveals exactly the committed values
            for (a, p) in atoms.iter().zip(vin.proof.proofs.iter()) {
                match (&a.st, p) {
                    (St::Reveal, AtomicProof::RevealAttribute { attribute, .. }) => {
                        if attribute != &fx.values[&AttributeTag(a.tag)] {
                            return fail("revealed-value-differs-from-committed", json!({"revealed": attribute.to_string()}));
                        }
                    }
                    (St::Reveal, _) => return fail("reveal-statement-without-reveal-proof", json!({})),
                    _ => {}
                }
            }
            // a proof made for one version is not a proof for the other
            let mut other = vin.clone();
            other.version = if version == ProofVersion::Version1 { ProofVersion::Version2 } else { ProofVersion::Version1 };
            if other.run() {
                return fail("altered-context-verifies", json!({"what": "proof verified under the other proof version"}));
            }
        }
        Truth::False => {
            if verified {
                return fail("false-statement-verifies", json!({}));
            }
            report.outcome(if vin.is_some() { "false: prover output rejected" } else { "false: not provable" }, 1);
        }
        Truth::Wide => {
            report.outcome(if verified { "true but wider than 2^64: verified" } else if vin.is_some() { "true but wider than 2^64: prover output rejected" } else { "true but wider than 2^64: not provable" }, 1);
        }
    }
    Ok(())
}

type Mutator = Box<dyn Fn(&mut VIn) + Send + Sync>;

fn other_tags(t: AttributeTag) -> Vec<AttributeTag> { (0u8..4).map(AttributeTag).filter(|x| *x != t).collect() }

fn set_tag(s: &mut IdStmt, t: AttributeTag) {
    match s {
        AtomicStatement::RevealAttribute { statement } => statement.attribute_tag = t,
        AtomicStatement::AttributeInRange { statement } => statement.attribute_tag = t,
        AtomicStatement::AttributeInSet { statement } => statement.attribute_tag = t,
        AtomicStatement::AttributeNotInSet { statement } => statement.attribute_tag = t,
    }
}

/// successor / predecessor of a string attribute by its last byte (same length)
fn bump(a: &AttributeKind, up: bool) -> Option<AttributeKind> {
    let mut b = a.to_string().into_bytes();
    let last = b.last_mut()?;
    if up {
        if *last >= 0x7e {
            return None;
        }
        *last += 1;
    } else {
        if *last == 0 {
            return None;
        }
        *last -= 1;
    }
    String::from_utf8(b).ok().map(|s| ak(&s))
}

/// The complete single-component perturbation list of an accepted statement list.
fn id_perturbations(fx: &IdFix, base: &VIn, atoms: &[Atom<AttributeKind>], other_proof: Option<&IdProof>) -> Vec<(String, Mutator)> {
    let mut m: Vec<(String, Mutator)> = vec![];
    macro_rules! m {
        ($name:expr, $f:expr) => {
            m.push(($name.to_string(), Box::new($f)));
        };
    }
    let has_non_range = atoms.iter().any(|a| !matches!(a.st, St::Range(..)));
    // --- context: challenge, credential, global parameters ---------------------------------
    // Version 1 range proofs use a transcript of their own (documented legacy behaviour, the
    // reason Version 2 exists); context binding is only expected of them under Version 2.
    if base.version == ProofVersion::Version2 || has_non_range {
        m!("challenge: first bit flipped", |v: &mut VIn| v.challenge[0] ^= 1);
        m!("challenge: last bit flipped", |v: &mut VIn| *v.challenge.last_mut().unwrap() ^= 0x80);
        m!("challenge: last byte removed", |v: &mut VIn| {
            v.challenge.pop();
        });
        m!("challenge: zero byte appended", |v: &mut VIn| v.challenge.push(0));
        m!("challenge: empty", |v: &mut VIn| v.challenge.clear());
        let oc = fx.other_cred;
        m!("credential id: another credential", move |v: &mut VIn| v.cred = oc);
        m!("global: genesis string", |v: &mut VIn| v.global.genesis_string.push('x'));
    }
    m!("global: commitment key h doubled", |v: &mut VIn| v.global.on_chain_commitment_key.h = v.global.on_chain_commitment_key.h.double_point());
    m!("global: commitment key g doubled", |v: &mut VIn| v.global.on_chain_commitment_key.g = v.global.on_chain_commitment_key.g.double_point());
    if atoms.iter().any(|a| !matches!(a.st, St::Reveal)) {
        let g2 = GlobalContext::<C>::generate_from_seed("another".into(), 256, b"mc-crypto c18 other generators");
        m!("global: other bulletproof generators", move |v: &mut VIn| v.global.bulletproof_generators = g2.bulletproof_generators.clone());
    }
    // --- commitments -------------------------------------------------------------------------
    let used: BTreeSet<u8> = atoms.iter().map(|a| a.tag).collect();
    for t in used {
        let tag = AttributeTag(t);
        let key = fx.global.on_chain_commitment_key;
        let val = Value::<C>::new(fx.values[&tag].to_field_element());
        let r2 = PedersenRandomness::<C>::generate(&mut rng(77, t as u64));
        let c_same_value = key.hide(&val, &r2);
        m!(format!("commitment {t}: same value, other randomness"), move |v: &mut VIn| {
            v.cmms.cmm_attributes.insert(tag, c_same_value);
        });
        let c_other_value = key.hide(&Value::<C>::new(add(fx.values[&tag].to_field_element(), C::scalar_from_u64(1))), &PedersenRandomness::<C>::new(fx.rand_s[&tag]));
        m!(format!("commitment {t}: value + 1, same randomness"), move |v: &mut VIn| {
            v.cmms.cmm_attributes.insert(tag, c_other_value);
        });
        m!(format!("commitment {t}: removed"), move |v: &mut VIn| {
            v.cmms.cmm_attributes.remove(&tag);
        });
        let o = other_tags(tag)[0];
        m!(format!("commitment {t}: swapped with tag {}", o.0), move |v: &mut VIn| {
            let a = v.cmms.cmm_attributes[&tag];
            let b = v.cmms.cmm_attributes[&o];
            v.cmms.cmm_attributes.insert(tag, b);
            v.cmms.cmm_attributes.insert(o, a);
        });
    }
    // --- statements ----------------------------------------------------------------------------
    for (i, a) in atoms.iter().enumerate() {
        for o in other_tags(AttributeTag(a.tag)) {
            m!(format!("statement {i}: tag -> {}", o.0), move |v: &mut VIn| set_tag(&mut v.stmts[i], o));
        }
        match &a.st {
            St::Reveal => {
                let (lo, hi) = (fx.values[&AttributeTag(a.tag)].clone(), ak("~"));
                m!(format!("statement {i}: reveal -> range"), move |v: &mut VIn| v.stmts[i] = mk_atomic(AttributeTag(0), &St::Range(lo.clone(), hi.clone())));
                for up in [false, true] {
                    if let Some(nv) = bump(&fx.values[&AttributeTag(a.tag)], up) {
                        m!(format!("proof {i}: revealed value {}", if up { "+1" } else { "-1" }), move |v: &mut VIn| {
                            if let AtomicProof::RevealAttribute { attribute, .. } = &mut v.proof.proofs[i] {
                                *attribute = nv.clone();
                            }
                        });
                    }
                }
                m!(format!("proof {i}: revealed value = empty string"), move |v: &mut VIn| {
                    if let AtomicProof::RevealAttribute { attribute, .. } = &mut v.proof.proofs[i] {
                        *attribute = ak(if attribute.to_string().is_empty() { "a" } else { "" });
                    }
                });
            }
            St::Range(lo, hi) => {
                for (which, up) in [(0, false), (0, true), (1, false), (1, true)] {
                    let cur = if which == 0 { lo } else { hi };
                    if let Some(nv) = bump(cur, up) {
                        m!(format!("statement {i}: {} {}", if which == 0 { "lower" } else { "upper" }, if up { "+1" } else { "-1" }), move |v: &mut VIn| {
                            if let AtomicStatement::AttributeInRange { statement } = &mut v.stmts[i] {
                                if which == 0 {
                                    statement.lower = nv.clone()
                                } else {
                                    statement.upper = nv.clone()
                                }
                            }
                        });
                    }
                }
                m!(format!("statement {i}: bounds swapped"), move |v: &mut VIn| {
                    if let AtomicStatement::AttributeInRange { statement } = &mut v.stmts[i] {
                        std::mem::swap(&mut statement.lower, &mut statement.upper);
                    }
                });
                m!(format!("statement {i}: range -> reveal"), move |v: &mut VIn| {
                    let t = v.stmts[i].attribute();
                    v.stmts[i] = AtomicStatement::RevealAttribute { statement: RevealAttributeStatement { attribute_tag: t } };
                });
            }
            St::InSet(s) | St::NotInSet(s) => {
                m!(format!("statement {i}: element added to the set"), move |v: &mut VIn| match &mut v.stmts[i] {
                    AtomicStatement::AttributeInSet { statement } => {
                        statement.set.insert(ak("not in any set"));
                    }
                    AtomicStatement::AttributeNotInSet { statement } => {
                        statement.set.insert(ak("not in any set"));
                    }
                    _ => {}
                });
                for (k, e) in s.iter().enumerate() {
                    let e = e.clone();
                    let e2 = e.clone();
                    m!(format!("statement {i}: element {k} removed from the set"), move |v: &mut VIn| match &mut v.stmts[i] {
                        AtomicStatement::AttributeInSet { statement } => {
                            statement.set.remove(&e);
                        }
                        AtomicStatement::AttributeNotInSet { statement } => {
                            statement.set.remove(&e);
                        }
                        _ => {}
                    });
                    m!(format!("statement {i}: element {k} replaced"), move |v: &mut VIn| match &mut v.stmts[i] {
                        AtomicStatement::AttributeInSet { statement } => {
                            statement.set.remove(&e2);
                            statement.set.insert(ak("replacement"));
                        }
                        AtomicStatement::AttributeNotInSet { statement } => {
                            statement.set.remove(&e2);
                            statement.set.insert(ak("replacement"));
                        }
                        _ => {}
                    });
                }
                m!(format!("statement {i}: membership <-> non-membership"), move |v: &mut VIn| {
                    let n = match &v.stmts[i] {
                        AtomicStatement::AttributeInSet { statement } => AtomicStatement::AttributeNotInSet { statement: AttributeNotInSetStatement { attribute_tag: statement.attribute_tag, set: statement.set.clone(), _phantom: Default::default() } },
                        AtomicStatement::AttributeNotInSet { statement } => AtomicStatement::AttributeInSet { statement: AttributeInSetStatement { attribute_tag: statement.attribute_tag, set: statement.set.clone(), _phantom: Default::default() } },
                        x => x.clone(),
                    };
                    v.stmts[i] = n;
                });
            }
        }
        m!(format!("statement {i}: dropped (proofs kept)"), move |v: &mut VIn| {
            v.stmts.remove(i);
        });
        m!(format!("proof {i}: dropped (statements kept)"), move |v: &mut VIn| {
            v.proof.proofs.remove(i);
        });
        for j in i + 1..atoms.len() {
            if atoms[i] != atoms[j] {
                m!(format!("proofs {i} and {j} swapped"), move |v: &mut VIn| v.proof.proofs.swap(i, j));
            }
        }
        if let Some(op) = other_proof {
            if base.version == ProofVersion::Version2 || !matches!(a.st, St::Range(..)) {
                let p = op.proofs[i].clone();
                m!(format!("proof {i}: taken from a run with another challenge"), move |v: &mut VIn| v.proof.proofs[i] = p.clone());
            }
        }
    }
    m!("proofs: last one duplicated", |v: &mut VIn| {
        let l = v.proof.proofs.last().unwrap().clone();
        v.proof.proofs.push(l);
    });
    m
}

/// A0: the stand-alone attribute API of `id_prover` / `id_verifier`: opening of an attribute
/// commitment and the range proof wrappers, on every (value, lower, upper) triple of the
/// neighbour alphabets, both proof versions.
fn layer_a0(report: &Report, cli: &Cli, global: &GlobalContext<C>) {
    use concordium_base::id::{id_prover::prove_attribute_in_range, id_verifier::{verify_attribute, verify_attribute_range}};
    use concordium_base::random_oracle::RandomOracle;
    let key = &global.on_chain_commitment_key;
    let gens = global.bulletproof_generators();
    let mut cases = vec![];
    for (v, nb) in string_alphabets() {
        for lo in &nb {
            for hi in &nb {
                for ver in [ProofVersion::Version1, ProofVersion::Version2] {
                    cases.push((v.clone(), lo.clone(), hi.clone(), ver));
                }
            }
        }
    }
    report.set_extra("layer_a0_range_triples", json!(cases.len()));
    cases.par_iter().enumerate().for_each(|(i, (v, lo, hi, ver))| {
        case(report, json!({"layer": "attribute-api", "version": vname(*ver), "value": format!("{v:?}"), "lower": format!("{lo:?}"), "upper": format!("{hi:?}")}), || {
            let mut r = rng(cli.seed, 18_900 + i as u64);
            let rnd = PedersenRandomness::<C>::generate(&mut r);
            let cmm = key.hide(&Value::<C>::new(v.to_field_element()), &rnd);
            // opening
            report.trace(2);
            if !verify_attribute(key, v, &rnd, &cmm) {
                return fail("valid-opening-rejected", json!({}));
            }
            if lo != v && verify_attribute(key, lo, &rnd, &cmm) {
                return fail("opening-verifies-for-other-attribute", json!({}));
            }
            let t = truth(&St::Range(lo.clone(), hi.clone()), v);
            let proof = prove_attribute_in_range(*ver, &mut RandomOracle::domain("attribute_range_proof"), &mut r, gens, key, v, lo, hi, &rnd);
            report.trace(1);
            match (&t, proof) {
                (Truth::True, None) => fail("true-statement-not-provable", json!({})),
                (_, None) => Ok(()),
                (t, Some(p)) => {
                    let ok = verify_attribute_range(*ver, &mut RandomOracle::domain("attribute_range_proof"), key, gens, lo, hi, &cmm, &p).is_ok();
                    match t {
                        Truth::True if !ok => fail("valid-proof-rejected", json!({})),
                        Truth::False if ok => fail("false-statement-verifies", json!({})),
                        Truth::Wide if ok => {
                            report.outcome("true-but-wide range proved", 1);
                            Ok(())
                        }
                        _ => {
                            if ok {
                                // bound to the version and to the bounds
                                let other = if *ver == ProofVersion::Version1 { ProofVersion::Version2 } else { ProofVersion::Version1 };
                                report.trace(2);
                                if verify_attribute_range(other, &mut RandomOracle::domain("attribute_range_proof"), key, gens, lo, hi, &cmm, &p).is_ok() {
                                    return fail("altered-statement-or-context-verifies", json!({"what": "other proof version"}));
                                }
                                if verify_attribute_range(*ver, &mut RandomOracle::domain("attribute_range_proof"), key, gens, hi, lo, &cmm, &p).is_ok() && lo != hi {
                                    return fail("altered-statement-or-context-verifies", json!({"what": "bounds swapped"}));
                                }
                            }
                            Ok(())
                        }
                    }
                }
            }
        });
    });
}

fn layer_a(report: &Report, cli: &Cli, global: &GlobalContext<C>) {
    layer_a0(report, cli, global);
    let fx = id_fix(cli, global);
    let alph = string_alphabets();
    let quick = cli.tier == Tier::Quick;
    let versions = [ProofVersion::Version1, ProofVersion::Version2];
    // A1: every atomic statement of the full alphabet
    let mut singles: Vec<(ProofVersion, Atom<AttributeKind>)> = vec![];
    for (t, (v, nb)) in alph.iter().enumerate() {
        for a in atoms_around(t as u8, v, nb, true) {
            for ver in versions {
                singles.push((ver, a.clone()));
            }
        }
    }
    report.set_extra("layer_a_single_statements", json!(singles.len()));
    singles.par_iter().for_each(|(ver, a)| {
        case(report, json!({"layer": "id-statement", "version": vname(*ver), "statements": [describe(a)]}), || id_truth_case(report, &fx, *ver, std::slice::from_ref(a)));
    });
    // A2: all ordered pairs of the reduced alphabet (quick: Version 2 only)
    let reduced: Vec<Atom<AttributeKind>> = alph.iter().enumerate().flat_map(|(t, (v, nb))| reduced_atoms(t as u8, v, nb)).collect();
    let mut pairs = vec![];
    for a in &reduced {
        for b in &reduced {
            for ver in versions {
                if quick && ver == ProofVersion::Version1 {
                    continue;
                }
                pairs.push((ver, a.clone(), b.clone()));
            }
        }
    }
    report.set_extra("layer_a_statement_pairs", json!(pairs.len()));
    pairs.par_iter().for_each(|(ver, a, b)| {
        case(report, json!({"layer": "id-statement", "version": vname(*ver), "statements": [describe(a), describe(b)]}), || id_truth_case(report, &fx, *ver, &[a.clone(), b.clone()]));
    });
    // A3: perturbations of accepted statement lists
    let pick = |t: usize, f: &dyn Fn(&St<AttributeKind>) -> bool| -> Atom<AttributeKind> { atoms_around(t as u8, &alph[t].0, &alph[t].1, true).into_iter().find(|a| f(&a.st) && truth(&a.st, &alph[t].0) == Truth::True).unwrap() };
    let reveal = Atom { tag: 0, st: St::Reveal };
    let range2 = pick(2, &|s| matches!(s, St::Range(..)));
    let inset1 = pick(1, &|s| matches!(s, St::InSet(x) if x.len() == 3));
    let notin3 = pick(3, &|s| matches!(s, St::NotInSet(x) if x.len() == 2));
    let range1 = pick(1, &|s| matches!(s, St::Range(..)));
    let mut bases: Vec<Vec<Atom<AttributeKind>>> = vec![vec![reveal.clone(), range2.clone(), inset1.clone(), notin3.clone()], vec![range2.clone(), range1.clone()], vec![reveal.clone()], vec![range2.clone()], vec![inset1.clone()], vec![notin3.clone()]];
    bases.push(vec![Atom { tag: 3, st: St::Reveal }, Atom { tag: 2, st: St::Reveal }]);
    for (bi, atoms) in bases.iter().enumerate() {
        for ver in versions {
            let challenge = b"mc-crypto c18 challenge".to_vec();
            let (stmts, p) = id_prove(&fx, ver, &challenge, atoms);
            let (_, p_other) = id_prove(&fx, ver, b"another challenge", atoms);
            let base_w = json!({"layer": "id-statement-perturbation", "version": vname(ver), "statements": atoms.iter().map(describe).collect::<Vec<_>>()});
            let Some(proof) = p else {
                report.violation("true-statement-not-provable", base_w, json!({}));
                continue;
            };
            let base = VIn { version: ver, challenge, global: fx.global.clone(), cred: fx.cred, cmms: fx.cmms.clone(), stmts, proof };
            if !base.run() {
                report.violation("true-statement-proof-rejected", base_w, json!({}));
                continue;
            }
            let muts = id_perturbations(&fx, &base, atoms, p_other.as_ref());
            muts.par_iter().for_each(|(name, f)| {
                let mut w = base_w.clone();
                w["perturbation"] = json!(name);
                case(report, w, || {
                    let mut v = base.clone();
                    f(&mut v);
                    report.trace(1);
                    if v.run() {
                        return fail("altered-statement-or-context-verifies", json!({"what": name}));
                    }
                    report.outcome("perturbation rejected", 1);
                    Ok(())
                });
            });
            // bit flips of the serialised proof (quick: only the first base list, strided)
            if bi == 0 || !quick {
                let pb = to_bytes(&base.proof);
                let stride = if quick { 13 } else { 1 };
                // counted parts (atomic proofs, rounds of the inner product arguments) added / removed
                count_field_edits(&pb).into_par_iter().enumerate().filter(|(i, _)| !quick || i % 3 == 0).for_each(|(_, (what, eb))| {
                    let mut w = base_w.clone();
                    w["proof_structural_edit"] = json!(what);
                    case(report, w, || {
                        if let Ok(p) = from_bytes::<IdProof, _>(&mut &eb[..]) {
                            if to_bytes(&p) == pb {
                                return Ok(());
                            }
                            let mut v = base.clone();
                            v.proof = p;
                            report.trace(1);
                            if v.run() {
                                return fail("altered-proof-verifies", json!({"edit": what}));
                            }
                            report.outcome("structural edit rejected", 1);
                        } else {
                            report.outcome("structural edit unparsable", 1);
                        }
                        Ok(())
                    });
                });
                (0..pb.len() * 8).into_par_iter().filter(|b| b % stride == 0).for_each(|bit| {
                    let mut w = base_w.clone();
                    w["proof_bit_flip"] = json!(bit);
                    case(report, w, || {
                        if let Ok(p) = from_bytes::<IdProof, _>(&mut &flip(&pb, bit)[..]) {
                            let mut v = base.clone();
                            v.proof = p;
                            report.trace(1);
                            if v.run() {
                                return fail("altered-proof-verifies", json!({"bit": bit}));
                            }
                            report.outcome("bit flip rejected", 1);
                        } else {
                            report.outcome("bit flip unparsable", 1);
                        }
                        Ok(())
                    });
                });
            }
        }
    }
}

pub fn run(cli: &Cli) -> ! {
    let report = Report::new(cli);
    let global = GlobalContext::<C>::generate_size("mc-crypto-c18".into(), 256);
    let only = cli.extra.get("layer").cloned();
    let want = |l: &str| only.as_deref().map(|o| o == l).unwrap_or(true);
    if want("a") {
        layer_a(&report, cli, &global);
    }
    if want("b") {
        crate::c18web3::layer_b(&report, cli, &global);
    }
    if want("c") {
        crate::c18v1::layer_c(&report, cli, &global);
    }
    let n = report.evaluations.load(std::sync::atomic::Ordering::Relaxed);
    report.state(n);
    report.transition(report.traces.load(std::sync::atomic::Ordering::Relaxed));
    report.nontrivial(n);
    report.sample(json!({"layer": "id-statement", "version": "v2", "statements": [{"tag": 2, "statement": "Range(\"20200101\", \"20200102\")"}], "expected": "provable and verifies (lower = value, value = upper - 1)"}));
    report.sample(json!({"layer": "id-statement", "version": "v2", "statements": [{"tag": 2, "statement": "Range(\"20200100\", \"20200101\")"}], "expected": "whatever the prover outputs must not verify (value = upper)"}));
    report.sample(json!({"layer": "id-statement-perturbation", "perturbation": "statement 1: lower -1", "expected": "rejected although the altered statement is still true"}));
    report.set_technique("exhaustive enumeration of statement alphabets around each attribute value (all ordered (lower, upper) pairs of a neighbour alphabet; empty, singleton and larger sets; all ordered pairs of a reduced alphabet) x proof versions x credential kinds, judged by the integer order of the attribute embedding; complete single-component perturbation list (context, commitments, statements, proofs, metadata, linking signatures, verification material, request anchors) and bit-flip neighbourhood of accepted proofs");
    report.set_rule("one case = one statement list proved and verified (verdict must equal the truth of the conjunction), or one perturbation of an accepted proof / presentation (must be rejected)");
    report.assume("StatementWithContext::prove draws blinding randomness from thread_rng; verdicts do not depend on it. Presentations use seeded generators and a fixed clock.");
    report.assume("true range statements wider than 2^64 are outside the library's range technique (prove_in_range uses n = 64); only soundness is required of them");
    report.assume("soundness against a computing adversary is not decidable by enumeration; the honest prover is run on false statements");
    report.finish(true, json!({"attributes": 4, "statement_list_length": 2, "tier": format!("{:?}", cli.tier)}));
}
