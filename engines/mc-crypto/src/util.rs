//! Shared helpers for the crypto engines: seeded RNGs, scalar construction, case runner.

use concordium_base::curve_arithmetic::{Curve, Field, PrimeField};
use mc_core::Report;
use rand::SeedableRng;
use rand_chacha::ChaCha20Rng;
use serde_json::{json, Value as J};

pub fn rng(seed: u64, case: u64) -> ChaCha20Rng {
    ChaCha20Rng::seed_from_u64(seed.wrapping_mul(0x9E37_79B9_7F4A_7C15).wrapping_add(case).wrapping_add(0x5EED))
}

/// -1 in the scalar field (= r - 1).
pub fn minus_one<F: Field>() -> F {
    let mut x = F::one();
    x.negate();
    x
}

pub fn from_u64<C: Curve>(n: u64) -> C::Scalar { C::scalar_from_u64(n) }

/// 2^k as a scalar (k < number of bits of the field).
pub fn pow2<C: Curve>(k: u32) -> C::Scalar {
    let mut x = C::Scalar::one();
    for _ in 0..k {
        x.double();
    }
    x
}

pub fn add<F: Field>(a: F, b: F) -> F {
    let mut x = a;
    x.add_assign(&b);
    x
}

pub fn sub<F: Field>(a: F, b: F) -> F {
    let mut x = a;
    x.sub_assign(&b);
    x
}

pub fn limbs_hex<F: PrimeField>(x: &F) -> String { x.into_repr().iter().rev().map(|l| format!("{l:016x}")).collect::<Vec<_>>().join("") }

/// Run one case, catching panics; a panic is reported as a violation of kind `panic`.
pub fn case(report: &Report, witness: J, f: impl FnOnce() -> Result<(), (String, J)>) {
    report.eval(1);
    match mc_core::catch(f) {
        Ok(Ok(())) => {}
        Ok(Err((kind, detail))) => report.violation(&kind, witness, detail),
        Err(p) => report.violation("panic", witness, json!({"panic": p})),
    }
}

pub fn fail<T>(kind: &str, detail: J) -> Result<T, (String, J)> { Err((kind.to_string(), detail)) }

/// All subsets of `0..n` as index vectors.
pub fn subsets(n: usize) -> Vec<Vec<usize>> {
    (0u32..(1 << n)).map(|m| (0..n).filter(|i| m >> i & 1 == 1).collect()).collect()
}

/// Flip bit `bit` of a byte string.
pub fn flip(bytes: &[u8], bit: usize) -> Vec<u8> {
    let mut b = bytes.to_vec();
    b[bit / 8] ^= 1 << (bit % 8);
    b
}

/// Structural edits of a serialised object whose layout is not known here: every position
/// that could be a big-endian `u32` (or `u64`, or single byte) element count in front of
/// elements of 32 / 48 / 64 / 96 bytes gets the count raised by one with a copy of the last
/// (or first) element inserted, and lowered by one with the last element removed. Where the
/// guess is wrong the result does not decode or decodes to something else that must not verify
/// either; where it is right this is a well-formed object with one more / one fewer element.
pub fn count_field_edits(bytes: &[u8]) -> Vec<(String, Vec<u8>)> { count_field_edits_sizes(bytes, &[32, 33, 48, 64, 96]) }

/// The same for a given list of element sizes; also inserts a copy of the first element at the front
/// (an equal key before the genuine entry).
pub fn count_field_edits_sizes(bytes: &[u8], sizes: &[usize]) -> Vec<(String, Vec<u8>)> {
    let mut out = vec![];
    for width in [1usize, 4, 8] {
        for p in 0..bytes.len().saturating_sub(width) {
            let v = bytes[p..p + width].iter().fold(0u64, |a, b| (a << 8) | *b as u64);
            if v == 0 || v > 40 {
                continue;
            }
            for &es in sizes {
                let end = p + width + v as usize * es;
                if end > bytes.len() {
                    continue;
                }
                let put = |n: u64| -> Vec<u8> { (0..width).map(|i| (n >> (8 * (width - 1 - i))) as u8).collect() };
                // one more: copy of the last element appended
                let mut b = bytes[..p].to_vec();
                b.extend(put(v + 1));
                b.extend_from_slice(&bytes[p + width..end]);
                b.extend_from_slice(&bytes[end - es..end]);
                b.extend_from_slice(&bytes[end..]);
                out.push((format!("count at {p} (width {width}) + 1, element of {es} bytes appended"), b));
                // one more: copy of the first element in front
                let mut b = bytes[..p].to_vec();
                b.extend(put(v + 1));
                b.extend_from_slice(&bytes[p + width..p + width + es]);
                b.extend_from_slice(&bytes[p + width..]);
                out.push((format!("count at {p} (width {width}) + 1, first element of {es} bytes repeated in front"), b));
                // one fewer
                let mut b = bytes[..p].to_vec();
                b.extend(put(v - 1));
                b.extend_from_slice(&bytes[p + width..end - es]);
                b.extend_from_slice(&bytes[end..]);
                out.push((format!("count at {p} (width {width}) - 1, last element of {es} bytes removed"), b));
            }
        }
    }
    out
}
