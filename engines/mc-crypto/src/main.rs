fn main(){}
