//! mc-crypto: bounded exhaustive enumeration of configurations, boundary inputs and
//! single-component perturbations for the cryptographic layers of concordium_base
//! (C06-C08, C11, C12, C18-C20), every case executed on the real code and judged by a
//! truth predicate / reference computation.

mod c06;
mod c07;
mod c08;
mod c11;
mod c12;
mod c18;
mod c18v1;
mod c18web3;
mod c19;
mod c20;
mod util;

fn main() {
    let cli = mc_core::parse_cli();
    mc_core::quiet_panics();
    match cli.property.as_str() {
        "C06" => c06::run(&cli),
        "C07" => c07::run(&cli),
        "C08" => c08::run(&cli),
        "C11" => c11::run(&cli),
        "C12" => c12::run(&cli),
        "C18" => c18::run(&cli),
        "C19" => c19::run(&cli),
        "C20" => c20::run(&cli),
        other => mc_core::machinery_error(&format!("mc-crypto does not serve property {other}")),
    }
}
