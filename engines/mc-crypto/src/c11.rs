//! C11: range proofs and set (non-)membership proofs accept exactly true statements.

use crate::util::*;
use concordium_base::{
    bulletproofs::{
        range_proof::{self, prove, prove_in_range, prove_less_than_or_equal, verify_efficient, verify_in_range, verify_less_than_or_equal, RangeProof},
        set_membership_proof, set_non_membership_proof,
        utils::Generators,
    },
    common::{from_bytes, to_bytes},
    curve_arithmetic::{Curve, Field},
    id::{constants::ArCurve, id_proof_types::ProofVersion},
    pedersen_commitment::{Commitment, CommitmentKey, Randomness, Value},
    random_oracle::{RandomOracle, TranscriptProtocolV1},
};
use mc_core::{Cli, Report, Tier};
use rayon::prelude::*;
use serde_json::json;

type C = ArCurve;
type F = <C as Curve>::Scalar;

fn gens(n: usize, seed: u64) -> Generators<C> {
    let mut r = rng(seed, 1100);
    Generators { G_H: (0..n).map(|_| (C::generate(&mut r), C::generate(&mut r))).collect() }
}

fn commit(keys: &CommitmentKey<C>, v: u64, r: &Randomness<C>) -> Commitment<C> { keys.hide(&Value::<C>::new(C::scalar_from_u64(v)), r) }

#[derive(Clone, Copy, Debug, PartialEq, Eq)]
enum Tr {
    Legacy,
    V1,
}

fn verify_with(tr: Tr, domain: &str, version: ProofVersion, n: u8, comms: &[Commitment<C>], proof: &RangeProof<C>, g: &Generators<C>, keys: &CommitmentKey<C>) -> bool {
    match tr {
        Tr::Legacy => verify_efficient(version, &mut RandomOracle::domain(domain), n, comms, proof, g, keys).is_ok(),
        Tr::V1 => verify_efficient(version, &mut TranscriptProtocolV1::with_domain(domain), n, comms, proof, g, keys).is_ok(),
    }
}

fn prove_with(tr: Tr, domain: &str, version: ProofVersion, seed: u64, n: u8, m: u8, vs: &[u64], g: &Generators<C>, keys: &CommitmentKey<C>, rs: &[Randomness<C>]) -> Option<RangeProof<C>> {
    let mut r = rng(seed, 1101);
    match tr {
        Tr::Legacy => prove(version, &mut RandomOracle::domain(domain), &mut r, n, m, vs, g, keys, rs),
        Tr::V1 => prove(version, &mut TranscriptProtocolV1::with_domain(domain), &mut r, n, m, vs, g, keys, rs),
    }
}

fn range_grid(report: &Report, cli: &Cli) {
    let q = cli.tier == Tier::Quick;
    let g_all = gens(257, cli.seed);
    let keys = CommitmentKey::<C>::generate(&mut rng(cli.seed, 1102));
    let ns: Vec<u8> = if q { vec![1, 2, 3, 4, 8, 32, 64] } else { vec![1, 2, 3, 4, 5, 7, 8, 16, 31, 32, 33, 63, 64] };
    let ms: Vec<u8> = if q { vec![1, 2] } else { vec![1, 2, 3, 4] };
    let mut cfgs = vec![];
    for &n in &ns {
        for &m in &ms {
            if (n as usize) * (m as usize) <= 256 {
                cfgs.push((n, m));
            }
        }
    }
    cfgs.par_iter().for_each(|&(n, m)| {
        let nm = n as usize * m as usize;
        let max = if n == 64 { u64::MAX } else { (1u64 << n) - 1 };
        let mut inside: Vec<u64> = vec![0, 1.min(max), max / 2 + 1, max.saturating_sub(1), max];
        inside.dedup();
        let outside: Vec<u64> = if n < 64 { vec![max + 1, max + 2, u64::MAX] } else { vec![] };
        // position of the probed value within the batch: first and last
        let mut cases: Vec<(Vec<u64>, bool)> = vec![];
        for &v in &inside {
            let mut vs = vec![1.min(max); m as usize];
            vs[0] = v;
            cases.push((vs.clone(), true));
            if m > 1 {
                let mut vs = vec![0u64; m as usize];
                vs[m as usize - 1] = v;
                cases.push((vs, true));
            }
        }
        for &v in &outside {
            let mut vs = vec![0u64; m as usize];
            vs[m as usize - 1] = v;
            cases.push((vs, false));
            if m > 1 {
                let mut vs = vec![max; m as usize];
                vs[0] = v;
                cases.push((vs, false));
            }
        }
        for (ci, (vs, truth)) in cases.iter().enumerate() {
            let wit = json!({"range": {"n": n, "m": m, "values": vs.iter().map(|v| v.to_string()).collect::<Vec<_>>()}});
            case(report, wit, || {
                let mut rr = rng(cli.seed, 1200 + ci as u64);
                let rs: Vec<Randomness<C>> = vs.iter().map(|_| Randomness::<C>::generate(&mut rr)).collect();
                let comms: Vec<Commitment<C>> = vs.iter().zip(&rs).map(|(v, r)| commit(&keys, *v, r)).collect();
                let g = g_all.take(nm);
                for (tr, version) in [(Tr::Legacy, ProofVersion::Version1), (Tr::V1, ProofVersion::Version2)] {
                    let proof = prove_with(tr, "range", version, cli.seed, n, m, vs, &g, &keys, &rs);
                    report.trace(1);
                    match proof {
                        None => {
                            // an unsupported size (n*m not a power of two) may be refused, a true
                            // statement of a supported size may not
                            if *truth && nm.is_power_of_two() {
                                return fail("true-range-statement-not-provable", json!({"transcript": format!("{tr:?}")}));
                            }
                        }
                        Some(p) => {
                            let ok = verify_with(tr, "range", version, n, &comms, &p, &g, &keys);
                            if ok != *truth {
                                return fail(if *truth { "valid-range-proof-rejected" } else { "false-range-statement-verifies" }, json!({"transcript": format!("{tr:?}")}));
                            }
                            // serialisation round trip
                            let b = to_bytes(&p);
                            let back: RangeProof<C> = from_bytes(&mut &b[..]).map_err(|e| ("proof-does-not-decode".to_string(), json!(format!("{e:#}"))))?;
                            if back != p {
                                return fail("proof-round-trip", json!({}));
                            }
                        }
                    }
                }
                Ok(())
            });
        }
        // generator vector one too short
        case(report, json!({"range": {"n": n, "m": m, "what": "generators nm-1"}}), || {
            if nm < 2 || !nm.is_power_of_two() {
                return Ok(());
            }
            let vs = vec![0u64; m as usize];
            let rs: Vec<Randomness<C>> = vs.iter().map(|_| Randomness::<C>::zero()).collect();
            let short = g_all.take(nm - 1);
            if prove_with(Tr::Legacy, "range", ProofVersion::Version1, cli.seed, n, m, &vs, &short, &keys, &rs).is_some() {
                return fail("proof-with-too-few-generators", json!({}));
            }
            let full = g_all.take(nm);
            let p = prove_with(Tr::Legacy, "range", ProofVersion::Version1, cli.seed, n, m, &vs, &full, &keys, &rs).ok_or(("true-range-statement-not-provable".to_string(), json!({})))?;
            let comms: Vec<Commitment<C>> = vs.iter().zip(&rs).map(|(v, r)| commit(&keys, *v, r)).collect();
            if verify_with(Tr::Legacy, "range", ProofVersion::Version1, n, &comms, &p, &short, &keys) {
                return fail("verifies-with-too-few-generators", json!({}));
            }
            // one generator more than needed must not matter
            let longer = g_all.take(nm + 1);
            if !verify_with(Tr::Legacy, "range", ProofVersion::Version1, n, &comms, &p, &longer, &keys) {
                return fail("valid-range-proof-rejected", json!({"what": "extra generator"}));
            }
            Ok(())
        });
    });
    report.add_extra_count("range_configurations", cfgs.len() as u64);
}

/// Perturbations of an accepted proof: context and every serialised component.
fn range_perturbations(report: &Report, cli: &Cli) {
    let keys = CommitmentKey::<C>::generate(&mut rng(cli.seed, 1102));
    let g_all = gens(64, cli.seed);
    for (n, m, vs) in [(2u8, 1u8, vec![3u64]), (8, 2, vec![255, 17])] {
        let nm = n as usize * m as usize;
        let g = g_all.take(nm);
        let mut rr = rng(cli.seed, 1300);
        let rs: Vec<Randomness<C>> = vs.iter().map(|_| Randomness::<C>::generate(&mut rr)).collect();
        let comms: Vec<Commitment<C>> = vs.iter().zip(&rs).map(|(v, r)| commit(&keys, *v, r)).collect();
        for (tr, version) in [(Tr::Legacy, ProofVersion::Version1), (Tr::V1, ProofVersion::Version2)] {
            let p = match prove_with(tr, "range", version, cli.seed, n, m, &vs, &g, &keys, &rs) {
                Some(p) => p,
                None => {
                    report.violation("true-range-statement-not-provable", json!({"n": n, "m": m}), json!({}));
                    continue;
                }
            };
            let base = json!({"range_perturbation": {"n": n, "m": m, "transcript": format!("{tr:?}")}});
            let expect_reject = |what: &str, ok: bool| -> Result<(), (String, serde_json::Value)> {
                report.trace(1);
                if ok {
                    fail("altered-range-proof-verifies", json!({"what": what}))
                } else {
                    Ok(())
                }
            };
            case(report, base.clone(), || {
                if !verify_with(tr, "range", version, n, &comms, &p, &g, &keys) {
                    return fail("valid-range-proof-rejected", json!({}));
                }
                // commitments
                for i in 0..comms.len() {
                    let mut c2 = comms.clone();
                    c2[i] = commit(&keys, vs[i].wrapping_add(1), &rs[i]);
                    expect_reject("commitment to v+1", verify_with(tr, "range", version, n, &c2, &p, &g, &keys))?;
                    c2[i] = commit(&keys, vs[i].wrapping_sub(1), &rs[i]);
                    expect_reject("commitment to v-1", verify_with(tr, "range", version, n, &c2, &p, &g, &keys))?;
                    c2[i] = commit(&keys, vs[i], &Randomness::<C>::generate(&mut rng(cli.seed, 1301)));
                    expect_reject("commitment with other randomness", verify_with(tr, "range", version, n, &c2, &p, &g, &keys))?;
                }
                if comms.len() > 1 {
                    let mut c2 = comms.clone();
                    c2.swap(0, 1);
                    expect_reject("commitments swapped", verify_with(tr, "range", version, n, &c2, &p, &g, &keys))?;
                    expect_reject("commitment dropped", verify_with(tr, "range", version, n, &comms[..1], &p, &g, &keys))?;
                }
                // generators
                let mut g2 = g.clone();
                g2.G_H.swap(0, 1);
                expect_reject("generators permuted", verify_with(tr, "range", version, n, &comms, &p, &g2, &keys))?;
                let mut g3 = g.clone();
                g3.G_H[0] = (g3.G_H[0].1, g3.G_H[0].0);
                expect_reject("G/H swapped", verify_with(tr, "range", version, n, &comms, &p, &g3, &keys))?;
                let k2 = CommitmentKey::<C> { g: keys.h, h: keys.g };
                expect_reject("commitment key swapped", verify_with(tr, "range", version, n, &comms, &p, &g, &k2))?;
                // bit width
                let gbig = g_all.take(nm * 2);
                expect_reject("n doubled", verify_with(tr, "range", version, n * 2, &comms, &p, &gbig, &keys))?;
                if n > 1 {
                    expect_reject("n halved", verify_with(tr, "range", version, n / 2, &comms, &p, &g, &keys))?;
                }
                // transcript
                expect_reject("other domain", verify_with(tr, "range2", version, n, &comms, &p, &g, &keys))?;
                let other_version = if version == ProofVersion::Version1 { ProofVersion::Version2 } else { ProofVersion::Version1 };
                expect_reject("other proof version", verify_with(tr, "range", other_version, n, &comms, &p, &g, &keys))?;
                let other_tr = if tr == Tr::Legacy { Tr::V1 } else { Tr::Legacy };
                expect_reject("other transcript protocol", verify_with(other_tr, "range", version, n, &comms, &p, &g, &keys))?;
                Ok(())
            });
            // every single-bit flip of the serialised proof (small proof: all bits; larger: all
            // bits in quick tier of the first 7 components, every bit in thorough)
            let bytes = to_bytes(&p);
            let nbits = if nm <= 2 || cli.tier == Tier::Thorough { bytes.len() * 8 } else { (4 * 48 + 3 * 32) * 8 };
            let stride = if nm <= 2 || cli.tier == Tier::Thorough { 1 } else { 5 };
            // rounds of the inner product argument (and anything else counted) added / removed
            count_field_edits(&bytes).into_par_iter().for_each(|(what, eb)| {
                let mut w = base.clone();
                w["structural_edit"] = json!(what);
                case(report, w, || {
                    if let Ok(p2) = from_bytes::<RangeProof<C>, _>(&mut &eb[..]) {
                        report.trace(1);
                        if p2 != p && verify_with(tr, "range", version, n, &comms, &p2, &g, &keys) {
                            return fail("altered-range-proof-verifies", json!({"what": what}));
                        }
                    }
                    Ok(())
                });
            });
            (0..nbits).into_par_iter().filter(|b| b % stride == 0).for_each(|bit| {
                let mut w = base.clone();
                w["flip_bit"] = json!(bit);
                case(report, w, || {
                    if let Ok(p2) = from_bytes::<RangeProof<C>, _>(&mut &flip(&bytes, bit)[..]) {
                        report.trace(1);
                        if p2 != p && verify_with(tr, "range", version, n, &comms, &p2, &g, &keys) {
                            return fail("altered-range-proof-verifies", json!({"what": "bit flip"}));
                        }
                    }
                    Ok(())
                });
            });
        }
    }
}

fn derived_statements(report: &Report, cli: &Cli) {
    let keys = CommitmentKey::<C>::generate(&mut rng(cli.seed, 1102));
    let g = gens(128, cli.seed);
    // a <= b on all ordered pairs of the alphabet (n = 64)
    let alpha: Vec<u64> = if cli.tier == Tier::Quick { vec![0, 1, 10, u64::MAX - 1, u64::MAX] } else { vec![0, 1, 9, 10, 11, 1 << 32, u64::MAX - 1, u64::MAX] };
    let pairs: Vec<(u64, u64)> = alpha.iter().flat_map(|a| alpha.iter().map(move |b| (*a, *b))).collect();
    pairs.par_iter().for_each(|&(a, b)| {
        case(report, json!({"less_or_equal": {"a": a.to_string(), "b": b.to_string()}}), || {
            let ra = Randomness::<C>::generate(&mut rng(cli.seed, 1400));
            let rb = Randomness::<C>::generate(&mut rng(cli.seed, 1401));
            let ca = commit(&keys, a, &ra);
            let cb = commit(&keys, b, &rb);
            let p = prove_less_than_or_equal(&mut RandomOracle::domain("le"), &mut rng(cli.seed, 1402), 64, a, b, &g, &keys, &ra, &rb);
            report.trace(1);
            match p {
                None => {
                    if a <= b {
                        return fail("true-statement-not-provable", json!({}));
                    }
                }
                Some(p) => {
                    let ok = verify_less_than_or_equal(&mut RandomOracle::domain("le"), 64, &ca, &cb, &p, &g, &keys);
                    if ok != (a <= b) {
                        return fail(if a <= b { "valid-proof-rejected" } else { "false-statement-verifies" }, json!({}));
                    }
                    // the proof is bound to both commitments
                    if a <= b && verify_less_than_or_equal(&mut RandomOracle::domain("le"), 64, &cb, &ca, &p, &g, &keys) && a != b {
                        return fail("false-statement-verifies", json!({"what": "commitments swapped"}));
                    }
                }
            }
            Ok(())
        });
    });
    // v in [a, b) on all triples
    let alpha3: Vec<u64> = if cli.tier == Tier::Quick { vec![0, 1, 10, u64::MAX] } else { vec![0, 1, 9, 10, 11, u64::MAX - 1, u64::MAX] };
    let mut triples = vec![];
    for &v in &alpha3 {
        for &a in &alpha3 {
            for &b in &alpha3 {
                triples.push((v, a, b));
            }
        }
    }
    triples.par_iter().for_each(|&(v, a, b)| {
        case(report, json!({"in_range": {"v": v.to_string(), "a": a.to_string(), "b": b.to_string()}}), || {
            let r = Randomness::<C>::generate(&mut rng(cli.seed, 1500));
            let c = commit(&keys, v, &r);
            let truth = a <= v && v < b;
            for version in [ProofVersion::Version1, ProofVersion::Version2] {
                let p = prove_in_range(version, &mut RandomOracle::domain("ir"), &mut rng(cli.seed, 1501), &g, &keys, C::scalar_from_u64(v), C::scalar_from_u64(a), C::scalar_from_u64(b), &r);
                report.trace(1);
                match p {
                    None => {
                        if truth {
                            return fail("true-statement-not-provable", json!({}));
                        }
                    }
                    Some(p) => {
                        let ok = verify_in_range(version, &mut RandomOracle::domain("ir"), &keys, &g, C::scalar_from_u64(a), C::scalar_from_u64(b), &c, &p).is_ok();
                        if ok != truth {
                            return fail(if truth { "valid-proof-rejected" } else { "false-statement-verifies" }, json!({}));
                        }
                        if truth {
                            // shifted bounds that make the statement false must not verify
                            for (a2, b2, what) in [(v.wrapping_add(1), b, "a = v+1"), (a, v, "b = v")] {
                                if verify_in_range(version, &mut RandomOracle::domain("ir"), &keys, &g, C::scalar_from_u64(a2), C::scalar_from_u64(b2), &c, &p).is_ok() {
                                    return fail("false-statement-verifies", json!({"what": what}));
                                }
                            }
                        }
                    }
                }
            }
            Ok(())
        });
    });
    let _ = range_proof::VerificationError::First;
}

fn set_proofs(report: &Report, cli: &Cli) {
    let keys = CommitmentKey::<C>::generate(&mut rng(cli.seed, 1102));
    let g = gens(16, cli.seed);
    let sizes: Vec<usize> = if cli.tier == Tier::Quick { vec![1, 2, 3, 4, 5] } else { vec![1, 2, 3, 4, 5, 8, 9, 16] };
    sizes.par_iter().for_each(|&size| {
        // the set {10, 20, 30, ...}
        let set: Vec<F> = (1..=size as u64).map(|i| C::scalar_from_u64(10 * i)).collect();
        let mut probes: Vec<(u64, bool)> = vec![];
        for i in 1..=size as u64 {
            probes.push((10 * i, true));
            probes.push((10 * i + 1, false));
            probes.push((10 * i - 1, false));
        }
        probes.push((0, false));
        probes.push((u64::MAX, false));
        for (v, member) in probes {
            let wit = json!({"set": {"size": size, "v": v.to_string()}});
            case(report, wit, || {
                let r = Randomness::<C>::generate(&mut rng(cli.seed, 1600));
                let vs = C::scalar_from_u64(v);
                let c = keys.hide(&Value::<C>::new(vs), &r);
                for version in [ProofVersion::Version1, ProofVersion::Version2] {
                    // membership
                    let p = set_membership_proof::prove(version, &mut RandomOracle::domain("set"), &mut rng(cli.seed, 1601), &set, vs, &g, &keys, &r);
                    report.trace(1);
                    match p {
                        Err(_) => {
                            if member {
                                return fail("true-statement-not-provable", json!({"kind": "membership"}));
                            }
                        }
                        Ok(p) => {
                            let ok = set_membership_proof::verify(version, &mut RandomOracle::domain("set"), &set, &c, &p, &g, &keys).is_ok();
                            if ok != member {
                                return fail(if member { "valid-proof-rejected" } else { "false-statement-verifies" }, json!({"kind": "membership"}));
                            }
                            if member {
                                // the proof is bound to the set, the commitment and the transcript
                                let mut s2 = set.clone();
                                let idx = s2.iter().position(|x| *x == vs).unwrap();
                                s2[idx] = C::scalar_from_u64(v + 5);
                                if set_membership_proof::verify(version, &mut RandomOracle::domain("set"), &s2, &c, &p, &g, &keys).is_ok() {
                                    return fail("false-statement-verifies", json!({"what": "element replaced in the set"}));
                                }
                                if size > 1 {
                                    let mut s3 = set.clone();
                                    s3.swap(0, size - 1);
                                    if set_membership_proof::verify(version, &mut RandomOracle::domain("set"), &s3, &c, &p, &g, &keys).is_ok() && s3 != set {
                                        return fail("altered-proof-context-verifies", json!({"what": "set reordered"}));
                                    }
                                }
                                let c2 = keys.hide(&Value::<C>::new(C::scalar_from_u64(v + 1)), &r);
                                if set_membership_proof::verify(version, &mut RandomOracle::domain("set"), &set, &c2, &p, &g, &keys).is_ok() {
                                    return fail("false-statement-verifies", json!({"what": "other commitment"}));
                                }
                                if set_membership_proof::verify(version, &mut RandomOracle::domain("other"), &set, &c, &p, &g, &keys).is_ok() {
                                    return fail("altered-proof-context-verifies", json!({"what": "other domain"}));
                                }
                                // rounds added / removed in the serialised proof
                                let pb = to_bytes(&p);
                                for (what, eb) in count_field_edits(&pb) {
                                    if let Ok(p2) = from_bytes::<set_membership_proof::SetMembershipProof<C>, _>(&mut &eb[..]) {
                                        if to_bytes(&p2) != pb && set_membership_proof::verify(version, &mut RandomOracle::domain("set"), &set, &c, &p2, &g, &keys).is_ok() {
                                            return fail("altered-proof-verifies", json!({"kind": "membership", "edit": what}));
                                        }
                                    }
                                }
                            }
                        }
                    }
                    // non-membership
                    let p = set_non_membership_proof::prove(version, &mut RandomOracle::domain("nset"), &mut rng(cli.seed, 1602), &set, vs, &g, &keys, &r);
                    report.trace(1);
                    match p {
                        Err(_) => {
                            if !member {
                                return fail("true-statement-not-provable", json!({"kind": "non-membership"}));
                            }
                        }
                        Ok(p) => {
                            let ok = set_non_membership_proof::verify(version, &mut RandomOracle::domain("nset"), &set, &c, &p, &g, &keys).is_ok();
                            if ok == member {
                                return fail(if !member { "valid-proof-rejected" } else { "false-statement-verifies" }, json!({"kind": "non-membership"}));
                            }
                            if !member {
                                // adding v to the set makes the statement false
                                let mut s2 = set.clone();
                                s2[0] = vs;
                                if set_non_membership_proof::verify(version, &mut RandomOracle::domain("nset"), &s2, &c, &p, &g, &keys).is_ok() {
                                    return fail("false-statement-verifies", json!({"what": "v put into the set"}));
                                }
                                let c2 = keys.hide(&Value::<C>::new(set[0]), &r);
                                if set_non_membership_proof::verify(version, &mut RandomOracle::domain("nset"), &set, &c2, &p, &g, &keys).is_ok() {
                                    return fail("false-statement-verifies", json!({"what": "commitment to a member"}));
                                }
                                let pb = to_bytes(&p);
                                for (what, eb) in count_field_edits(&pb) {
                                    if let Ok(p2) = from_bytes::<set_non_membership_proof::SetNonMembershipProof<C>, _>(&mut &eb[..]) {
                                        if to_bytes(&p2) != pb && set_non_membership_proof::verify(version, &mut RandomOracle::domain("nset"), &set, &c, &p2, &g, &keys).is_ok() {
                                            return fail("altered-proof-verifies", json!({"kind": "non-membership", "edit": what}));
                                        }
                                    }
                                }
                            }
                        }
                    }
                }
                Ok(())
            });
        }
    });
}

/// Proofs chained on one transcript (how the statements of one credential are proven): whatever the
/// first proof is - in particular one whose inner-product argument has a single element (one bit,
/// a set of one) - prover and verifier must end it in the same transcript state, i.e. the second
/// honest proof of a true statement verifies as well. Both transcript protocols, both versions.
fn chains(report: &Report, cli: &Cli) {
    use concordium_base::random_oracle::TranscriptProtocol;
    let g = gens(64, cli.seed);
    let keys = CommitmentKey::<C>::generate(&mut rng(cli.seed, 1702));
    #[derive(Clone, Debug)]
    enum P {
        Range(u8, u64),
        In(Vec<u64>, u64),
        NotIn(Vec<u64>, u64),
    }
    enum Made {
        R(RangeProof<C>),
        I(set_membership_proof::SetMembershipProof<C>),
        N(set_non_membership_proof::SetNonMembershipProof<C>),
    }
    fn prove_one<T: TranscriptProtocol>(t: &mut T, version: ProofVersion, p: &P, seed: u64, g: &Generators<C>, keys: &CommitmentKey<C>, r: &Randomness<C>) -> Option<Made> {
        let mut rn = rng(seed, 1710);
        match p {
            P::Range(n, v) => prove(version, t, &mut rn, *n, 1, &[*v], g, keys, std::slice::from_ref(r)).map(Made::R),
            P::In(s, v) => set_membership_proof::prove(version, t, &mut rn, &s.iter().map(|x| C::scalar_from_u64(*x)).collect::<Vec<_>>(), C::scalar_from_u64(*v), g, keys, r).ok().map(Made::I),
            P::NotIn(s, v) => set_non_membership_proof::prove(version, t, &mut rn, &s.iter().map(|x| C::scalar_from_u64(*x)).collect::<Vec<_>>(), C::scalar_from_u64(*v), g, keys, r).ok().map(Made::N),
        }
    }
    fn verify_one<T: TranscriptProtocol>(t: &mut T, version: ProofVersion, p: &P, made: &Made, g: &Generators<C>, keys: &CommitmentKey<C>, c: &Commitment<C>) -> bool {
        match (p, made) {
            (P::Range(n, _), Made::R(pr)) => verify_efficient(version, t, *n, std::slice::from_ref(c), pr, g, keys).is_ok(),
            (P::In(s, _), Made::I(pr)) => set_membership_proof::verify(version, t, &s.iter().map(|x| C::scalar_from_u64(*x)).collect::<Vec<_>>(), c, pr, g, keys).is_ok(),
            (P::NotIn(s, _), Made::N(pr)) => set_non_membership_proof::verify(version, t, &s.iter().map(|x| C::scalar_from_u64(*x)).collect::<Vec<_>>(), c, pr, g, keys).is_ok(),
            _ => false,
        }
    }
    let value = |p: &P| match p {
        P::Range(_, v) | P::In(_, v) | P::NotIn(_, v) => *v,
    };
    let firsts = vec![P::Range(1, 0), P::Range(1, 1), P::In(vec![7], 7), P::NotIn(vec![9], 4), P::Range(2, 3), P::In(vec![1, 7], 7), P::In(vec![1, 7, 3, 5], 7), P::NotIn(vec![1, 7, 3], 4), P::Range(8, 200)];
    let seconds = vec![P::Range(8, 200), P::NotIn(vec![1, 7, 3], 4), P::In(vec![1, 7, 3, 5], 7), P::Range(1, 1), P::In(vec![7], 7)];
    let mut cases = vec![];
    for a in &firsts {
        for b in &seconds {
            for v1 in [false, true] {
                for version in [ProofVersion::Version1, ProofVersion::Version2] {
                    cases.push((a.clone(), b.clone(), v1, version));
                }
            }
        }
    }
    report.set_extra("proof_chains", json!(cases.len()));
    cases.par_iter().for_each(|(a, b, v1, version)| {
        case(report, json!({"chain": {"first": format!("{a:?}"), "second": format!("{b:?}"), "transcript": if *v1 { "V1" } else { "legacy" }, "version": format!("{version:?}")}}), || {
            let ra = Randomness::<C>::generate(&mut rng(cli.seed, 1720));
            let rb = Randomness::<C>::generate(&mut rng(cli.seed, 1721));
            let (ca, cb) = (commit(&keys, value(a), &ra), commit(&keys, value(b), &rb));
            let run = |which: usize| -> Result<(bool, bool), (String, serde_json::Value)> {
                let _ = which;
                if *v1 {
                    let mut tp = TranscriptProtocolV1::with_domain("chain");
                    let pa = prove_one(&mut tp, *version, a, cli.seed, &g, &keys, &ra).ok_or(("true-statement-not-provable".to_string(), json!({"which": "first"})))?;
                    let pb = prove_one(&mut tp, *version, b, cli.seed + 1, &g, &keys, &rb).ok_or(("true-statement-not-provable".to_string(), json!({"which": "second"})))?;
                    let mut tv = TranscriptProtocolV1::with_domain("chain");
                    let oa = verify_one(&mut tv, *version, a, &pa, &g, &keys, &ca);
                    let ob = verify_one(&mut tv, *version, b, &pb, &g, &keys, &cb);
                    Ok((oa, ob))
                } else {
                    let mut tp = RandomOracle::domain("chain");
                    let pa = prove_one(&mut tp, *version, a, cli.seed, &g, &keys, &ra).ok_or(("true-statement-not-provable".to_string(), json!({"which": "first"})))?;
                    let pb = prove_one(&mut tp, *version, b, cli.seed + 1, &g, &keys, &rb).ok_or(("true-statement-not-provable".to_string(), json!({"which": "second"})))?;
                    let mut tv = RandomOracle::domain("chain");
                    let oa = verify_one(&mut tv, *version, a, &pa, &g, &keys, &ca);
                    let ob = verify_one(&mut tv, *version, b, &pb, &g, &keys, &cb);
                    Ok((oa, ob))
                }
            };
            let (oa, ob) = run(0)?;
            report.trace(2);
            if !oa {
                return fail("valid-proof-rejected", json!({"which": "first of the chain"}));
            }
            if !ob {
                return fail("valid-proof-rejected", json!({"which": "second of the chain: prover and verifier transcripts diverged after the first"}));
            }
            Ok(())
        });
    });
}

pub fn run(cli: &Cli) -> ! {
    let report = Report::new(cli);
    chains(&report, cli);
    range_grid(&report, cli);
    range_perturbations(&report, cli);
    derived_statements(&report, cli);
    set_proofs(&report, cli);
    let n = report.evaluations.load(std::sync::atomic::Ordering::Relaxed);
    report.state(n);
    report.transition(report.traces.load(std::sync::atomic::Ordering::Relaxed));
    report.nontrivial(n);
    report.sample(json!({"range": {"n": 8, "m": 2, "values": ["255", "256"], "expected": "prover output must not verify"}}));
    report.sample(json!({"in_range": {"v": "10", "a": "10", "b": "11", "expected": "accept"}}));
    report.set_technique("exhaustive grid of (bit width, batch size, boundary values in and just outside the range, position in the batch) x two transcripts, all ordered pairs / triples of a boundary alphabet for a<=b and v in [a,b), all (set size, element / neighbour) combinations for set proofs, complete context perturbation list and single-bit-flip neighbourhood of serialised proofs; verdict must equal the truth of the statement");
    report.set_rule("one case = one statement (or one perturbation of an accepted proof); for false statements the honest prover is run on the false witness and whatever it returns must not verify");
    report.assume("soundness against provers other than the honest one run on a false witness and the enumerated alterations is a computational assumption");
    report.finish(true, json!({"n_max": 64, "m_max": if cli.tier == Tier::Quick { 2 } else { 4 }}));
}
