//! C18 layer C: `web3id::v1` presentations over account-based and identity-based
//! credentials (`RequestV1::prove_with_rng` / `PresentationV1::verify`) and the anchored
//! request verification (`verify_presentation_with_request_anchor`).

use crate::c18::*;
use crate::c18web3::{acc_cred, atom_alterations, now, wbump, web3_alphabets, wn, ws, AccCred, W};
use crate::util::*;
use concordium_base::{
    base::CredentialRegistrationID,
    common::{from_bytes, to_bytes},
    hashes,
    id::{
        constants::IpPairing,
        id_proof_types::*,
        identity_provider::sign_identity_object_v1_with_rng,
        test::{test_create_ars, test_create_id_use_data, test_create_ip_info, test_create_pio_v1},
        types::*,
    },
    pedersen_commitment::{Randomness as PedersenRandomness, Value},
    web3id::{
        did::Network,
        v1::{
            anchor::{
                verify_presentation_with_request_anchor, ContextLabel, CredentialValidityType, IdentityCredentialType, IdentityProviderDid, LabeledContextProperty, Nonce, PresentationVerificationResult, RequestedIdentitySubjectClaims, RequestedStatement, RequestedSubjectClaims, UnfilledContextInformation,
                VerificationContext, VerificationMaterialWithValidity, VerificationRequest, VerificationRequestAnchorAndBlockHash, VerificationRequestData,
            },
            *,
        },
    },
};
use mc_core::{Cli, Report, Tier};
use rayon::prelude::*;
use serde_json::{json, Value as J};
use std::collections::BTreeMap;

type P = IpPairing;
type Pres = PresentationV1<P, C, W>;
type Material = CredentialVerificationMaterial<P, C>;
type StmtV1 = AtomicStatementV1<C, AttributeTag, W>;

/// Abstract v1 statement: `Value(x)` is "attribute equals x" (which reveals it).
#[derive(Clone, Debug, PartialEq)]
pub enum StV1 {
    Value(W),
    Other(St<W>),
}

#[derive(Clone, Debug, PartialEq)]
pub struct AtomV1 {
    pub tag: u8,
    pub st:  StV1,
}

fn describe_v1(a: &AtomV1) -> J { json!({"tag": a.tag, "statement": format!("{:?}", a.st)}) }

fn mk_v1(a: &AtomV1) -> StmtV1 {
    let tag = AttributeTag(a.tag);
    match &a.st {
        StV1::Value(x) => AtomicStatementV1::AttributeValue(AttributeValueStatement { attribute_tag: tag, attribute_value: x.clone(), _phantom: Default::default() }),
        StV1::Other(St::Range(lo, hi)) => AtomicStatementV1::AttributeInRange(AttributeInRangeStatement { attribute_tag: tag, lower: lo.clone(), upper: hi.clone(), _phantom: Default::default() }),
        StV1::Other(St::InSet(s)) => AtomicStatementV1::AttributeInSet(AttributeInSetStatement { attribute_tag: tag, set: s.iter().cloned().collect(), _phantom: Default::default() }),
        StV1::Other(St::NotInSet(s)) => AtomicStatementV1::AttributeNotInSet(AttributeNotInSetStatement { attribute_tag: tag, set: s.iter().cloned().collect(), _phantom: Default::default() }),
        StV1::Other(St::Reveal) => unreachable!("v1 has no bare reveal statement"),
    }
}

/// v1 alphabet around a value: "equals x" for every x of the neighbour alphabet, plus the
/// range / set statements of the common alphabet.
fn atoms_v1(tag: u8, v: &W, nb: &[W], full_pairs: bool) -> Vec<AtomV1> {
    let mut out: Vec<AtomV1> = nb.iter().map(|x| AtomV1 { tag, st: StV1::Value(x.clone()) }).collect();
    out.extend(atoms_around(tag, v, nb, full_pairs).into_iter().filter(|a| a.st != St::Reveal).map(|a| AtomV1 { tag, st: StV1::Other(a.st) }));
    out
}

fn reduced_v1(tag: u8, v: &W, nb: &[W]) -> Vec<AtomV1> {
    let mut out = vec![AtomV1 { tag, st: StV1::Value(v.clone()) }, AtomV1 { tag, st: StV1::Value(nb[0].clone()) }];
    out.extend(reduced_atoms(tag, v, nb).into_iter().filter(|a| a.st != St::Reveal).map(|a| AtomV1 { tag, st: StV1::Other(a.st) }));
    out
}

#[derive(Clone, Copy, PartialEq, Debug)]
enum Kind {
    Account,
    Identity,
}

/// Truth of a statement list. For identity-based credentials an "equals x" statement on a
/// tag that no range / set statement of the list touches is answered by revealing the
/// attribute, and compared structurally; a value with the same embedding but another
/// representation (`String("")` vs `Numeric(0)`) is then an encoding collision on which
/// nothing is required (class `Wide`).
fn truth_v1(kind: Kind, atoms: &[AtomV1], values: &BTreeMap<AttributeTag, W>) -> Truth {
    conj(atoms.iter().map(|a| {
        let v = &values[&AttributeTag(a.tag)];
        match &a.st {
            StV1::Other(st) => truth(st, v),
            StV1::Value(x) => {
                let committed = kind == Kind::Account || atoms.iter().any(|b| b.tag == a.tag && matches!(b.st, StV1::Other(_)));
                if x == v {
                    Truth::True
                } else if fe_int(x) == fe_int(v) {
                    if committed {
                        Truth::True
                    } else {
                        Truth::Wide
                    }
                } else {
                    Truth::False
                }
            }
        }
    }))
}

pub struct IdCred {
    pub ip_info:     IpInfo<P>,
    pub ars_infos:   ArInfos<C>,
    pub id_object:   IdentityObjectV1<P, C, W>,
    /// `IdObjectUseData` holds `Rc`s; it is kept as JSON and rebuilt where needed
    pub id_use_json: String,
    pub values:      BTreeMap<AttributeTag, W>,
}

pub fn id_cred(seed: u64, salt: u64, global: &GlobalContext<C>) -> IdCred {
    let mut r = rng(seed, 18_600 + salt);
    let num_ars = 3;
    let IpData { public_ip_info: ip_info, ip_secret_key, .. } = test_create_ip_info(&mut r, num_ars, 10);
    let (ars, _) = test_create_ars(&global.on_chain_commitment_key.g, num_ars, &mut r);
    let ars_infos = ArInfos { anonymity_revokers: ars };
    let id_use = test_create_id_use_data(&mut r);
    let (_ctx, pio, _) = test_create_pio_v1(&id_use, &ip_info, &ars_infos.anonymity_revokers, global, num_ars, &mut r);
    let values: BTreeMap<AttributeTag, W> = web3_alphabets().into_iter().enumerate().map(|(t, (v, _))| (AttributeTag(t as u8), v)).collect();
    let alist = AttributeList { valid_to: YearMonth::new(2024, 5).unwrap(), created_at: YearMonth::new(2020, 5).unwrap(), max_accounts: 237, alist: values.clone(), _phantom: Default::default() };
    let signature = sign_identity_object_v1_with_rng(&pio, &ip_info, &alist, &ip_secret_key, &mut r).expect("identity provider signs");
    let id_object = IdentityObjectV1 { pre_identity_object: pio, alist, signature };
    IdCred { ip_info, ars_infos, id_object, id_use_json: serde_json::to_string(&id_use).unwrap(), values }
}

pub enum CredV1 {
    Acc(AccCred),
    Id(IdCred),
}

impl CredV1 {
    fn kind(&self) -> Kind {
        match self {
            CredV1::Acc(_) => Kind::Account,
            CredV1::Id(_) => Kind::Identity,
        }
    }

    fn values(&self) -> &BTreeMap<AttributeTag, W> {
        match self {
            CredV1::Acc(a) => &a.values,
            CredV1::Id(i) => &i.values,
        }
    }

    fn issuer(&self) -> IpIdentity {
        match self {
            CredV1::Acc(a) => a.issuer,
            CredV1::Id(i) => i.ip_info.ip_identity,
        }
    }

    fn claims(&self, atoms: &[AtomV1]) -> SubjectClaims<C, W> {
        let statements = atoms.iter().map(mk_v1).collect();
        match self {
            CredV1::Acc(a) => SubjectClaims::Account(AccountBasedSubjectClaims { network: Network::Testnet, issuer: a.issuer, cred_id: a.cred_id, statements }),
            CredV1::Id(i) => SubjectClaims::Identity(IdentityBasedSubjectClaims { network: Network::Testnet, issuer: i.ip_info.ip_identity, statements }),
        }
    }

    fn material(&self) -> Material {
        match self {
            CredV1::Acc(a) => CredentialVerificationMaterial::Account(AccountCredentialVerificationMaterial { issuer: a.issuer, attribute_commitments: a.cmms.clone() }),
            CredV1::Id(i) => CredentialVerificationMaterial::Identity(IdentityCredentialVerificationMaterial { ip_info: i.ip_info.clone(), ars_infos: i.ars_infos.clone() }),
        }
    }
}

pub fn block_hash() -> hashes::BlockHash { hashes::BlockHash::from([2u8; 32]) }

pub fn context() -> ContextInformation {
    ContextInformation {
        given:     vec![
            ContextProperty { label: "Nonce".into(), context: hex::encode([1u8; 32]) },
            ContextProperty { label: "ConnectionID".into(), context: "testconnection".into() },
            ContextProperty { label: "ResourceID".into(), context: "testresource".into() },
        ],
        requested: vec![ContextProperty { label: "BlockHash".into(), context: block_hash().to_string() }],
    }
}

fn prove_v1(global: &GlobalContext<C>, ctx: &ContextInformation, creds: &[(&CredV1, Vec<AtomV1>)], seed: u64, at: chrono::DateTime<chrono::Utc>) -> (RequestV1<C, W>, Result<Pres, ProveError>) {
    let request = RequestV1 { context: ctx.clone(), subject_claims: creds.iter().map(|(c, a)| c.claims(a)).collect() };
    let rands: Vec<BTreeMap<AttributeTag, PedersenRandomness<C>>> = creds
        .iter()
        .map(|(c, _)| match c {
            CredV1::Acc(a) => a.rand_s.iter().map(|(t, s)| (*t, PedersenRandomness::<C>::new(*s))).collect(),
            _ => BTreeMap::new(),
        })
        .collect();
    let uses: Vec<Option<IdObjectUseData<P, C>>> = creds
        .iter()
        .map(|(c, _)| match c {
            CredV1::Id(i) => Some(serde_json::from_str(&i.id_use_json).unwrap()),
            _ => None,
        })
        .collect();
    let inputs: Vec<CredentialProofPrivateInputs<P, C, W>> = creds
        .iter()
        .enumerate()
        .map(|(k, (c, _))| match c {
            CredV1::Acc(a) => CredentialProofPrivateInputs::Account(AccountCredentialProofPrivateInputs { issuer: a.issuer, attribute_values: &a.values, attribute_randomness: &rands[k] }),
            CredV1::Id(i) => CredentialProofPrivateInputs::Identity(IdentityCredentialProofPrivateInputs { ip_context: IpContextOnly { ip_info: &i.ip_info, ars_infos: &i.ars_infos.anonymity_revokers }, id_object: &i.id_object, id_object_use_data: uses[k].as_ref().unwrap() }),
        })
        .collect();
    let res = request.clone().prove_with_rng(global, inputs.into_iter(), &mut rng(seed, 18_700), at);
    (request, res)
}

fn truth_case(report: &Report, cli: &Cli, global: &GlobalContext<C>, cred: &CredV1, atoms: &[AtomV1]) -> Result<(), (String, J)> {
    let t = truth_v1(cred.kind(), atoms, cred.values());
    let (request, res) = prove_v1(global, &context(), &[(cred, atoms.to_vec())], cli.seed, now());
    report.trace(1);
    let material = [cred.material()];
    let verdict = res.as_ref().ok().map(|p| p.verify(global, material.iter()));
    let verified = matches!(verdict, Some(Ok(_)));
    let empty_not_in = |a: &AtomV1| a.st == StV1::Other(St::NotInSet(vec![]));
    match t {
        Truth::True => {
            let Ok(pres) = res else {
                let rest: Vec<_> = atoms.iter().filter(|a| !empty_not_in(a)).cloned().collect();
                if rest.len() < atoms.len() {
                    let ok = rest.is_empty() || {
                        let (_, r2) = prove_v1(global, &context(), &[(cred, rest)], cli.seed, now());
                        r2.map(|p| p.verify(global, material.iter()).is_ok()).unwrap_or(false)
                    };
                    if ok {
                        report.violation("true-statement-not-provable", not_in_empty_set_witness("web3id-v1-presentation"), json!({"example": atoms.iter().map(describe_v1).collect::<Vec<_>>()}));
                        return Ok(());
                    }
                }
                return fail("true-statement-not-provable", json!({"error": format!("{:?}", res.err())}));
            };
            match verdict.unwrap() {
                Ok(req) => {
                    if req != request {
                        return fail("verified-request-differs-from-the-request", json!({}));
                    }
                }
                Err(e) => return fail("true-statement-proof-rejected", json!({"error": format!("{e:?}")})),
            }
            // identity-based: attributes that no statement asked to reveal stay hidden, and a
            // revealed one is the issued value
            if let (CredentialV1::Identity(c), CredV1::Id(i)) = (&pres.verifiable_credentials[0], cred) {
                for (tag, a) in &c.proof.proof_value.identity_attributes {
                    if let IdentityAttribute::Revealed(x) = a {
                        if x != &i.values[tag] {
                            return fail("revealed-value-differs-from-committed", json!({"tag": tag.0}));
                        }
                        if !atoms.iter().any(|s| s.tag == tag.0 && matches!(s.st, StV1::Value(_))) {
                            return fail("attribute-revealed-without-a-statement-asking-for-it", json!({"tag": tag.0}));
                        }
                    }
                }
            }
            // the binary form carries the same presentation
            match from_bytes::<Pres, _>(&mut &to_bytes(&pres)[..]) {
                Ok(back) if back == pres => {}
                _ => return fail("binary-round-trip-changes-presentation", json!({})),
            }
            report.outcome("true: proved and verified", 1);
        }
        Truth::False => {
            if verified {
                return fail("false-statement-verifies", json!({}));
            }
            report.outcome(if res.is_ok() { "false: prover output rejected" } else { "false: not provable" }, 1);
        }
        Truth::Wide => {
            report.outcome(if verified { "no requirement (wide range / encoding collision): verified" } else if res.is_ok() { "no requirement (wide range / encoding collision): prover output rejected" } else { "no requirement (wide range / encoding collision): not provable" }, 1);
        }
    }
    Ok(())
}

#[derive(Clone, Copy, PartialEq)]
enum Expect {
    Reject,
    /// credentials of a v1 presentation are proved independently of each other: a
    /// presentation with fewer / reordered credentials is a valid presentation of another
    /// request, which the verifier reads back
    RejectOrOtherRequest,
}

type PMut = Box<dyn Fn(&mut Pres, &mut Vec<Material>) + Send + Sync>;

fn to_v1(a: &Atom<W>, cur: &AtomV1) -> AtomV1 {
    match &a.st {
        St::Reveal => AtomV1 { tag: a.tag, st: cur.st.clone() },
        st => AtomV1 { tag: a.tag, st: StV1::Other(st.clone()) },
    }
}

/// every single-component alteration of a v1 statement
fn alterations_v1(a: &AtomV1, ntags: u8) -> Vec<(String, AtomV1)> {
    match &a.st {
        StV1::Value(x) => {
            let mut out = vec![];
            for t in 0..ntags {
                if t != a.tag {
                    out.push((format!("tag -> {t}"), AtomV1 { tag: t, st: a.st.clone() }));
                }
            }
            for up in [false, true] {
                if let Some(nv) = wbump(x, up) {
                    out.push((format!("value {}", if up { "+1" } else { "-1" }), AtomV1 { tag: a.tag, st: StV1::Value(nv) }));
                }
            }
            out.push(("equals -> in singleton set".into(), AtomV1 { tag: a.tag, st: StV1::Other(St::InSet(vec![x.clone()])) }));
            out
        }
        StV1::Other(st) => atom_alterations(&Atom { tag: a.tag, st: st.clone() }, ntags).into_iter().filter(|(_, x)| x.st != St::Reveal).map(|(l, x)| (l, to_v1(&x, a))).collect(),
    }
}

fn stmts_mut(c: &mut CredentialV1<P, C, W>) -> &mut Vec<StmtV1> {
    match c {
        CredentialV1::Account(a) => &mut a.subject.statements,
        CredentialV1::Identity(i) => &mut i.subject.statements,
    }
}

fn proofs_mut(c: &mut CredentialV1<P, C, W>) -> &mut Vec<AtomicProofV1<C>> {
    match c {
        CredentialV1::Account(a) => &mut a.proof.proof_value.statement_proofs,
        CredentialV1::Identity(i) => &mut i.proof.proof_value.statement_proofs,
    }
}

fn perturbations(cli: &Cli, global: &GlobalContext<C>, creds: &[(&CredV1, Vec<AtomV1>)], other: &Pres, spare_acc: &AccCred, spare_id: &IdCred) -> Vec<(String, Expect, PMut)> {
    let mut m: Vec<(String, Expect, PMut)> = vec![];
    macro_rules! m {
        ($name:expr, $e:expr, $f:expr) => {
            m.push(($name.to_string(), $e, Box::new($f)));
        };
    }
    use Expect::*;
    let ntags = web3_alphabets().len() as u8;
    // --- context ---------------------------------------------------------------------------------
    m!("context: given[0] value altered", Reject, |p: &mut Pres, _: &mut Vec<Material>| p.presentation_context.given[0].context.push('0'));
    m!("context: given[0] label altered", Reject, |p: &mut Pres, _: &mut Vec<Material>| p.presentation_context.given[0].label = "PaymentHash".into());
    m!("context: given properties 0 and 1 swapped", Reject, |p: &mut Pres, _: &mut Vec<Material>| p.presentation_context.given.swap(0, 1));
    m!("context: last given property moved to requested", Reject, |p: &mut Pres, _: &mut Vec<Material>| {
        let x = p.presentation_context.given.pop().unwrap();
        p.presentation_context.requested.push(x);
    });
    m!("context: requested property moved to given", Reject, |p: &mut Pres, _: &mut Vec<Material>| {
        let x = p.presentation_context.requested.pop().unwrap();
        p.presentation_context.given.push(x);
    });
    m!("context: requested block hash altered", Reject, |p: &mut Pres, _: &mut Vec<Material>| p.presentation_context.requested[0].context = hashes::BlockHash::from([3u8; 32]).to_string());
    m!("context: given property dropped", Reject, |p: &mut Pres, _: &mut Vec<Material>| {
        p.presentation_context.given.pop();
    });
    m!("context: label and value of given[1] re-split", Reject, |p: &mut Pres, _: &mut Vec<Material>| {
        let g = &mut p.presentation_context.given[1];
        let c = g.context.remove(0);
        g.label.push(c);
    });
    m!("context: empty property appended", Reject, |p: &mut Pres, _: &mut Vec<Material>| p.presentation_context.given.push(ContextProperty { label: String::new(), context: String::new() }));
    {
        let mut g2 = global.clone();
        g2.genesis_string.push('x');
        let _ = g2;
    }
    for (i, (cred, atoms)) in creds.iter().enumerate() {
        // --- statements and their proofs ---------------------------------------------------------
        for (k, a) in atoms.iter().enumerate() {
            for (label, alt) in alterations_v1(a, ntags) {
                let s = mk_v1(&alt);
                m!(format!("credential {i} statement {k}: {label}"), Reject, move |p: &mut Pres, _: &mut Vec<Material>| stmts_mut(&mut p.verifiable_credentials[i])[k] = s.clone());
            }
            for j in k + 1..atoms.len() {
                if atoms[k] != atoms[j] {
                    m!(format!("credential {i}: statement proofs {k} and {j} swapped"), Reject, move |p: &mut Pres, _: &mut Vec<Material>| proofs_mut(&mut p.verifiable_credentials[i]).swap(k, j));
                }
            }
            let mut oc = other.verifiable_credentials[i].clone();
            let op = proofs_mut(&mut oc)[k].clone();
            if op != AtomicProofV1::AttributeValueAlreadyRevealed {
                m!(format!("credential {i} statement proof {k}: taken from a presentation with another context"), Reject, move |p: &mut Pres, _: &mut Vec<Material>| proofs_mut(&mut p.verifiable_credentials[i])[k] = op.clone());
            }
        }
        if !atoms.is_empty() {
            m!(format!("credential {i}: last statement dropped (proofs kept)"), Reject, move |p: &mut Pres, _: &mut Vec<Material>| {
                stmts_mut(&mut p.verifiable_credentials[i]).pop();
            });
            m!(format!("credential {i}: last statement proof dropped (statements kept)"), Reject, move |p: &mut Pres, _: &mut Vec<Material>| {
                proofs_mut(&mut p.verifiable_credentials[i]).pop();
            });
            m!(format!("credential {i}: last statement dropped with its proof"), Reject, move |p: &mut Pres, _: &mut Vec<Material>| {
                stmts_mut(&mut p.verifiable_credentials[i]).pop();
                proofs_mut(&mut p.verifiable_credentials[i]).pop();
            });
            m!(format!("credential {i}: last statement and proof duplicated"), Reject, move |p: &mut Pres, _: &mut Vec<Material>| {
                let s = stmts_mut(&mut p.verifiable_credentials[i]).last().unwrap().clone();
                stmts_mut(&mut p.verifiable_credentials[i]).push(s);
                let s = proofs_mut(&mut p.verifiable_credentials[i]).last().unwrap().clone();
                proofs_mut(&mut p.verifiable_credentials[i]).push(s);
            });
        } else {
            // a credential without statements: a statement (with its proof, taken from the other presentation's first credential) must not be insertable
            m!(format!("credential {i}: a statement added without proof"), Reject, move |p: &mut Pres, _: &mut Vec<Material>| {
                stmts_mut(&mut p.verifiable_credentials[i]).push(AtomicStatementV1::AttributeValue(AttributeValueStatement { attribute_tag: AttributeTag(0), attribute_value: ws("x"), _phantom: Default::default() }));
            });
        }
        // --- metadata bound by the transcript ---------------------------------------------------------
        m!(format!("credential {i}: creation time + 1 ms"), Reject, move |p: &mut Pres, _: &mut Vec<Material>| match &mut p.verifiable_credentials[i] {
            CredentialV1::Account(a) => a.proof.created_at += chrono::Duration::milliseconds(1),
            CredentialV1::Identity(x) => x.proof.created_at += chrono::Duration::milliseconds(1),
        });
        m!(format!("credential {i}: network mainnet"), Reject, move |p: &mut Pres, _: &mut Vec<Material>| match &mut p.verifiable_credentials[i] {
            CredentialV1::Account(a) => a.subject.network = Network::Mainnet,
            CredentialV1::Identity(x) => x.subject.network = Network::Mainnet,
        });
        m!(format!("credential {i}: issuer + 1"), Reject, move |p: &mut Pres, _: &mut Vec<Material>| match &mut p.verifiable_credentials[i] {
            CredentialV1::Account(a) => a.issuer = IpIdentity(a.issuer.0 + 1),
            CredentialV1::Identity(x) => x.issuer = IpIdentity(x.issuer.0 + 1),
        });
        m!(format!("credential {i}: issuer + 1, also in the verification material"), Reject, move |p: &mut Pres, vm: &mut Vec<Material>| {
            match &mut p.verifiable_credentials[i] {
                CredentialV1::Account(a) => a.issuer = IpIdentity(a.issuer.0 + 1),
                CredentialV1::Identity(x) => x.issuer = IpIdentity(x.issuer.0 + 1),
            }
            match &mut vm[i] {
                CredentialVerificationMaterial::Account(a) => a.issuer = IpIdentity(a.issuer.0 + 1),
                CredentialVerificationMaterial::Identity(x) => x.ip_info.ip_identity = IpIdentity(x.ip_info.ip_identity.0 + 1),
            }
        });
        match cred {
            CredV1::Acc(acc) => {
                let oc = spare_acc.cred_id;
                m!(format!("credential {i}: cred_id of another credential"), Reject, move |p: &mut Pres, _: &mut Vec<Material>| {
                    if let CredentialV1::Account(a) = &mut p.verifiable_credentials[i] {
                        a.subject.cred_id = oc;
                    }
                });
                m!(format!("material {i}: issuer + 1"), Reject, move |_: &mut Pres, vm: &mut Vec<Material>| {
                    if let CredentialVerificationMaterial::Account(a) = &mut vm[i] {
                        a.issuer = IpIdentity(a.issuer.0 + 1);
                    }
                });
                let key = global.on_chain_commitment_key;
                let used: std::collections::BTreeSet<u8> = atoms.iter().map(|a| a.tag).collect();
                for t in used {
                    let tag = AttributeTag(t);
                    let c2 = key.hide(&Value::<C>::new(acc.values[&tag].to_field_element()), &PedersenRandomness::<C>::generate(&mut rng(cli.seed, 18_800 + t as u64)));
                    m!(format!("material {i}: commitment {t} to the same value with other randomness"), Reject, move |_: &mut Pres, vm: &mut Vec<Material>| {
                        if let CredentialVerificationMaterial::Account(a) = &mut vm[i] {
                            a.attribute_commitments.insert(tag, c2);
                        }
                    });
                    m!(format!("material {i}: commitment {t} removed"), Reject, move |_: &mut Pres, vm: &mut Vec<Material>| {
                        if let CredentialVerificationMaterial::Account(a) = &mut vm[i] {
                            a.attribute_commitments.remove(&tag);
                        }
                    });
                }
                let sc = spare_acc.cmms.clone();
                m!(format!("material {i}: commitments of another credential with the same values"), Reject, move |_: &mut Pres, vm: &mut Vec<Material>| {
                    if let CredentialVerificationMaterial::Account(a) = &mut vm[i] {
                        a.attribute_commitments = sc.clone();
                    }
                });
                let im = CredentialVerificationMaterial::Identity(IdentityCredentialVerificationMaterial { ip_info: spare_id.ip_info.clone(), ars_infos: spare_id.ars_infos.clone() });
                m!(format!("material {i}: identity material for an account credential"), Reject, move |_: &mut Pres, vm: &mut Vec<Material>| vm[i] = im.clone());
            }
            CredV1::Id(idc) => {
                m!(format!("credential {i}: validity.valid_to one month later"), Reject, move |p: &mut Pres, _: &mut Vec<Material>| {
                    if let CredentialV1::Identity(x) = &mut p.verifiable_credentials[i] {
                        x.validity.valid_to = YearMonth::new(x.validity.valid_to.year, x.validity.valid_to.month + 1).unwrap();
                    }
                });
                m!(format!("credential {i}: validity.created_at one month earlier"), Reject, move |p: &mut Pres, _: &mut Vec<Material>| {
                    if let CredentialV1::Identity(x) = &mut p.verifiable_credentials[i] {
                        x.validity.created_at = YearMonth::new(x.validity.created_at.year, x.validity.created_at.month - 1).unwrap();
                    }
                });
                // the ephemeral id = threshold + encrypted identity shares
                m!(format!("credential {i}: ephemeral id, threshold byte + 1"), Reject, move |p: &mut Pres, _: &mut Vec<Material>| {
                    if let CredentialV1::Identity(x) = &mut p.verifiable_credentials[i] {
                        x.subject.cred_id.0[0] += 1;
                    }
                });
                m!(format!("credential {i}: ephemeral id, threshold byte - 1"), Reject, move |p: &mut Pres, _: &mut Vec<Material>| {
                    if let CredentialV1::Identity(x) = &mut p.verifiable_credentials[i] {
                        x.subject.cred_id.0[0] -= 1;
                    }
                });
                m!(format!("credential {i}: ephemeral id truncated"), Reject, move |p: &mut Pres, _: &mut Vec<Material>| {
                    if let CredentialV1::Identity(x) = &mut p.verifiable_credentials[i] {
                        x.subject.cred_id.0.pop();
                    }
                });
                m!(format!("credential {i}: ephemeral id, zero byte appended"), Reject, move |p: &mut Pres, _: &mut Vec<Material>| {
                    if let CredentialV1::Identity(x) = &mut p.verifiable_credentials[i] {
                        x.subject.cred_id.0.push(0);
                    }
                });
                let oid = match &other.verifiable_credentials[i] {
                    CredentialV1::Identity(x) => x.clone(),
                    _ => unreachable!(),
                };
                let o1 = oid.clone();
                m!(format!("credential {i}: ephemeral id of another presentation of the same identity"), Reject, move |p: &mut Pres, _: &mut Vec<Material>| {
                    if let CredentialV1::Identity(x) = &mut p.verifiable_credentials[i] {
                        x.subject.cred_id = o1.subject.cred_id.clone();
                    }
                });
                // identity attributes
                for (tag, attr) in oid.proof.proof_value.identity_attributes.iter() {
                    let tag = *tag;
                    match attr {
                        IdentityAttribute::Committed(c) => {
                            let c = *c;
                            m!(format!("credential {i}: attribute {} commitment of another presentation", tag.0), Reject, move |p: &mut Pres, _: &mut Vec<Material>| {
                                if let CredentialV1::Identity(x) = &mut p.verifiable_credentials[i] {
                                    x.proof.proof_value.identity_attributes.insert(tag, IdentityAttribute::Committed(c));
                                }
                            });
                            m!(format!("credential {i}: committed attribute {} declared merely known", tag.0), Reject, move |p: &mut Pres, _: &mut Vec<Material>| {
                                if let CredentialV1::Identity(x) = &mut p.verifiable_credentials[i] {
                                    x.proof.proof_value.identity_attributes.insert(tag, IdentityAttribute::Known);
                                }
                            });
                        }
                        IdentityAttribute::Revealed(v) => {
                            for up in [false, true] {
                                if let Some(nv) = wbump(v, up) {
                                    m!(format!("credential {i}: revealed attribute {} {}", tag.0, if up { "+1" } else { "-1" }), Reject, move |p: &mut Pres, _: &mut Vec<Material>| {
                                        if let CredentialV1::Identity(x) = &mut p.verifiable_credentials[i] {
                                            x.proof.proof_value.identity_attributes.insert(tag, IdentityAttribute::Revealed(nv.clone()));
                                        }
                                    });
                                }
                            }
                            m!(format!("credential {i}: revealed attribute {} declared merely known", tag.0), Reject, move |p: &mut Pres, _: &mut Vec<Material>| {
                                if let CredentialV1::Identity(x) = &mut p.verifiable_credentials[i] {
                                    x.proof.proof_value.identity_attributes.insert(tag, IdentityAttribute::Known);
                                }
                            });
                        }
                        IdentityAttribute::Known => {
                            let v = idc.values[&tag].clone();
                            m!(format!("credential {i}: known attribute {} declared revealed (true value)", tag.0), Reject, move |p: &mut Pres, _: &mut Vec<Material>| {
                                if let CredentialV1::Identity(x) = &mut p.verifiable_credentials[i] {
                                    x.proof.proof_value.identity_attributes.insert(tag, IdentityAttribute::Revealed(v.clone()));
                                }
                            });
                            m!(format!("credential {i}: known attribute {} removed", tag.0), Reject, move |p: &mut Pres, _: &mut Vec<Material>| {
                                if let CredentialV1::Identity(x) = &mut p.verifiable_credentials[i] {
                                    x.proof.proof_value.identity_attributes.remove(&tag);
                                }
                            });
                        }
                    }
                }
                // identity attribute proofs: each component replaced by that of another
                // presentation of the same identity (same statements, other context)
                let o2 = oid.clone();
                m!(format!("credential {i}: blinded signature of another presentation"), Reject, move |p: &mut Pres, _: &mut Vec<Material>| {
                    if let CredentialV1::Identity(x) = &mut p.verifiable_credentials[i] {
                        x.proof.proof_value.identity_attributes_proofs.signature = o2.proof.proof_value.identity_attributes_proofs.signature.clone();
                    }
                });
                let o3 = oid.clone();
                m!(format!("credential {i}: sharing coefficient commitments of another presentation"), Reject, move |p: &mut Pres, _: &mut Vec<Material>| {
                    if let CredentialV1::Identity(x) = &mut p.verifiable_credentials[i] {
                        x.proof.proof_value.identity_attributes_proofs.cmm_id_cred_sec_sharing_coeff = o3.proof.proof_value.identity_attributes_proofs.cmm_id_cred_sec_sharing_coeff.clone();
                    }
                });
                let o4 = oid.clone();
                m!(format!("credential {i}: whole identity attribute proofs of another presentation"), Reject, move |p: &mut Pres, _: &mut Vec<Material>| {
                    if let CredentialV1::Identity(x) = &mut p.verifiable_credentials[i] {
                        x.proof.proof_value.identity_attributes_proofs = o4.proof.proof_value.identity_attributes_proofs.clone();
                    }
                });
                m!(format!("credential {i}: last sharing coefficient commitment dropped"), Reject, move |p: &mut Pres, _: &mut Vec<Material>| {
                    if let CredentialV1::Identity(x) = &mut p.verifiable_credentials[i] {
                        x.proof.proof_value.identity_attributes_proofs.cmm_id_cred_sec_sharing_coeff.pop();
                    }
                });
                // verification material
                let sip = spare_id.ip_info.clone();
                m!(format!("material {i}: another identity provider's keys under the same identity number"), Reject, move |_: &mut Pres, vm: &mut Vec<Material>| {
                    if let CredentialVerificationMaterial::Identity(x) = &mut vm[i] {
                        let id = x.ip_info.ip_identity;
                        x.ip_info = sip.clone();
                        x.ip_info.ip_identity = id;
                    }
                });
                let sars = spare_id.ars_infos.clone();
                m!(format!("material {i}: other anonymity revoker keys under the same identities"), Reject, move |_: &mut Pres, vm: &mut Vec<Material>| {
                    if let CredentialVerificationMaterial::Identity(x) = &mut vm[i] {
                        x.ars_infos = sars.clone();
                    }
                });
                m!(format!("material {i}: one anonymity revoker missing"), Reject, move |_: &mut Pres, vm: &mut Vec<Material>| {
                    if let CredentialVerificationMaterial::Identity(x) = &mut vm[i] {
                        let k = *x.ars_infos.anonymity_revokers.keys().next().unwrap();
                        x.ars_infos.anonymity_revokers.remove(&k);
                    }
                });
                let am = CredentialVerificationMaterial::Account(AccountCredentialVerificationMaterial { issuer: idc.ip_info.ip_identity, attribute_commitments: spare_acc.cmms.clone() });
                m!(format!("material {i}: account material for an identity credential"), Reject, move |_: &mut Pres, vm: &mut Vec<Material>| vm[i] = am.clone());
            }
        }
    }
    // --- shape ---------------------------------------------------------------------------------------
    m!("material: last entry dropped", Reject, |_: &mut Pres, vm: &mut Vec<Material>| {
        vm.pop();
    });
    m!("material: last entry duplicated", Reject, |_: &mut Pres, vm: &mut Vec<Material>| {
        let l = vm.last().unwrap().clone();
        vm.push(l);
    });
    if creds.len() == 2 {
        m!("material: entries swapped", Reject, |_: &mut Pres, vm: &mut Vec<Material>| vm.swap(0, 1));
        m!("credentials swapped (material swapped along)", RejectOrOtherRequest, |p: &mut Pres, vm: &mut Vec<Material>| {
            p.verifiable_credentials.swap(0, 1);
            vm.swap(0, 1);
        });
        m!("last credential dropped (with its material)", RejectOrOtherRequest, |p: &mut Pres, vm: &mut Vec<Material>| {
            p.verifiable_credentials.pop();
            vm.pop();
        });
    }
    m
}

// -----------------------------------------------------------------------------------------------
// anchored request verification
// -----------------------------------------------------------------------------------------------

struct AnchorCase {
    global:   GlobalContext<C>,
    vctx:     VerificationContext,
    request:  VerificationRequest,
    pres:     Pres,
    anchor:   VerificationRequestAnchorAndBlockHash,
    material: Vec<VerificationMaterialWithValidity>,
}

impl AnchorCase {
    fn run(&self) -> PresentationVerificationResult { verify_presentation_with_request_anchor(&self.global, &self.vctx, &self.request, &self.pres, &self.anchor, &self.material) }

    fn clone_case(&self) -> AnchorCase { AnchorCase { global: self.global.clone(), vctx: self.vctx.clone(), request: self.request.clone(), pres: self.pres.clone(), anchor: self.anchor.clone(), material: self.material.clone() } }

    fn re_anchor(&mut self) {
        let data = VerificationRequestData { context: self.request.context.clone(), subject_claims: self.request.subject_claims.clone() };
        self.anchor.verification_request_anchor = data.to_anchor(None);
    }
}

fn requested(a: &AtomV1) -> RequestedStatement<AttributeTag> {
    match mk_v1(a) {
        AtomicStatementV1::AttributeValue(s) => RequestedStatement::RevealAttribute(RevealAttributeStatement { attribute_tag: s.attribute_tag }),
        AtomicStatementV1::AttributeInRange(s) => RequestedStatement::AttributeInRange(s),
        AtomicStatementV1::AttributeInSet(s) => RequestedStatement::AttributeInSet(s),
        AtomicStatementV1::AttributeNotInSet(s) => RequestedStatement::AttributeNotInSet(s),
    }
}

fn anchor_layer(report: &Report, cli: &Cli, global: &GlobalContext<C>, creds: &[(&str, &CredV1)], atoms: &[AtomV1]) {
    let unfilled = UnfilledContextInformation {
        given:     vec![LabeledContextProperty::Nonce(Nonce([1u8; 32])), LabeledContextProperty::ConnectionId("testconnection".into()), LabeledContextProperty::ResourceId("testresource".into())],
        requested: vec![ContextLabel::BlockHash],
    };
    let ctx = ContextInformation { given: unfilled.given.iter().map(|p| p.to_context_property()).collect(), requested: vec![LabeledContextProperty::BlockHash(block_hash()).to_context_property()] };
    for (name, cred) in creds {
        let base_w = json!({"layer": "web3id-v1-anchored-request", "credential": name});
        let claims = RequestedIdentitySubjectClaims {
            statements: atoms.iter().map(requested).collect(),
            issuers:    vec![IdentityProviderDid::new(99, Network::Testnet), IdentityProviderDid::new(cred.issuer().0, Network::Testnet)],
            source:     vec![IdentityCredentialType::IdentityCredential, IdentityCredentialType::AccountCredential],
        };
        let request = VerificationRequest { context: unfilled.clone(), subject_claims: vec![RequestedSubjectClaims::Identity(claims)], anchor_transaction_hash: hashes::TransactionHash::from([5u8; 32]) };
        let (_, res) = prove_v1(global, &ctx, &[(*cred, atoms.to_vec())], cli.seed, now());
        let Ok(pres) = res else {
            report.violation("true-statement-not-provable", base_w, json!({}));
            continue;
        };
        let validity = CredentialValidity { valid_to: YearMonth::new(2024, 5).unwrap(), created_at: YearMonth::new(2020, 5).unwrap() };
        let valid_from = validity.created_at.lower().unwrap();
        let valid_until = validity.valid_to.upper().unwrap();
        let mut base = AnchorCase {
            global: global.clone(),
            vctx: VerificationContext { network: Network::Testnet, validity_time: now() },
            request,
            pres,
            anchor: VerificationRequestAnchorAndBlockHash { verification_request_anchor: VerificationRequestData { context: unfilled.clone(), subject_claims: vec![] }.to_anchor(None), block_hash: block_hash() },
            material: vec![VerificationMaterialWithValidity { verification_material: cred.material(), validity: CredentialValidityType::ValidityPeriod(validity.clone()) }],
        };
        base.re_anchor();
        case(report, base_w.clone(), || {
            report.trace(1);
            match base.run() {
                PresentationVerificationResult::Verified => Ok(()),
                PresentationVerificationResult::Failed(f) => fail("valid-anchored-presentation-rejected", json!(format!("{f:?}"))),
            }
        });
        type AMut = Box<dyn Fn(&mut AnchorCase) + Send + Sync>;
        let mut muts: Vec<(String, bool, AMut)> = vec![];
        macro_rules! a {
            ($name:expr, $ok:expr, $f:expr) => {
                muts.push(($name.to_string(), $ok, Box::new($f)));
            };
        }
        // validity window: [first instant of created_at, first instant after valid_to)
        a!("time: first instant of the validity period", true, move |c: &mut AnchorCase| c.vctx.validity_time = valid_from);
        a!("time: one millisecond before the validity period", false, move |c: &mut AnchorCase| c.vctx.validity_time = valid_from - chrono::Duration::milliseconds(1));
        a!("time: last millisecond of the validity period", true, move |c: &mut AnchorCase| c.vctx.validity_time = valid_until - chrono::Duration::milliseconds(1));
        a!("time: first instant after the validity period", false, move |c: &mut AnchorCase| c.vctx.validity_time = valid_until);
        a!("verification context: mainnet", false, |c: &mut AnchorCase| c.vctx.network = Network::Mainnet);
        a!("anchor: hash bit flipped", false, |c: &mut AnchorCase| {
            let mut b: [u8; 32] = c.anchor.verification_request_anchor.hash.as_ref().try_into().unwrap();
            b[0] ^= 1;
            c.anchor.verification_request_anchor.hash = hashes::Hash::from(b);
        });
        a!("anchor: registered in another block", false, |c: &mut AnchorCase| c.anchor.block_hash = hashes::BlockHash::from([3u8; 32]));
        a!("anchor: other transaction hash in the request (not part of the anchored data)", true, |c: &mut AnchorCase| c.request.anchor_transaction_hash = hashes::TransactionHash::from([6u8; 32]));
        for re in [false, true] {
            let sfx = if re { " (anchor recomputed)" } else { "" };
            for (k, at) in atoms.iter().enumerate() {
                for (label, alt) in alterations_v1(at, web3_alphabets().len() as u8) {
                    // "equals x" is requested as "reveal": altering only x does not change the request
                    if matches!((&at.st, &alt.st), (StV1::Value(_), StV1::Value(_))) && at.tag == alt.tag {
                        continue;
                    }
                    let rs = requested(&alt);
                    a!(format!("request statement {k}: {label}{sfx}"), false, move |c: &mut AnchorCase| {
                        let RequestedSubjectClaims::Identity(cl) = &mut c.request.subject_claims[0];
                        cl.statements[k] = rs.clone();
                        if re {
                            c.re_anchor()
                        }
                    });
                }
            }
            a!(format!("request: last statement dropped{sfx}"), false, move |c: &mut AnchorCase| {
                let RequestedSubjectClaims::Identity(cl) = &mut c.request.subject_claims[0];
                cl.statements.pop();
                if re {
                    c.re_anchor()
                }
            });
            a!(format!("request: statements 0 and 1 swapped{sfx}"), false, move |c: &mut AnchorCase| {
                let RequestedSubjectClaims::Identity(cl) = &mut c.request.subject_claims[0];
                cl.statements.swap(0, 1);
                if re {
                    c.re_anchor()
                }
            });
            a!(format!("request: a second subject claim{sfx}"), false, move |c: &mut AnchorCase| {
                let x = c.request.subject_claims[0].clone();
                c.request.subject_claims.push(x);
                if re {
                    c.re_anchor()
                }
            });
            a!(format!("request: no subject claims{sfx}"), false, move |c: &mut AnchorCase| {
                c.request.subject_claims.clear();
                if re {
                    c.re_anchor()
                }
            });
            a!(format!("request: the credential's issuer not among the allowed issuers{sfx}"), false, move |c: &mut AnchorCase| {
                let RequestedSubjectClaims::Identity(cl) = &mut c.request.subject_claims[0];
                cl.issuers.pop();
                if re {
                    c.re_anchor()
                }
            });
            a!(format!("request: the issuer allowed on mainnet only{sfx}"), false, move |c: &mut AnchorCase| {
                let RequestedSubjectClaims::Identity(cl) = &mut c.request.subject_claims[0];
                cl.issuers.last_mut().unwrap().network = Network::Mainnet;
                if re {
                    c.re_anchor()
                }
            });
            let is_acc = matches!(cred, CredV1::Acc(_));
            a!(format!("request: the credential's kind not among the allowed sources{sfx}"), false, move |c: &mut AnchorCase| {
                let RequestedSubjectClaims::Identity(cl) = &mut c.request.subject_claims[0];
                cl.source = vec![if is_acc { IdentityCredentialType::IdentityCredential } else { IdentityCredentialType::AccountCredential }];
                if re {
                    c.re_anchor()
                }
            });
            a!(format!("request context: nonce altered{sfx}"), false, move |c: &mut AnchorCase| {
                c.request.context.given[0] = LabeledContextProperty::Nonce(Nonce([9u8; 32]));
                if re {
                    c.re_anchor()
                }
            });
            a!(format!("request context: given properties reordered{sfx}"), false, move |c: &mut AnchorCase| {
                c.request.context.given.swap(1, 2);
                if re {
                    c.re_anchor()
                }
            });
            a!(format!("request context: connection id given as resource id{sfx}"), false, move |c: &mut AnchorCase| {
                c.request.context.given[1] = LabeledContextProperty::ResourceId("testconnection".into());
                if re {
                    c.re_anchor()
                }
            });
            a!(format!("request context: a further requested label{sfx}"), false, move |c: &mut AnchorCase| {
                c.request.context.requested.push(ContextLabel::PaymentHash);
                if re {
                    c.re_anchor()
                }
            });
            a!(format!("request context: nothing requested{sfx}"), false, move |c: &mut AnchorCase| {
                c.request.context.requested.clear();
                if re {
                    c.re_anchor()
                }
            });
        }
        // presentation side
        a!("presentation: context nonce altered", false, |c: &mut AnchorCase| c.pres.presentation_context.given[0].context = hex::encode([9u8; 32]));
        a!("presentation: unknown context label", false, |c: &mut AnchorCase| c.pres.presentation_context.given[2].label = "Unknown".into());
        a!("presentation: block hash not a hash", false, |c: &mut AnchorCase| c.pres.presentation_context.requested[0].context = "zz".into());
        a!("presentation: block hash property missing", false, |c: &mut AnchorCase| c.pres.presentation_context.requested.clear());
        a!("presentation: statement proof dropped", false, |c: &mut AnchorCase| {
            proofs_mut(&mut c.pres.verifiable_credentials[0]).pop();
        });
        a!("presentation: credential on mainnet", false, |c: &mut AnchorCase| match &mut c.pres.verifiable_credentials[0] {
            CredentialV1::Account(a) => a.subject.network = Network::Mainnet,
            CredentialV1::Identity(x) => x.subject.network = Network::Mainnet,
        });
        a!("material: none", false, |c: &mut AnchorCase| c.material.clear());
        a!("material: validity period ended a month earlier than 'now' (validity as supplied by the caller)", false, |c: &mut AnchorCase| {
            c.material[0].validity = CredentialValidityType::ValidityPeriod(CredentialValidity { valid_to: YearMonth::new(2023, 7).unwrap(), created_at: YearMonth::new(2020, 5).unwrap() });
        });
        report.set_extra(&format!("layer_c_anchor_perturbations_{name}"), json!(muts.len()));
        muts.par_iter().for_each(|(label, ok, f)| {
            let mut w = base_w.clone();
            w["perturbation"] = json!(label);
            case(report, w, || {
                let mut c = base.clone_case();
                f(&mut c);
                report.trace(1);
                match (c.run(), ok) {
                    (PresentationVerificationResult::Verified, true) => report.outcome("anchored: accepted as expected", 1),
                    (PresentationVerificationResult::Failed(x), false) => report.outcome(&format!("anchored: rejected ({x:?})"), 1),
                    (PresentationVerificationResult::Verified, false) => return fail("altered-anchored-verification-succeeds", json!({"what": label})),
                    (PresentationVerificationResult::Failed(x), true) => return fail("valid-anchored-presentation-rejected", json!({"what": label, "failure": format!("{x:?}")})),
                }
                Ok(())
            });
        });
    }
}

pub fn layer_c(report: &Report, cli: &Cli, global: &GlobalContext<C>) {
    let quick = cli.tier == Tier::Quick;
    let acc = CredV1::Acc(acc_cred(cli.seed, 10, global));
    let idc = CredV1::Id(id_cred(cli.seed, 0, global));
    let spare_acc = acc_cred(cli.seed, 11, global);
    let spare_id = id_cred(cli.seed, 1, global);
    let alph = web3_alphabets();
    // C1: every atomic statement on either credential kind (quick: reduced range pairs on
    // the identity-based credential)
    let mut singles: Vec<(&CredV1, AtomV1)> = vec![];
    for cred in [&acc, &idc] {
        for (t, (v, nb)) in alph.iter().enumerate() {
            for a in atoms_v1(t as u8, v, nb, !quick || cred.kind() == Kind::Account) {
                singles.push((cred, a));
            }
        }
    }
    report.set_extra("layer_c_single_statements", json!(singles.len()));
    singles.par_iter().for_each(|(cred, a)| {
        case(report, json!({"layer": "web3id-v1-presentation", "credential": format!("{:?}", cred.kind()), "statements": [describe_v1(a)]}), || truth_case(report, cli, global, cred, std::slice::from_ref(a)));
    });
    // C2: ordered pairs of the reduced alphabet (same-tag pairs switch an "equals" statement
    // of an identity credential from the reveal path to the commitment path)
    let ntag_pairs = if quick { 2 } else { alph.len() };
    let reduced: Vec<AtomV1> = alph.iter().enumerate().filter(|(t, _)| *t == 3 || *t < ntag_pairs).flat_map(|(t, (v, nb))| {
        let mut r = reduced_v1(t as u8, v, nb);
        if t == 3 {
            // Numeric(0) vs String(""): same embedding, other representation
            r.push(AtomV1 { tag: 3, st: StV1::Value(ws("")) });
        }
        r
    }).collect();
    let mut pairs: Vec<(&CredV1, AtomV1, AtomV1)> = vec![];
    for cred in [&idc, &acc] {
        for a in &reduced {
            for b in &reduced {
                if quick && cred.kind() == Kind::Account && a.tag != b.tag {
                    continue;
                }
                pairs.push((cred, a.clone(), b.clone()));
            }
        }
    }
    report.set_extra("layer_c_statement_pairs", json!(pairs.len()));
    pairs.par_iter().for_each(|(cred, a, b)| {
        case(report, json!({"layer": "web3id-v1-presentation", "credential": format!("{:?}", cred.kind()), "statements": [describe_v1(a), describe_v1(b)]}), || truth_case(report, cli, global, cred, &[a.clone(), b.clone()]));
    });
    // C3: perturbations
    let pick = |t: usize, f: &dyn Fn(&St<W>) -> bool| -> AtomV1 {
        let a = atoms_around(t as u8, &alph[t].0, &alph[t].1, true).into_iter().find(|a| f(&a.st) && truth(&a.st, &alph[t].0) == Truth::True).unwrap();
        AtomV1 { tag: a.tag, st: StV1::Other(a.st) }
    };
    let four = vec![AtomV1 { tag: 5, st: StV1::Value(alph[5].0.clone()) }, pick(1, &|s| matches!(s, St::Range(..))), pick(0, &|s| matches!(s, St::InSet(x) if x.len() == 3)), pick(2, &|s| matches!(s, St::NotInSet(x) if x.len() == 2))];
    let two = vec![pick(2, &|s| matches!(s, St::Range(..))), AtomV1 { tag: 0, st: StV1::Value(alph[0].0.clone()) }];
    let bases: Vec<(&str, Vec<(&CredV1, Vec<AtomV1>)>)> = vec![("account", vec![(&acc, four.clone())]), ("identity", vec![(&idc, four.clone())]), ("account+identity", vec![(&acc, two.clone()), (&idc, two.clone())]), ("identity+account", vec![(&idc, two.clone()), (&acc, two.clone())]), ("identity without statements", vec![(&idc, vec![])]), ("account+identity without statements", vec![(&acc, two.clone()), (&idc, vec![])])];
    for (name, creds) in &bases {
        let base_w = json!({"layer": "web3id-v1-presentation-perturbation", "credentials": name});
        let (request, res) = prove_v1(global, &context(), creds, cli.seed, now());
        let mut ctx2 = context();
        ctx2.given[0].context = hex::encode([4u8; 32]);
        let (_, res_other) = prove_v1(global, &ctx2, creds, cli.seed + 1, now());
        let (Ok(pres), Ok(other)) = (res, res_other) else {
            report.violation("true-statement-not-provable", base_w, json!({}));
            continue;
        };
        let material: Vec<Material> = creds.iter().map(|(c, _)| c.material()).collect();
        match pres.verify(global, material.iter()) {
            Ok(r) if r == request => {}
            x => {
                report.violation("true-statement-proof-rejected", base_w, json!({"result": format!("{:?}", x.err())}));
                continue;
            }
        }
        let muts = perturbations(cli, global, creds, &other, &spare_acc, &spare_id);
        report.set_extra(&format!("layer_c_perturbations_{name}"), json!(muts.len()));
        muts.par_iter().for_each(|(label, expect, f)| {
            let mut w = base_w.clone();
            w["perturbation"] = json!(label);
            case(report, w, || {
                let mut p = pres.clone();
                let mut vm = material.clone();
                f(&mut p, &mut vm);
                if p == pres && vm == material {
                    return fail("machinery: perturbation changed nothing", json!({"what": label}));
                }
                report.trace(1);
                match p.verify(global, vm.iter()) {
                    Err(e) => report.outcome(&format!("perturbation rejected: {e:?}"), 1),
                    Ok(r) => {
                        if *expect == Expect::Reject {
                            return fail("altered-presentation-verifies", json!({"what": label}));
                        }
                        if r == request {
                            return fail("altered-presentation-verifies-for-the-original-request", json!({"what": label}));
                        }
                        report.outcome("perturbation accepted for a different request (read back by the verifier)", 1);
                    }
                }
                Ok(())
            });
        });
        // bit flips of the serialised presentation (quick: single-credential bases, strided)
        if creds.len() == 1 || !quick {
            let bytes = to_bytes(&pres);
            let stride = if quick { 29 } else { 1 };
            // counted parts (credentials, statements, atomic proofs, inner-product rounds) added / removed
            count_field_edits(&bytes).into_par_iter().enumerate().filter(|(i, _)| !quick || i % 5 == 0).for_each(|(_, (what, eb))| {
                let mut w = base_w.clone();
                w["presentation_structural_edit"] = json!(what);
                case(report, w, || {
                    let Ok(p) = from_bytes::<Pres, _>(&mut &eb[..]) else {
                        report.outcome("structural edit unparsable", 1);
                        return Ok(());
                    };
                    if p == pres || (p.presentation_context == pres.presentation_context && p.verifiable_credentials == pres.verifiable_credentials) {
                        return Ok(());
                    }
                    report.trace(1);
                    match p.verify(global, material.iter()) {
                        Err(_) => report.outcome("structural edit rejected", 1),
                        Ok(r) if r != request => report.outcome("structural edit accepted for a different request", 1),
                        Ok(_) => return fail("altered-presentation-verifies-for-the-original-request", json!({"edit": what})),
                    }
                    Ok(())
                });
            });
            (0..bytes.len() * 8).into_par_iter().filter(|b| b % stride == 0).for_each(|bit| {
                let mut w = base_w.clone();
                w["presentation_bit_flip"] = json!(bit);
                case(report, w, || {
                    let Ok(p) = from_bytes::<Pres, _>(&mut &flip(&bytes, bit)[..]) else {
                        report.outcome("bit flip unparsable", 1);
                        return Ok(());
                    };
                    if p == pres {
                        report.outcome("bit flip decodes to the same presentation", 1);
                        return Ok(());
                    }
                    if p.presentation_context == pres.presentation_context && p.verifiable_credentials == pres.verifiable_credentials {
                        // only the (empty) linking proof's timestamp / type differs: not bound, reported metadata
                        report.outcome("bit flip in the linking proof timestamp (unbound metadata)", 1);
                        return Ok(());
                    }
                    report.trace(1);
                    match p.verify(global, material.iter()) {
                        Err(_) => report.outcome("bit flip rejected", 1),
                        Ok(r) if r != request => report.outcome("bit flip accepted for a different request", 1),
                        Ok(_) => return fail("altered-presentation-verifies-for-the-original-request", json!({"bit": bit})),
                    }
                    Ok(())
                });
            });
        }
    }
    // C4: anchored request verification
    anchor_layer(report, cli, global, &[("account", &acc), ("identity", &idc)], &four);
    let _ = wn;
    let _: Option<CredentialRegistrationID> = None;
}
