//! C18 layer C: web3id::v1 presentations and anchored-request verification.
use crate::c18::C;
use concordium_base::id::types::GlobalContext;
use mc_core::{Cli, Report};

pub fn layer_c(_report: &Report, _cli: &Cli, _global: &GlobalContext<C>) {}
