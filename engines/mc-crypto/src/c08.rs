//! C08: identity issuance verifies, tampering fails, anonymity is revocable by any
//! threshold-many revokers.

use crate::util::*;
use concordium_base::{
    common::{
        from_bytes, to_bytes,
        types::{KeyIndex, KeyPair, TransactionTime},
    },
    contracts_common::{AccountAddress, SignatureThreshold},
    curve_arithmetic::Curve,
    elgamal::{decrypt_from_chunks_given_table, BabyStepGiantStep, Message, SecretKey as ElgSk},
    id::{
        account_holder::{create_credential, generate_pio, generate_pio_v1_with_rng},
        anonymity_revoker::{reveal_id_cred_pub, reveal_prf_key},
        chain::verify_cdi,
        constants::{ArCurve, AttributeKind, BaseField, IpPairing},
        identity_provider::{validate_request, validate_request_v1, verify_credentials, verify_credentials_v1},
        secret_sharing::Threshold,
        test::{test_create_ars, test_create_id_use_data, test_create_ip_info},
        types::*,
    },
    pedersen_commitment::Value,
};
use either::Either::{self, Left, Right};
use mc_core::{Cli, Report, Tier};
use rayon::prelude::*;
use serde_json::json;
use std::collections::BTreeMap;

type Cdi = CredentialDeploymentInfo<IpPairing, ArCurve, AttributeKind>;
type AList = AttributeList<BaseField, AttributeKind>;

const EXPIRY: TransactionTime = TransactionTime { seconds: 111111111111111111 };

fn ym(y: u16, m: u8) -> YearMonth { YearMonth::new(y, m).unwrap() }

fn attribute_lists() -> Vec<(&'static str, AList)> {
    let mk = |alist: BTreeMap<AttributeTag, AttributeKind>, max: u8| AList { valid_to: ym(2030, 5), created_at: ym(2020, 5), max_accounts: max, alist, _phantom: Default::default() };
    let mut one = BTreeMap::new();
    one.insert(AttributeTag::from(0u8), AttributeKind::try_new("a".into()).unwrap());
    let mut many = BTreeMap::new();
    for t in 0u8..13 {
        many.insert(AttributeTag::from(t), AttributeKind::try_new(format!("value{t}")).unwrap());
    }
    let mut long = BTreeMap::new();
    long.insert(AttributeTag::from(3u8), AttributeKind::try_new("x".repeat(31)).unwrap());
    long.insert(AttributeTag::from(8u8), AttributeKind::try_new(String::new()).unwrap());
    vec![("three-tags", { let mut m = BTreeMap::new(); for t in [0u8, 3, 8] { m.insert(AttributeTag::from(t), AttributeKind::try_new(format!("v{t}")).unwrap()); } mk(m, 3) }), ("empty", mk(BTreeMap::new(), 3)), ("one", mk(one, 0)), ("thirteen", mk(many, 255)), ("max-length-value", mk(long, 3))]
}

fn cred_data(seed: u64, nkeys: u8, threshold: u8) -> CredentialData {
    let mut keys = BTreeMap::new();
    for k in 0..nkeys {
        keys.insert(KeyIndex(k), KeyPair::generate(&mut rng(seed, 8100 + k as u64)));
    }
    CredentialData { keys, threshold: SignatureThreshold::try_from(threshold).unwrap() }
}

struct Setup {
    global: GlobalContext<ArCurve>,
    ip: IpData<IpPairing>,
    ars: BTreeMap<ArIdentity, ArInfo<ArCurve>>,
    ar_keys: BTreeMap<ArIdentity, ElgSk<ArCurve>>,
}

/// Revoker identities: 1..n, or (large) values spread over the top of the u32 range.
const LARGE_IDS: [u32; 6] = [u32::MAX, (1 << 31) + 1, u32::MAX - 1, (1 << 22) + 5, 1 << 31, 3_000_000_019];
fn ar_id(i: usize, large: bool) -> ArIdentity {
    if large {
        ArIdentity::new(LARGE_IDS[i])
    } else {
        ArIdentity::new(i as u32 + 1)
    }
}

fn setup(seed: u64, n: u8, global: &GlobalContext<ArCurve>) -> Setup { setup_ids(seed, n, global, false) }

fn setup_ids(seed: u64, n: u8, global: &GlobalContext<ArCurve>, large: bool) -> Setup {
    let mut r = rng(seed, 8000 + n as u64);
    let ip = test_create_ip_info(&mut r, n, 20);
    let (ars, ar_keys) = test_create_ars(&global.on_chain_commitment_key.g, n, &mut r);
    if !large {
        return Setup { global: global.clone(), ip, ars, ar_keys };
    }
    // the same revokers under other identities
    let mut ars2 = BTreeMap::new();
    let mut keys2 = BTreeMap::new();
    for (i, (id, mut info)) in ars.into_iter().enumerate() {
        let nid = ar_id(i, true);
        info.ar_identity = nid;
        keys2.insert(nid, ar_keys[&id].clone());
        ars2.insert(nid, info);
    }
    Setup { global: global.clone(), ip, ars: ars2, ar_keys: keys2 }
}

fn policy_of(alist: &AList, tags: &[u8]) -> Policy<ArCurve, AttributeKind> {
    let mut pv = BTreeMap::new();
    for t in tags {
        if let Some(v) = alist.alist.get(&AttributeTag::from(*t)) {
            pv.insert(AttributeTag::from(*t), v.clone());
        }
    }
    Policy { valid_to: alist.valid_to, created_at: alist.created_at, policy_vec: pv, _phantom: Default::default() }
}

fn check_cdi(s: &Setup, cdi: &Cdi, noe: &Either<TransactionTime, AccountAddress>) -> bool { verify_cdi(&s.global, &s.ip.public_ip_info, &s.ars, cdi, noe).is_ok() }

/// One configuration: n revokers, threshold t, identity object version.
fn config(report: &Report, cli: &Cli, global: &GlobalContext<ArCurve>, n: u8, t: u8, v1: bool, table: &BabyStepGiantStep<ArCurve>, with_prf: bool, large: bool) {
    let mut base = json!({"revokers": n, "threshold": t, "identity_object_version": if v1 { 1 } else { 0 }});
    if large {
        base["revoker_identities"] = json!(LARGE_IDS[..n as usize]);
    }
    let s = setup_ids(cli.seed, n, global, large);
    let id_use = test_create_id_use_data(&mut rng(cli.seed, 8200));
    let ctx = IpContext::new(&s.ip.public_ip_info, &s.ars, &s.global);
    let threshold = Threshold::try_from(t).unwrap();
    let alists = attribute_lists();
    let initial = InitialAccountData { keys: cred_data(cli.seed, 2, 1).keys, threshold: SignatureThreshold::ONE };

    // ---- issuance --------------------------------------------------------------------
    enum IdObj {
        V0(IdentityObject<IpPairing, ArCurve, AttributeKind>),
        V1(IdentityObjectV1<IpPairing, ArCurve, AttributeKind>),
    }
    let mut id_objects: Vec<(&'static str, IdObj)> = vec![];
    let mut ok = true;
    case(report, { let mut w = base.clone(); w["step"] = json!("issuance"); w }, || {
        if v1 {
            let (pio, _) = generate_pio_v1_with_rng(&ctx, threshold, &id_use, &mut rng(cli.seed, 8201)).ok_or(("request-not-producible".to_string(), json!({})))?;
            report.trace(1);
            if validate_request_v1(&pio, ctx).is_err() {
                return fail("valid-identity-request-rejected", json!({}));
            }
            // request tampering
            let mut bad = pio.clone();
            bad.choice_ar_parameters.threshold = Threshold::try_from(if t == 1 { 2 } else { t - 1 }).unwrap();
            if validate_request_v1(&bad, ctx).is_ok() {
                return fail("altered-identity-request-accepted", json!({"what": "threshold"}));
            }
            let mut bad = pio.clone();
            bad.id_cred_pub = bad.id_cred_pub.double_point();
            if validate_request_v1(&bad, ctx).is_ok() {
                return fail("altered-identity-request-accepted", json!({"what": "id_cred_pub"}));
            }
            let mut bad = pio.clone();
            bad.cmm_prf = concordium_base::pedersen_commitment::Commitment(bad.cmm_prf.0.double_point());
            if validate_request_v1(&bad, ctx).is_ok() {
                return fail("altered-identity-request-accepted", json!({"what": "cmm_prf"}));
            }
            for (name, alist) in &alists {
                let sig = verify_credentials_v1(&pio, ctx, alist, &s.ip.ip_secret_key).map_err(|e| ("valid-identity-request-rejected".to_string(), json!(format!("{e:?}"))))?;
                id_objects.push((name, IdObj::V1(IdentityObjectV1 { pre_identity_object: pio.clone(), alist: alist.clone(), signature: sig })));
            }
        } else {
            let (pio, _) = generate_pio(&ctx, threshold, &id_use, &initial).ok_or(("request-not-producible".to_string(), json!({})))?;
            report.trace(1);
            if validate_request(&pio, ctx).is_err() {
                return fail("valid-identity-request-rejected", json!({}));
            }
            let mut bad = pio.clone();
            bad.choice_ar_parameters.threshold = Threshold::try_from(if t == 1 { 2 } else { t - 1 }).unwrap();
            if validate_request(&bad, ctx).is_ok() {
                return fail("altered-identity-request-accepted", json!({"what": "threshold"}));
            }
            let mut bad = pio.clone();
            bad.cmm_prf = concordium_base::pedersen_commitment::Commitment(bad.cmm_prf.0.double_point());
            if validate_request(&bad, ctx).is_ok() {
                return fail("altered-identity-request-accepted", json!({"what": "cmm_prf"}));
            }
            if n >= 2 {
                let mut bad = pio.clone();
                let a = ar_id(0, large);
                let b = ar_id(1, large);
                let xa = bad.ip_ar_data.get(&a).cloned();
                let xb = bad.ip_ar_data.get(&b).cloned();
                if let (Some(xa), Some(xb)) = (xa, xb) {
                    bad.ip_ar_data.insert(a, xb);
                    bad.ip_ar_data.insert(b, xa);
                    if validate_request(&bad, ctx).is_ok() {
                        return fail("altered-identity-request-accepted", json!({"what": "revoker data swapped"}));
                    }
                }
            }
            for (name, alist) in &alists {
                let (sig, _icdi) = verify_credentials(&pio, ctx, alist, EXPIRY, &s.ip.ip_secret_key, &s.ip.ip_cdi_secret_key)
                    .map_err(|e| ("valid-identity-request-rejected".to_string(), json!(format!("{e:?}"))))?;
                id_objects.push((name, IdObj::V0(IdentityObject { pre_identity_object: pio.clone(), alist: alist.clone(), signature: sig })));
            }
            // PRF key revocation from the request's encrypted shares
            if with_prf {
                let prf_key = to_bytes(&id_use.aci.prf_key);
                for subset in subsets(n as usize) {
                    if subset.len() + 1 < t as usize || subset.is_empty() {
                        continue;
                    }
                    let shares: Vec<(ArIdentity, Value<ArCurve>)> = subset
                        .iter()
                        .map(|i| {
                            let id = ar_id(*i, large);
                            let d = &pio.ip_ar_data[&id];
                            (id, decrypt_from_chunks_given_table(&s.ar_keys[&id], &d.enc_prf_key_share, table, CHUNK_SIZE))
                        })
                        .collect();
                    let revealed = reveal_prf_key(&shares);
                    report.trace(1);
                    let same = to_bytes(&revealed) == prf_key;
                    if subset.len() >= t as usize && !same {
                        return fail("threshold-revokers-do-not-reveal-prf-key", json!({"subset": subset}));
                    }
                    if subset.len() + 1 == t as usize && same {
                        return fail("too-few-revokers-reveal-prf-key", json!({"subset": subset}));
                    }
                }
            }
        }
        Ok(())
    });
    if id_objects.is_empty() {
        ok = false;
    }
    if !ok {
        return;
    }
    let id_cred_pub = s.global.on_chain_commitment_key.g.mul_by_scalar(&id_use.aci.cred_holder_info.id_cred.id_cred_sec);
    let mk = |obj: &IdObj, counter: u8, policy: Policy<ArCurve, AttributeKind>, cd: &CredentialData, noe: &Either<TransactionTime, AccountAddress>| -> anyhow::Result<Cdi> {
        match obj {
            IdObj::V0(o) => create_credential(ctx, o, &id_use, counter, policy, cd, &SystemAttributeRandomness {}, noe).map(|x| x.0),
            IdObj::V1(o) => create_credential(ctx, o, &id_use, counter, policy, cd, &SystemAttributeRandomness {}, noe).map(|x| x.0),
        }
    };
    let new_acc: Either<TransactionTime, AccountAddress> = Left(EXPIRY);
    let existing: Either<TransactionTime, AccountAddress> = Right(AccountAddress([7u8; 32]));

    // ---- credentials: counters x account kind (first attribute list), policies, key sets ---
    let (_, obj0) = &id_objects[0];
    let alist0 = &alists[0].1;
    let max = alist0.max_accounts;
    let mut cred_cases: Vec<(String, usize, u8, Vec<u8>, (u8, u8), bool)> = vec![];
    for counter in [0u8, 1, max.saturating_sub(1), max, max + 1] {
        for existing_acc in [false, true] {
            cred_cases.push((format!("counter={counter} existing={existing_acc}"), 0, counter, vec![8], (2, 2), existing_acc));
        }
    }
    // every subset of the three tags as revealed policy
    for mask in 0u8..8 {
        let tags: Vec<u8> = [0u8, 3, 8].iter().enumerate().filter(|(i, _)| mask >> i & 1 == 1).map(|(_, t)| *t).collect();
        cred_cases.push((format!("policy={tags:?}"), 0, 0, tags, (1, 1), false));
    }
    for (nk, th) in [(1u8, 1u8), (2, 1), (3, 1), (3, 2), (3, 3)] {
        cred_cases.push((format!("keys={nk} threshold={th}"), 0, 1, vec![], (nk, th), true));
    }
    // other attribute lists
    for (i, (name, al)) in alists.iter().enumerate().skip(1) {
        let tags: Vec<u8> = al.alist.keys().take(2).map(|t| t.0).collect();
        cred_cases.push((format!("alist={name}"), i, 0, tags, (1, 1), false));
        if al.max_accounts < 255 {
            cred_cases.push((format!("alist={name} counter=max+1"), i, al.max_accounts + 1, vec![], (1, 1), false));
        }
    }
    let first_valid: std::sync::Mutex<Option<Cdi>> = std::sync::Mutex::new(None);
    cred_cases.iter().for_each(|(label, ai, counter, tags, (nk, th), existing_acc)| {
        let mut w = base.clone();
        w["credential"] = json!(label);
        case(report, w, || {
            let obj = &id_objects[*ai].1;
            let al = &alists[*ai].1;
            let noe = if *existing_acc { &existing } else { &new_acc };
            let cd = cred_data(cli.seed + 1, *nk, *th);
            let res = mk(obj, *counter, policy_of(al, tags), &cd, noe);
            report.trace(1);
            let within = *counter <= al.max_accounts;
            match res {
                Err(e) => {
                    if within {
                        return fail("valid-credential-not-producible", json!(format!("{e:#}")));
                    }
                }
                Ok(cdi) => {
                    let okv = check_cdi(&s, &cdi, noe);
                    if okv != within {
                        return fail(if within { "valid-credential-rejected" } else { "credential-beyond-account-limit-accepted" }, json!({}));
                    }
                    if within {
                        // the other account kind / another address must not verify
                        let other = if *existing_acc { &new_acc } else { &existing };
                        if check_cdi(&s, &cdi, other) {
                            return fail("credential-verifies-for-other-account", json!({}));
                        }
                        // revealed attributes are exactly those of the identity object
                        for (tag, v) in cdi.values.policy.policy_vec.iter() {
                            if al.alist.get(tag) != Some(v) {
                                return fail("revealed-attribute-differs", json!({}));
                            }
                        }
                        // round trip
                        let b = to_bytes(&cdi);
                        let back: Cdi = from_bytes(&mut &b[..]).map_err(|e| ("credential-does-not-decode".to_string(), json!(format!("{e:#}"))))?;
                        if to_bytes(&back) != b || !check_cdi(&s, &back, noe) {
                            return fail("credential-round-trip", json!({}));
                        }
                        // account ownership: every key of the credential must have signed,
                        // whatever the signature threshold of the credential is
                        let nkeys = cdi.proofs.proof_acc_sk.sigs.len();
                        let idxs: Vec<KeyIndex> = cdi.proofs.proof_acc_sk.sigs.keys().copied().collect();
                        for (pos, k) in idxs.iter().enumerate() {
                            let mut x = cdi.clone();
                            x.proofs.proof_acc_sk.sigs.remove(k);
                            report.trace(1);
                            if check_cdi(&s, &x, noe) {
                                return fail("altered-credential-verifies", json!({"what": format!("ownership signature of key {} removed", k.0)}));
                            }
                            if nkeys >= 2 {
                                let other = cdi.proofs.proof_acc_sk.sigs[&idxs[(pos + 1) % nkeys]].clone();
                                let mut x = cdi.clone();
                                x.proofs.proof_acc_sk.sigs.insert(*k, other);
                                report.trace(1);
                                if check_cdi(&s, &x, noe) {
                                    return fail("altered-credential-verifies", json!({"what": format!("ownership signature of key {} replaced by that of another key", k.0)}));
                                }
                            }
                            // the same key's signature over another credential
                            let other_cd = mk(obj, counter.wrapping_add(1) % al.max_accounts.max(1), policy_of(al, tags), &cd, noe);
                            if let Ok(oc) = other_cd {
                                if oc.values.cred_id != cdi.values.cred_id {
                                    let mut x = cdi.clone();
                                    x.proofs.proof_acc_sk.sigs.insert(*k, oc.proofs.proof_acc_sk.sigs[k].clone());
                                    report.trace(1);
                                    if check_cdi(&s, &x, noe) {
                                        return fail("altered-credential-verifies", json!({"what": format!("ownership signature of key {} taken from another credential", k.0)}));
                                    }
                                }
                            }
                        }
                        {
                            // a signature under a key index the credential does not have
                            let mut x = cdi.clone();
                            let any = x.proofs.proof_acc_sk.sigs.values().next().unwrap().clone();
                            x.proofs.proof_acc_sk.sigs.insert(KeyIndex(200), any);
                            report.trace(1);
                            if check_cdi(&s, &x, noe) {
                                return fail("altered-credential-verifies", json!({"what": "ownership signature under an unknown key index added"}));
                            }
                        }
                        // anonymity revocation: every subset of revokers
                        for subset in subsets(n as usize) {
                            if subset.is_empty() || subset.len() + 1 < t as usize {
                                continue;
                            }
                            let shares: Vec<(ArIdentity, Message<ArCurve>)> = subset
                                .iter()
                                .map(|i| {
                                    let id = ar_id(*i, large);
                                    (id, s.ar_keys[&id].decrypt(&cdi.values.ar_data[&id].enc_id_cred_pub_share))
                                })
                                .collect();
                            let revealed = reveal_id_cred_pub(&shares);
                            report.trace(1);
                            if subset.len() >= t as usize && revealed != id_cred_pub {
                                return fail("threshold-revokers-do-not-reveal-identity", json!({"subset": subset}));
                            }
                            if subset.len() + 1 == t as usize && revealed == id_cred_pub {
                                return fail("too-few-revokers-reveal-identity", json!({"subset": subset}));
                            }
                        }
                        let mut fv = first_valid.lock().unwrap();
                        if fv.is_none() && !*existing_acc && *counter == 0 && tags == &vec![8u8] {
                            *fv = Some(cdi);
                        }
                    }
                }
            }
            Ok(())
        });
    });
    let _ = obj0;

    // ---- perturbations of one credential ---------------------------------------------------
    let Some(cdi) = first_valid.lock().unwrap().clone() else { return };
    let cd = cred_data(cli.seed + 1, 2, 2);
    // a second valid credential from the same identity (counter 1) and one from another identity
    let other_same = mk(&id_objects[0].1, 1, policy_of(alist0, &[8]), &cd, &new_acc);
    let Ok(o) = other_same else { return };
    type Mutation = (String, Box<dyn Fn(&mut Cdi) + Sync + Send>);
    let mut muts: Vec<Mutation> = vec![];
    macro_rules! m {
        ($label:expr, $f:expr) => {
            muts.push(($label.to_string(), Box::new($f)));
        };
    }
    {
        let o = o.clone();
        m!("cred_id of another credential", move |x: &mut Cdi| x.values.cred_id = o.values.cred_id);
    }
    m!("threshold+1", |x: &mut Cdi| x.values.threshold = Threshold::try_from(u8::from(x.values.threshold) + 1).unwrap());
    if t > 1 {
        m!("threshold-1", |x: &mut Cdi| x.values.threshold = Threshold::try_from(u8::from(x.values.threshold) - 1).unwrap());
    }
    m!("ip_identity changed", |x: &mut Cdi| x.values.ip_identity = IpIdentity(x.values.ip_identity.0 + 1));
    {
        let o = o.clone();
        m!("ar_data[1] of another credential", move |x: &mut Cdi| {
            x.values.ar_data.insert(ar_id(0, large), o.values.ar_data[&ar_id(0, large)].clone());
        });
    }
    if n >= 2 {
        m!("ar_data 1 and 2 swapped", move |x: &mut Cdi| {
            let a = x.values.ar_data[&ar_id(0, large)].clone();
            let b = x.values.ar_data[&ar_id(1, large)].clone();
            x.values.ar_data.insert(ar_id(0, large), b);
            x.values.ar_data.insert(ar_id(1, large), a);
        });
        m!("ar_data entry removed", move |x: &mut Cdi| {
            x.values.ar_data.remove(&ar_id(1, large));
        });
    }
    m!("policy value changed", |x: &mut Cdi| {
        x.values.policy.policy_vec.insert(AttributeTag::from(8u8), AttributeKind::try_new("other".into()).unwrap());
    });
    m!("policy item removed", |x: &mut Cdi| {
        x.values.policy.policy_vec.clear();
    });
    m!("policy item added", |x: &mut Cdi| {
        x.values.policy.policy_vec.insert(AttributeTag::from(0u8), AttributeKind::try_new("v0".into()).unwrap());
    });
    m!("policy valid_to changed", |x: &mut Cdi| x.values.policy.valid_to = ym(2031, 5));
    m!("policy created_at changed", |x: &mut Cdi| x.values.policy.created_at = ym(2019, 5));
    m!("credential key replaced", |x: &mut Cdi| {
        let kp = KeyPair::generate(&mut rng(99, 8300));
        x.values.cred_key_info.keys.insert(KeyIndex(0), VerifyKey::from(kp.public()));
    });
    m!("credential key threshold lowered", |x: &mut Cdi| x.values.cred_key_info.threshold = SignatureThreshold::ONE);
    {
        let o = o.clone();
        m!("blinded signature of another credential", move |x: &mut Cdi| x.proofs.id_proofs.sig = o.proofs.id_proofs.sig.clone());
    }
    {
        let o = o.clone();
        m!("cmm_prf of another credential", move |x: &mut Cdi| x.proofs.id_proofs.commitments.cmm_prf = o.proofs.id_proofs.commitments.cmm_prf);
    }
    {
        let o = o.clone();
        m!("cmm_cred_counter of another credential", move |x: &mut Cdi| x.proofs.id_proofs.commitments.cmm_cred_counter = o.proofs.id_proofs.commitments.cmm_cred_counter);
    }
    {
        let o = o.clone();
        m!("cmm_max_accounts of another credential", move |x: &mut Cdi| x.proofs.id_proofs.commitments.cmm_max_accounts = o.proofs.id_proofs.commitments.cmm_max_accounts);
    }
    {
        let o = o.clone();
        m!("attribute commitment of another credential", move |x: &mut Cdi| {
            if let Some((k, v)) = o.proofs.id_proofs.commitments.cmm_attributes.iter().next() {
                x.proofs.id_proofs.commitments.cmm_attributes.insert(*k, *v);
            }
        });
    }
    m!("attribute commitment removed", |x: &mut Cdi| {
        let k = x.proofs.id_proofs.commitments.cmm_attributes.keys().next().copied();
        if let Some(k) = k {
            x.proofs.id_proofs.commitments.cmm_attributes.remove(&k);
        }
    });
    {
        let o = o.clone();
        m!("sharing coefficient commitment of another credential", move |x: &mut Cdi| {
            x.proofs.id_proofs.commitments.cmm_id_cred_sec_sharing_coeff[0] = o.proofs.id_proofs.commitments.cmm_id_cred_sec_sharing_coeff[0];
        });
    }
    {
        let o = o.clone();
        m!("challenge of another credential", move |x: &mut Cdi| x.proofs.id_proofs.challenge = o.proofs.id_proofs.challenge.clone());
    }
    {
        let o = o.clone();
        m!("proof_id_cred_pub[1] of another credential", move |x: &mut Cdi| {
            x.proofs.id_proofs.proof_id_cred_pub.insert(ar_id(0, large), o.proofs.id_proofs.proof_id_cred_pub[&ar_id(0, large)].clone());
        });
    }
    {
        let o = o.clone();
        m!("proof_ip_sig of another credential", move |x: &mut Cdi| x.proofs.id_proofs.proof_ip_sig = o.proofs.id_proofs.proof_ip_sig.clone());
    }
    {
        let o = o.clone();
        m!("proof_reg_id of another credential", move |x: &mut Cdi| x.proofs.id_proofs.proof_reg_id = o.proofs.id_proofs.proof_reg_id.clone());
    }
    {
        let o = o.clone();
        m!("range proof of another credential", move |x: &mut Cdi| x.proofs.id_proofs.cred_counter_less_than_max_accounts = o.proofs.id_proofs.cred_counter_less_than_max_accounts.clone());
    }
    m!("account signature removed", |x: &mut Cdi| {
        x.proofs.proof_acc_sk.sigs.remove(&KeyIndex(1));
    });
    {
        let o = o.clone();
        m!("account signatures of another credential", move |x: &mut Cdi| x.proofs.proof_acc_sk = o.proofs.proof_acc_sk.clone());
    }
    muts.par_iter().for_each(|(label, f)| {
        let mut w = base.clone();
        w["perturbation"] = json!(label);
        case(report, w, || {
            let mut x = cdi.clone();
            f(&mut x);
            report.trace(1);
            if to_bytes(&x) != to_bytes(&cdi) && check_cdi(&s, &x, &new_acc) {
                return fail("altered-credential-verifies", json!({"what": label}));
            }
            Ok(())
        });
    });
    // verification context
    let s2 = setup_ids(cli.seed + 5, n, global, large);
    let ctx_cases: Vec<(&str, Box<dyn Fn() -> bool + Sync + Send>)> = vec![
        ("other identity provider key", Box::new(|| verify_cdi(&s.global, &s2.ip.public_ip_info, &s.ars, &cdi, &new_acc).is_ok())),
        ("other revoker keys", Box::new(|| verify_cdi(&s.global, &s.ip.public_ip_info, &s2.ars, &cdi, &new_acc).is_ok())),
        ("other expiry", Box::new(|| verify_cdi(&s.global, &s.ip.public_ip_info, &s.ars, &cdi, &Left(TransactionTime { seconds: 5 })).is_ok())),
        ("other global context", Box::new(|| {
            let g2 = GlobalContext::<ArCurve>::generate_size("other".into(), 256);
            verify_cdi(&g2, &s.ip.public_ip_info, &s.ars, &cdi, &new_acc).is_ok()
        })),
        ("one revoker key replaced", Box::new(|| {
            let mut ars = s.ars.clone();
            let other = s2.ars[&ar_id(0, large)].clone();
            ars.insert(ar_id(0, large), other);
            verify_cdi(&s.global, &s.ip.public_ip_info, &ars, &cdi, &new_acc).is_ok()
        })),
    ];
    ctx_cases.par_iter().for_each(|(label, f)| {
        let mut w = base.clone();
        w["context_perturbation"] = json!(label);
        case(report, w, || {
            report.trace(1);
            if f() {
                return fail("credential-verifies-in-altered-context", json!({"what": label}));
            }
            Ok(())
        });
    });
    // every bit of the serialised proofs (thorough only; quick: every 11th bit)
    let pb = to_bytes(&cdi.proofs);
    let vb = to_bytes(&cdi.values);
    let stride = if cli.tier == Tier::Quick { 11 } else { 1 };
    // counted parts of the proofs (sharing-coefficient commitments, per-revoker responses, rounds
    // of the range proof) added / removed
    let edits = count_field_edits(&pb);
    edits.par_iter().enumerate().filter(|(i, _)| cli.tier != Tier::Quick || i % 4 == 0).for_each(|(_, (what, eb))| {
        let mut w = base.clone();
        w["proofs_structural_edit"] = json!(what);
        case(report, w, || {
            let mut all = vb.clone();
            all.extend_from_slice(eb);
            if let Ok(x) = from_bytes::<Cdi, _>(&mut &all[..]) {
                report.trace(1);
                if to_bytes(&x.proofs) != pb && check_cdi(&s, &x, &new_acc) {
                    return fail("altered-credential-verifies", json!({"what": what}));
                }
            }
            Ok(())
        });
    });
    (0..pb.len() * 8).into_par_iter().filter(|b| b % stride == 0).for_each(|bit| {
        let mut w = base.clone();
        w["proofs_bit_flip"] = json!(bit);
        case(report, w, || {
            let mut all = vb.clone();
            all.extend_from_slice(&flip(&pb, bit));
            if let Ok(x) = from_bytes::<Cdi, _>(&mut &all[..]) {
                report.trace(1);
                if check_cdi(&s, &x, &new_acc) {
                    return fail("altered-credential-verifies", json!({"what": "bit flip in proofs"}));
                }
            }
            Ok(())
        });
    });
}

/// Initial-account credentials, identity recovery requests and account-ownership proofs.
fn extras(report: &Report, cli: &Cli, global: &GlobalContext<ArCurve>) {
    use concordium_base::id::{account_holder::generate_id_recovery_request, chain::verify_initial_cdi, id_prover::prove_ownership_of_account, id_verifier::verify_account_ownership, identity_provider::validate_id_recovery_request};
    let s = setup(cli.seed, 2, global);
    let s_other = setup(cli.seed + 1, 2, global);
    let ctx = IpContext::new(&s.ip.public_ip_info, &s.ars, &s.global);
    let id_use = test_create_id_use_data(&mut rng(cli.seed, 8900));
    // ---- initial-account credential (issued by the identity provider with a v0 identity) ----
    for (nkeys, thr) in [(1u8, 1u8), (2, 1), (2, 2), (3, 2)] {
        let cd = cred_data(cli.seed + 30, nkeys, thr);
        let initial = InitialAccountData { keys: cd.keys.clone(), threshold: cd.threshold };
        let w = json!({"initial_credential": {"keys": nkeys, "threshold": thr}});
        case(report, w.clone(), || {
            let (pio, _) = generate_pio(&ctx, Threshold::try_from(2u8).unwrap(), &id_use, &initial).ok_or(("request-not-producible".to_string(), json!({})))?;
            let alist = &attribute_lists()[0].1;
            let (_, icdi) = verify_credentials(&pio, ctx, alist, EXPIRY, &s.ip.ip_secret_key, &s.ip.ip_cdi_secret_key).map_err(|e| ("valid-identity-request-rejected".to_string(), json!(format!("{e:?}"))))?;
            report.trace(1);
            if verify_initial_cdi(&s.ip.public_ip_info, &icdi, EXPIRY).is_err() {
                return fail("valid-initial-credential-rejected", json!({}));
            }
            let reject = |what: &str, ok: bool| -> Result<(), (String, serde_json::Value)> {
                report.trace(1);
                if ok {
                    return fail("altered-initial-credential-verifies", json!({"what": what}));
                }
                Ok(())
            };
            reject("other expiry", verify_initial_cdi(&s.ip.public_ip_info, &icdi, TransactionTime { seconds: EXPIRY.seconds + 1 }).is_ok())?;
            reject("other identity provider", verify_initial_cdi(&s_other.ip.public_ip_info, &icdi, EXPIRY).is_ok())?;
            let mut x = icdi.clone();
            x.values.reg_id = x.values.reg_id.double_point();
            reject("registration id doubled", verify_initial_cdi(&s.ip.public_ip_info, &x, EXPIRY).is_ok())?;
            let mut x = icdi.clone();
            x.values.ip_identity = IpIdentity(x.values.ip_identity.0 + 1);
            reject("identity provider id + 1", verify_initial_cdi(&s.ip.public_ip_info, &x, EXPIRY).is_ok())?;
            let mut x = icdi.clone();
            x.values.policy.valid_to = ym(2099, 1);
            reject("policy valid_to", verify_initial_cdi(&s.ip.public_ip_info, &x, EXPIRY).is_ok())?;
            let mut x = icdi.clone();
            let k0 = *x.values.cred_account.keys.keys().next().unwrap();
            x.values.cred_account.keys.insert(k0, VerifyKey::from(KeyPair::generate(&mut rng(cli.seed, 8910)).public()));
            reject("account key replaced", verify_initial_cdi(&s.ip.public_ip_info, &x, EXPIRY).is_ok())?;
            // every bit of the serialised initial credential
            let b = to_bytes(&icdi);
            for bit in 0..b.len() * 8 {
                if let Ok(y) = from_bytes::<InitialCredentialDeploymentInfo<ArCurve, AttributeKind>, _>(&mut &flip(&b, bit)[..]) {
                    report.trace(1);
                    if to_bytes(&y) != b && verify_initial_cdi(&s.ip.public_ip_info, &y, EXPIRY).is_ok() {
                        return fail("altered-initial-credential-verifies", json!({"bit": bit}));
                    }
                }
            }
            Ok(())
        });
    }
    // ---- identity recovery request ------------------------------------------------------------
    for ts in [0u64, 1, 1_700_000_000, u64::MAX] {
        case(report, json!({"recovery_request": {"timestamp": ts.to_string()}}), || {
            let req = generate_id_recovery_request(&s.ip.public_ip_info, &s.global, &id_use.aci.cred_holder_info.id_cred.id_cred_sec, ts).ok_or(("request-not-producible".to_string(), json!({})))?;
            report.trace(1);
            if !validate_id_recovery_request(&s.ip.public_ip_info, &s.global, &req) {
                return fail("valid-recovery-request-rejected", json!({}));
            }
            let b = to_bytes(&req);
            let again: IdRecoveryRequest<ArCurve> = from_bytes(&mut &b[..]).map_err(|e| ("request-does-not-decode".to_string(), json!(format!("{e:#}"))))?;
            if to_bytes(&again) != b {
                return fail("request-round-trip-differs", json!({}));
            }
            let reject = |what: &str, ok: bool| -> Result<(), (String, serde_json::Value)> {
                report.trace(1);
                if ok {
                    return fail("altered-recovery-request-accepted", json!({"what": what}));
                }
                Ok(())
            };
            reject("other identity provider", validate_id_recovery_request(&s_other.ip.public_ip_info, &s.global, &req))?;
            reject("other global context", validate_id_recovery_request(&s.ip.public_ip_info, &GlobalContext::<ArCurve>::generate_size("another".into(), 256), &req))?;
            let mut x: IdRecoveryRequest<ArCurve> = from_bytes(&mut &b[..]).unwrap();
            x.timestamp = ts.wrapping_add(1);
            reject("timestamp + 1", validate_id_recovery_request(&s.ip.public_ip_info, &s.global, &x))?;
            let mut x: IdRecoveryRequest<ArCurve> = from_bytes(&mut &b[..]).unwrap();
            x.id_cred_pub = x.id_cred_pub.double_point();
            reject("idCredPub doubled", validate_id_recovery_request(&s.ip.public_ip_info, &s.global, &x))?;
            for bit in 0..b.len() * 8 {
                if let Ok(y) = from_bytes::<IdRecoveryRequest<ArCurve>, _>(&mut &flip(&b, bit)[..]) {
                    report.trace(1);
                    if to_bytes(&y) != b && validate_id_recovery_request(&s.ip.public_ip_info, &s.global, &y) {
                        return fail("altered-recovery-request-accepted", json!({"bit": bit}));
                    }
                }
            }
            Ok(())
        });
    }
    // ---- the identity provider supports more revokers than the holder chose ----------------------
    // request under the chosen subset; credential created and verified under contexts that list all
    // supported revokers (what a wallet and the chain have): accepted, shares for exactly the chosen
    // ones, every threshold-many of them reveal idCredPub
    {
        let s5 = setup(cli.seed + 9, 5, global);
        let all_ids: Vec<ArIdentity> = s5.ars.keys().copied().collect();
        for (chosen_ix, thr, v1, wallet_superset) in [(vec![0usize, 2, 3], 2u8, true, true), (vec![1], 1, true, true), (vec![0, 1, 2, 3, 4], 3, true, true), (vec![0, 2, 3], 3, false, true), (vec![1, 4], 2, false, true), (vec![0, 2, 3], 2, true, false)] {
            let chosen: BTreeMap<ArIdentity, ArInfo<ArCurve>> = chosen_ix.iter().map(|i| (all_ids[*i], s5.ars[&all_ids[*i]].clone())).collect();
            let w = json!({"superset_context": {"supported_revokers": 5, "chosen": chosen_ix, "threshold": thr, "identity_object_version": if v1 { 1 } else { 0 }, "wallet_context_lists_all": wallet_superset}});
            case(report, w, || {
                let ctx_req = IpContext::new(&s5.ip.public_ip_info, &chosen, &s5.global);
                let ctx_all = IpContext::new(&s5.ip.public_ip_info, &s5.ars, &s5.global);
                let threshold = Threshold::try_from(thr).unwrap();
                let alist = &attribute_lists()[0].1;
                let id_use = test_create_id_use_data(&mut rng(cli.seed, 8950));
                let cd = cred_data(cli.seed + 50, 2, 1);
                let initial = InitialAccountData { keys: cd.keys.clone(), threshold: cd.threshold };
                let wallet_ctx = if wallet_superset { ctx_all } else { ctx_req };
                let noe: Either<TransactionTime, AccountAddress> = Left(EXPIRY);
                let cdi: Cdi = if v1 {
                    let (pio, _) = generate_pio_v1_with_rng(&ctx_req, threshold, &id_use, &mut rng(cli.seed, 8951)).ok_or(("request-not-producible".to_string(), json!({})))?;
                    // the provider validates and signs under everything it supports
                    let sig = verify_credentials_v1(&pio, ctx_all, alist, &s5.ip.ip_secret_key).map_err(|e| ("valid-identity-request-rejected".to_string(), json!(format!("{e:?}"))))?;
                    let ido = IdentityObjectV1 { pre_identity_object: pio, alist: alist.clone(), signature: sig };
                    create_credential(wallet_ctx, &ido, &id_use, 1, policy_of(alist, &[]), &cd, &SystemAttributeRandomness {}, &noe).map_err(|e| ("valid-credential-not-producible".to_string(), json!(format!("{e:#}"))))?.0
                } else {
                    let (pio, _) = generate_pio(&ctx_req, threshold, &id_use, &initial).ok_or(("request-not-producible".to_string(), json!({})))?;
                    let (sig, _) = verify_credentials(&pio, ctx_all, alist, EXPIRY, &s5.ip.ip_secret_key, &s5.ip.ip_cdi_secret_key).map_err(|e| ("valid-identity-request-rejected".to_string(), json!(format!("{e:?}"))))?;
                    let ido = IdentityObject { pre_identity_object: pio, alist: alist.clone(), signature: sig };
                    create_credential(wallet_ctx, &ido, &id_use, 1, policy_of(alist, &[]), &cd, &SystemAttributeRandomness {}, &noe).map_err(|e| ("valid-credential-not-producible".to_string(), json!(format!("{e:#}"))))?.0
                };
                report.trace(1);
                if verify_cdi(&s5.global, &s5.ip.public_ip_info, &s5.ars, &cdi, &noe).is_err() {
                    return fail("valid-credential-rejected", json!({"shares_for": cdi.values.ar_data.keys().map(|k| format!("{k}")).collect::<Vec<_>>()}));
                }
                if cdi.values.ar_data.keys().copied().collect::<Vec<_>>() != chosen.keys().copied().collect::<Vec<_>>() {
                    return fail("credential-carries-shares-for-other-revokers", json!({}));
                }
                // every threshold-many chosen revokers reveal idCredPub
                let id_cred_pub = s5.global.on_chain_commitment_key.g.mul_by_scalar(&id_use.aci.cred_holder_info.id_cred.id_cred_sec);
                for subset in subsets(chosen_ix.len()) {
                    if subset.len() != thr as usize {
                        continue;
                    }
                    let shares: Vec<(ArIdentity, Message<ArCurve>)> = subset.iter().map(|i| { let id = all_ids[chosen_ix[*i]]; (id, s5.ar_keys[&id].decrypt(&cdi.values.ar_data[&id].enc_id_cred_pub_share)) }).collect();
                    report.trace(1);
                    if reveal_id_cred_pub(&shares) != id_cred_pub {
                        return fail("threshold-revokers-do-not-reveal-identity", json!({"subset": subset}));
                    }
                }
                Ok(())
            });
        }
    }
    // ---- account-ownership proofs: the threshold policy over the credential's keys --------------
    let account = AccountAddress([7u8; 32]);
    for nkeys in 1..=3u8 {
        for thr in 1..=nkeys {
            let cd = cred_data(cli.seed + 40, nkeys, thr);
            let public = CredentialPublicKeys { keys: cd.keys.iter().map(|(k, kp)| (*k, VerifyKey::from(kp.public()))).collect(), threshold: cd.threshold };
            // every subset of the keys signs
            for subset in subsets(nkeys as usize) {
                let w = json!({"account_ownership": {"keys": nkeys, "threshold": thr, "signing": subset}});
                case(report, w, || {
                    let part = CredentialData { keys: cd.keys.iter().enumerate().filter(|(i, _)| subset.contains(i)).map(|(_, (k, kp))| (*k, kp.clone())).collect(), threshold: cd.threshold };
                    let proof = prove_ownership_of_account(&part, account, b"challenge");
                    // documented: a signature by every key of the credential ("the same number of proofs and
                    // keys"), of which there are at least threshold many
                    let want = subset.len() == nkeys as usize;
                    report.trace(1);
                    let got = verify_account_ownership(&public, account, b"challenge", &proof);
                    if got != want {
                        return fail(if want { "valid-ownership-proof-rejected" } else { "ownership-proof-without-all-keys-accepted" }, json!({"got": got}));
                    }
                    if want {
                        report.trace(3);
                        if verify_account_ownership(&public, AccountAddress([8u8; 32]), b"challenge", &proof) {
                            return fail("ownership-proof-verifies-for-other-account", json!({}));
                        }
                        if verify_account_ownership(&public, account, b"challengf", &proof) {
                            return fail("ownership-proof-verifies-for-other-challenge", json!({}));
                        }
                        let other = cred_data(cli.seed + 41, nkeys, thr);
                        let other_public = CredentialPublicKeys { keys: other.keys.iter().map(|(k, kp)| (*k, VerifyKey::from(kp.public()))).collect(), threshold: other.threshold };
                        if verify_account_ownership(&other_public, account, b"challenge", &proof) {
                            return fail("ownership-proof-verifies-for-other-keys", json!({}));
                        }
                        // a proof from keys that are not the credential's, under its indices
                        let foreign = prove_ownership_of_account(&CredentialData { keys: other.keys.clone(), threshold: other.threshold }, account, b"challenge");
                        if verify_account_ownership(&public, account, b"challenge", &foreign) {
                            return fail("ownership-proof-by-foreign-keys-accepted", json!({}));
                        }
                    }
                    Ok(())
                });
            }
        }
    }
}

pub fn run(cli: &Cli) -> ! {
    let report = Report::new(cli);
    let global = GlobalContext::<ArCurve>::generate_size("mc-crypto-c08".into(), 256);
    extras(&report, cli, &global);
    let table = BabyStepGiantStep::<ArCurve>::new(global.encryption_in_exponent_generator(), 1 << 16);
    let nmax = if cli.tier == Tier::Quick { 3 } else { 5 };
    let mut cfgs = vec![];
    for n in 1..=nmax {
        for t in 1..=n {
            for v1 in [false, true] {
                cfgs.push((n, t, v1));
            }
        }
    }
    cfgs.par_iter().for_each(|&(n, t, v1)| {
        // PRF-key revocation needs 8 x n chunk decryptions of up to 2^16 giant steps each: one
        // configuration in the quick tier, all of size <= 3 in the thorough tier
        let with_prf = !v1 && if cli.tier == Tier::Quick { n == 2 && t == 2 } else { n <= 3 };
        config(&report, cli, &global, n, t, v1, &table, with_prf, false);
    });
    // revokers with identities at the top of the u32 range: four and more revealing revokers
    let large_cfgs: Vec<(u8, u8, bool)> = if cli.tier == Tier::Quick { vec![(4, 2, true), (4, 4, false)] } else { vec![(4, 1, true), (4, 2, true), (4, 4, false), (5, 3, true), (5, 5, true), (6, 4, true)] };
    large_cfgs.par_iter().for_each(|&(n, t, v1)| config(&report, cli, &global, n, t, v1, &table, false, true));
    let n = report.evaluations.load(std::sync::atomic::Ordering::Relaxed);
    report.state(n);
    report.transition(report.traces.load(std::sync::atomic::Ordering::Relaxed));
    report.nontrivial(n);
    report.set_extra("configurations", json!(cfgs.len()));
    report.sample(json!({"revokers": 3, "threshold": 2, "identity_object_version": 0, "credential": "counter=4 existing=false", "expected": "not producible or rejected (max_accounts = 3)"}));
    report.sample(json!({"revokers": 3, "threshold": 2, "revocation_subset": [0, 2], "expected": "reveals idCredPub"}));
    report.set_technique("exhaustive enumeration of (revokers, threshold, identity-object version) configurations, per configuration all boundary counters x account kinds, all revealed-attribute subsets, key-set shapes and attribute lists, every subset of revokers for revocation, and the complete field-level perturbation list of a credential (each field replaced by the same field of a second valid credential, removed or swapped), verification-context perturbations and bit flips of the serialised proofs");
    report.set_rule("one case = one issuance, one credential configuration (with all revoker subsets), or one perturbation; valid configurations must verify, counters above max_accounts and every perturbation must not");
    report.assume("generate_pio / create_credential draw their own randomness (thread_rng); verdicts do not depend on it, replay re-runs the configuration");
    report.assume("soundness against a computing adversary is out of reach of enumeration");
    report.finish(true, json!({"max_revokers": nmax}));
}
