#![allow(deprecated)]
//! C07: sigma protocols are complete and bound to statement, context, challenge and
//! response; the transcript framing is injective.

use crate::util::*;
use concordium_base::{
    common::{from_bytes, to_bytes, Serial},
    curve_arithmetic::{multiexp, Curve, Field, Pairing},
    elgamal::{PublicKey as ElgPk, SecretKey as ElgSk},
    id::constants::{ArCurve, BlsG2, IpPairing},
    pedersen_commitment::{Commitment, CommitmentKey, Randomness, Value},
    ps_sig,
    random_oracle::{RandomOracle, TranscriptProtocol, TranscriptProtocolV1},
    sigma_protocols::{
        aggregate_dlog::AggregateDlog,
        com_enc_eq::{ComEncEq, ComEncEqSecret},
        com_eq::{ComEq, ComEqSecret},
        com_eq_different_groups::{ComEqDiffGroups, ComEqDiffGroupsSecret},
        com_eq_sig::{ComEqSig, ComEqSigSecret},
        com_ineq::{prove_com_ineq, verify_com_ineq},
        com_lin::{ComLin, ComLinSecret},
        com_mult::{ComMult, ComMultSecret},
        common::{prove, verify, AndAdapter, ReplicateAdapter, SigmaProof, SigmaProtocol},
        dlog::{Dlog, DlogSecret},
        enc_trans::{ElgDec, EncTrans, EncTransSecret},
        ps_sig_known::{PsSigKnown, PsSigMsg, PsSigWitness, PsSigWitnessMsg},
        vcom_eq::VecComEq,
    },
};
use mc_core::{Cli, Report, Tier};
use rayon::prelude::*;
use serde_json::json;
use std::{collections::BTreeMap, rc::Rc};

type C = ArCurve;
type F = <C as Curve>::Scalar;
type P = IpPairing;

const CONTEXTS: [&str; 3] = ["", "a", "ab"];

#[derive(Clone, Copy, Debug, PartialEq, Eq)]
enum Tr {
    Legacy,
    V1,
}

fn prove_in<D: SigmaProtocol>(tr: Tr, ctx: &str, d: &D, s: D::SecretData, seed: u64) -> Option<SigmaProof<D::Response>> {
    let mut r = rng(seed, 7000);
    match tr {
        Tr::Legacy => prove(&mut RandomOracle::domain(ctx), d, s, &mut r),
        Tr::V1 => prove(&mut TranscriptProtocolV1::with_domain(ctx), d, s, &mut r),
    }
}

fn verify_in<D: SigmaProtocol>(tr: Tr, ctx: &str, d: &D, p: &SigmaProof<D::Response>) -> bool {
    match tr {
        Tr::Legacy => verify(&mut RandomOracle::domain(ctx), d, p),
        Tr::V1 => verify(&mut TranscriptProtocolV1::with_domain(ctx), d, p),
    }
}

/// The witness alphabet for secret scalars.
fn scalar_variant(v: usize, seed: u64, salt: u64) -> F {
    match v {
        0 => C::generate_scalar(&mut rng(seed, 7100 + salt)),
        1 => F::zero(),
        2 => F::one(),
        _ => minus_one(),
    }
}

const VARIANT_NAMES: [&str; 4] = ["random", "0", "1", "r-1"];

fn alt_points<G: Curve>(orig: &G, seed: u64) -> Vec<(&'static str, G)> {
    let mut out = vec![];
    let other = G::generate(&mut rng(seed, 7200));
    for (l, p) in [("another element", other), ("identity", G::zero_point()), ("negation", orig.inverse_point()), ("doubled", orig.double_point())] {
        if p != *orig {
            out.push((l, p));
        }
    }
    out
}

fn alt_scalars(orig: &F, seed: u64) -> Vec<(&'static str, F)> {
    let mut out = vec![];
    for (l, s) in [("another scalar", C::generate_scalar(&mut rng(seed, 7201))), ("zero", F::zero()), ("plus one", add(*orig, F::one()))] {
        if s != *orig {
            out.push((l, s));
        }
    }
    out
}

/// The generic check for one protocol instance family. `build(variant_seed)` must return a
/// VALID statement/witness pair; `alts` returns statements that differ from the given one in
/// exactly one public component.
fn check<D, B, A>(report: &Report, cli: &Cli, name: &str, variant: &str, build: B, alts: A)
where
    D: SigmaProtocol,
    D::Response: Serial + concordium_base::common::Deserial,
    B: Fn(u64) -> (D, D::SecretData),
    A: Fn(&D, u64) -> Vec<(String, D)>, {
    let base = json!({"protocol": name, "variant": variant});
    for tr in [Tr::Legacy, Tr::V1] {
        for ctx in CONTEXTS {
            let mut w = base.clone();
            w["transcript"] = json!(format!("{tr:?}"));
            w["context"] = json!(ctx);
            case(report, w, || {
                let (d, s) = build(cli.seed);
                let Some(proof) = prove_in(tr, ctx, &d, s, cli.seed) else { return fail("valid-witness-not-provable", json!({})) };
                report.trace(1);
                if !verify_in(tr, ctx, &d, &proof) {
                    return fail("valid-proof-rejected", json!({}));
                }
                // context
                for other in CONTEXTS {
                    if other != ctx {
                        report.trace(1);
                        if verify_in(tr, other, &d, &proof) {
                            return fail("proof-verifies-under-other-context", json!({"other_context": other}));
                        }
                    }
                }
                let other_tr = if tr == Tr::Legacy { Tr::V1 } else { Tr::Legacy };
                report.trace(1);
                if verify_in(other_tr, ctx, &d, &proof) {
                    return fail("proof-verifies-under-other-transcript-protocol", json!({}));
                }
                // only the first context runs the expensive neighbourhoods
                if ctx != "a" {
                    return Ok(());
                }
                // statement: every single-component alteration, and another instance
                let mut alternatives = alts(&d, cli.seed);
                {
                    // another valid instance of the same shape -- unless the shape has no free
                    // parameter, in which case it is the same statement again
                    let other = build(cli.seed + 1).0;
                    let fingerprint = |x: &D| {
                        let mut ro = RandomOracle::empty();
                        x.public(&mut ro);
                        ro.extract_raw_challenge().as_ref().to_vec()
                    };
                    if fingerprint(&other) != fingerprint(&d) {
                        alternatives.push(("another valid instance".into(), other));
                    }
                }
                for (label, alt) in alternatives {
                    report.trace(1);
                    if verify_in(tr, ctx, &alt, &proof) {
                        return fail("proof-verifies-for-altered-statement", json!({"altered": label}));
                    }
                }
                // challenge and response: bit flips of the serialised proof
                let bytes = to_bytes(&proof);
                let nbits = bytes.len() * 8;
                let step = if cli.tier == Tier::Quick && nbits > 256 + 512 { 3 } else { 1 };
                for bit in 0..nbits {
                    if bit >= 256 && bit % step != 0 {
                        continue;
                    }
                    if let Ok(p2) = from_bytes::<SigmaProof<D::Response>, _>(&mut &flip(&bytes, bit)[..]) {
                        report.trace(1);
                        if to_bytes(&p2) != bytes && verify_in(tr, ctx, &d, &p2) {
                            return fail(if bit < 256 { "proof-verifies-with-altered-challenge" } else { "proof-verifies-with-altered-response" }, json!({"bit": bit}));
                        }
                    }
                }
                // element counts raised / lowered with an element inserted / removed
                for (what, edited) in count_field_edits(&bytes) {
                    if let Ok(p2) = from_bytes::<SigmaProof<D::Response>, _>(&mut &edited[..]) {
                        report.trace(1);
                        if to_bytes(&p2) != bytes && verify_in(tr, ctx, &d, &p2) {
                            return fail("proof-verifies-with-altered-response", json!({"edit": what}));
                        }
                    }
                }
                // truncated / extended proofs do not decode to something that verifies
                if from_bytes::<SigmaProof<D::Response>, _>(&mut &bytes[..bytes.len() - 1]).map(|p| verify_in(tr, ctx, &d, &p)).unwrap_or(false) {
                    return fail("truncated-proof-verifies", json!({}));
                }
                Ok(())
            });
        }
    }
}


macro_rules! spawn_check {
    ($s:expr, $report:expr, $cli:expr, $name:expr, $variant:expr, $build:expr, $alts:expr) => {{
        let v: String = $variant.to_string();
        let r = $report;
        let c = $cli;
        $s.spawn(move |_| check(r, c, $name, &v, $build, $alts));
    }};
}

fn dlog_family<'a>(s: &rayon::Scope<'a>, report: &'a Report, cli: &'a Cli) {
    for v in 0..4 {
        for gen in 0..2 {
            let build = move |seed: u64| {
                let coeff = if gen == 0 { C::generate(&mut rng(seed, 7300)) } else { C::one_point() };
                let x = scalar_variant(v, seed, 1);
                (Dlog::<C> { public: coeff.mul_by_scalar(&x), coeff }, DlogSecret { secret: Value::new(x) })
            };
            let alts = |d: &Dlog<C>, seed: u64| {
                let mut out = vec![];
                for (l, p) in alt_points(&d.public, seed) {
                    out.push((format!("public: {l}"), Dlog { public: p, coeff: d.coeff }));
                }
                for (l, p) in alt_points(&d.coeff, seed) {
                    out.push((format!("coeff: {l}"), Dlog { public: d.public, coeff: p }));
                }
                out
            };
            spawn_check!(s, report, cli, "dlog", &format!("secret={} gen={}", VARIANT_NAMES[v], gen), build, alts);
        }
    }
}

fn com_eq_family<'a>(s: &rayon::Scope<'a>, report: &'a Report, cli: &'a Cli) {
    for v in 0..4 {
        let build = move |seed: u64| {
            let key = CommitmentKey::<C>::generate(&mut rng(seed, 7310));
            let g = C::generate(&mut rng(seed, 7311));
            let a = Value::<C>::new(scalar_variant(v, seed, 2));
            let r = Randomness::<C>::generate(&mut rng(seed, 7312));
            let commitment = key.hide(&a, &r);
            (ComEq::<C, C> { commitment, y: g.mul_by_scalar(&a), cmm_key: key, g }, ComEqSecret { r, a })
        };
        let alts = |d: &ComEq<C, C>, seed: u64| {
            let mut out = vec![];
            for (l, p) in alt_points(&d.commitment.0, seed) {
                out.push((format!("commitment: {l}"), ComEq { commitment: Commitment(p), y: d.y, cmm_key: d.cmm_key, g: d.g }));
            }
            for (l, p) in alt_points(&d.y, seed) {
                out.push((format!("y: {l}"), ComEq { commitment: d.commitment, y: p, cmm_key: d.cmm_key, g: d.g }));
            }
            for (l, p) in alt_points(&d.g, seed) {
                out.push((format!("g: {l}"), ComEq { commitment: d.commitment, y: d.y, cmm_key: d.cmm_key, g: p }));
            }
            for (l, p) in alt_points(&d.cmm_key.g, seed) {
                out.push((format!("cmm_key.g: {l}"), ComEq { commitment: d.commitment, y: d.y, cmm_key: CommitmentKey { g: p, h: d.cmm_key.h }, g: d.g }));
            }
            for (l, p) in alt_points(&d.cmm_key.h, seed) {
                out.push((format!("cmm_key.h: {l}"), ComEq { commitment: d.commitment, y: d.y, cmm_key: CommitmentKey { g: d.cmm_key.g, h: p }, g: d.g }));
            }
            out
        };
        spawn_check!(s, report, cli, "com_eq", &format!("value={}", VARIANT_NAMES[v]), build, alts);
    }
}

fn com_eq_diff_groups_family<'a>(s: &rayon::Scope<'a>, report: &'a Report, cli: &'a Cli) {
    for v in 0..4 {
        let build = move |seed: u64| {
            let k1 = CommitmentKey::<C>::generate(&mut rng(seed, 7320));
            let k2 = CommitmentKey::<BlsG2>::generate(&mut rng(seed, 7321));
            let a = scalar_variant(v, seed, 3);
            let r1 = Randomness::<C>::generate(&mut rng(seed, 7322));
            let r2 = Randomness::<BlsG2>::generate(&mut rng(seed, 7323));
            let c1 = k1.hide(&Value::<C>::new(a), &r1);
            let c2 = k2.hide(&Value::<BlsG2>::new(a), &r2);
            (
                ComEqDiffGroups::<C, BlsG2> { commitment_1: c1, commitment_2: c2, cmm_key_1: k1, cmm_key_2: k2 },
                ComEqDiffGroupsSecret { value: Value::<BlsG2>::new(a), rand_cmm_1: r1, rand_cmm_2: r2 },
            )
        };
        let alts = |d: &ComEqDiffGroups<C, BlsG2>, seed: u64| {
            let mut out = vec![];
            for (l, p) in alt_points(&d.commitment_1.0, seed) {
                out.push((format!("commitment_1: {l}"), ComEqDiffGroups { commitment_1: Commitment(p), commitment_2: d.commitment_2, cmm_key_1: d.cmm_key_1, cmm_key_2: d.cmm_key_2 }));
            }
            for (l, p) in alt_points(&d.commitment_2.0, seed) {
                out.push((format!("commitment_2: {l}"), ComEqDiffGroups { commitment_1: d.commitment_1, commitment_2: Commitment(p), cmm_key_1: d.cmm_key_1, cmm_key_2: d.cmm_key_2 }));
            }
            for (l, p) in alt_points(&d.cmm_key_1.h, seed) {
                out.push((format!("cmm_key_1.h: {l}"), ComEqDiffGroups { commitment_1: d.commitment_1, commitment_2: d.commitment_2, cmm_key_1: CommitmentKey { g: d.cmm_key_1.g, h: p }, cmm_key_2: d.cmm_key_2 }));
            }
            for (l, p) in alt_points(&d.cmm_key_2.g, seed) {
                out.push((format!("cmm_key_2.g: {l}"), ComEqDiffGroups { commitment_1: d.commitment_1, commitment_2: d.commitment_2, cmm_key_1: d.cmm_key_1, cmm_key_2: CommitmentKey { g: p, h: d.cmm_key_2.h } }));
            }
            out
        };
        spawn_check!(s, report, cli, "com_eq_different_groups", &format!("value={}", VARIANT_NAMES[v]), build, alts);
    }
}

fn com_enc_eq_family<'a>(s: &rayon::Scope<'a>, report: &'a Report, cli: &'a Cli) {
    for v in 0..4 {
        let build = move |seed: u64| {
            let sk = ElgSk::<C>::generate_all(&mut rng(seed, 7330));
            let pk = ElgPk::from(&sk);
            let key = CommitmentKey::<C>::generate(&mut rng(seed, 7331));
            let h = C::generate(&mut rng(seed, 7332));
            let x = Value::<C>::new(scalar_variant(v, seed, 4));
            let (cipher, er) = pk.encrypt_exponent_rand_given_generator(&x, &h, &mut rng(seed, 7333));
            let pr = Randomness::<C>::generate(&mut rng(seed, 7334));
            let commitment = key.hide(&x, &pr);
            (
                ComEncEq::<C> { cipher, commitment, pub_key: pk, cmm_key: key, encryption_in_exponent_generator: h },
                ComEncEqSecret { value: x, elgamal_rand: er, pedersen_rand: pr },
            )
        };
        let alts = |d: &ComEncEq<C>, seed: u64| {
            let mk = |cipher, commitment, pub_key: &ElgPk<C>, cmm_key, h| ComEncEq::<C> { cipher, commitment, pub_key: pub_key.clone(), cmm_key, encryption_in_exponent_generator: h };
            let mut out = vec![];
            for (l, p) in alt_points(&d.cipher.0, seed) {
                out.push((format!("cipher.0: {l}"), mk(concordium_base::elgamal::Cipher(p, d.cipher.1), d.commitment, &d.pub_key, d.cmm_key, d.encryption_in_exponent_generator)));
            }
            for (l, p) in alt_points(&d.cipher.1, seed) {
                out.push((format!("cipher.1: {l}"), mk(concordium_base::elgamal::Cipher(d.cipher.0, p), d.commitment, &d.pub_key, d.cmm_key, d.encryption_in_exponent_generator)));
            }
            for (l, p) in alt_points(&d.commitment.0, seed) {
                out.push((format!("commitment: {l}"), mk(d.cipher, Commitment(p), &d.pub_key, d.cmm_key, d.encryption_in_exponent_generator)));
            }
            for (l, p) in alt_points(&d.pub_key.key, seed) {
                out.push((format!("pub_key.key: {l}"), mk(d.cipher, d.commitment, &ElgPk { generator: d.pub_key.generator, key: p }, d.cmm_key, d.encryption_in_exponent_generator)));
            }
            for (l, p) in alt_points(&d.pub_key.generator, seed) {
                out.push((format!("pub_key.generator: {l}"), mk(d.cipher, d.commitment, &ElgPk { generator: p, key: d.pub_key.key }, d.cmm_key, d.encryption_in_exponent_generator)));
            }
            for (l, p) in alt_points(&d.cmm_key.g, seed) {
                out.push((format!("cmm_key.g: {l}"), mk(d.cipher, d.commitment, &d.pub_key, CommitmentKey { g: p, h: d.cmm_key.h }, d.encryption_in_exponent_generator)));
            }
            for (l, p) in alt_points(&d.encryption_in_exponent_generator, seed) {
                out.push((format!("encryption generator: {l}"), mk(d.cipher, d.commitment, &d.pub_key, d.cmm_key, p)));
            }
            out
        };
        spawn_check!(s, report, cli, "com_enc_eq", &format!("value={}", VARIANT_NAMES[v]), build, alts);
    }
}

fn com_mult_family<'a>(s: &rayon::Scope<'a>, report: &'a Report, cli: &'a Cli) {
    for v1 in 0..4 {
        for v2 in [0usize, 1, 3] {
            let build = move |seed: u64| {
                let key = CommitmentKey::<C>::generate(&mut rng(seed, 7340));
                let a1 = scalar_variant(v1, seed, 5);
                let a2 = scalar_variant(v2, seed, 6);
                let mut a3 = a1;
                a3.mul_assign(&a2);
                let rs: Vec<Randomness<C>> = (0..3).map(|i| Randomness::<C>::generate(&mut rng(seed, 7341 + i))).collect();
                let cmms = [key.hide(&Value::<C>::new(a1), &rs[0]), key.hide(&Value::<C>::new(a2), &rs[1]), key.hide(&Value::<C>::new(a3), &rs[2])];
                (ComMult::<C> { cmms, cmm_key: key }, ComMultSecret { values: [Value::new(a1), Value::new(a2)], rands: [rs[0].clone(), rs[1].clone(), rs[2].clone()] })
            };
            let alts = |d: &ComMult<C>, seed: u64| {
                let mut out = vec![];
                for i in 0..3 {
                    for (l, p) in alt_points(&d.cmms[i].0, seed) {
                        let mut c = d.cmms;
                        c[i] = Commitment(p);
                        out.push((format!("cmms[{i}]: {l}"), ComMult { cmms: c, cmm_key: d.cmm_key }));
                    }
                }
                let mut c = d.cmms;
                c.swap(0, 2);
                if c[0] != d.cmms[0] {
                    out.push(("cmms 0 and 2 swapped".into(), ComMult { cmms: c, cmm_key: d.cmm_key }));
                }
                for (l, p) in alt_points(&d.cmm_key.h, seed) {
                    out.push((format!("cmm_key.h: {l}"), ComMult { cmms: d.cmms, cmm_key: CommitmentKey { g: d.cmm_key.g, h: p } }));
                }
                out
            };
            spawn_check!(s, report, cli, "com_mult", &format!("a1={} a2={}", VARIANT_NAMES[v1], VARIANT_NAMES[v2]), build, alts);
        }
    }
}

fn com_lin_family<'a>(s: &rayon::Scope<'a>, report: &'a Report, cli: &'a Cli) {
    for n in [0usize, 1, 2, 5] {
        for v in 0..4 {
            let build = move |seed: u64| {
                let key = CommitmentKey::<C>::generate(&mut rng(seed, 7350));
                let mut xs = vec![];
                let mut rs = vec![];
                let mut us = vec![];
                let mut cmms = vec![];
                let mut sum = F::zero();
                for i in 0..n {
                    let x = if i == 0 { scalar_variant(v, seed, 7) } else { C::generate_scalar(&mut rng(seed, 7351 + i as u64)) };
                    let u = if i == 1 { F::zero() } else { C::generate_scalar(&mut rng(seed, 7361 + i as u64)) };
                    let r = Randomness::<C>::generate(&mut rng(seed, 7371 + i as u64));
                    let mut ux = u;
                    ux.mul_assign(&x);
                    sum.add_assign(&ux);
                    cmms.push(key.hide(&Value::<C>::new(x), &r));
                    xs.push(Value::<C>::new(x));
                    rs.push(r);
                    us.push(u);
                }
                let r = Randomness::<C>::generate(&mut rng(seed, 7381));
                let cmm = key.hide_worker(&sum, &r);
                (ComLin::<C> { us, cmms, cmm, cmm_key: key }, ComLinSecret::verif_new(xs, rs, r))
            };
            let alts = |d: &ComLin<C>, seed: u64| {
                let mk = |us: Vec<F>, cmms: Vec<Commitment<C>>, cmm, key| ComLin::<C> { us, cmms, cmm, cmm_key: key };
                let mut out = vec![];
                for i in 0..d.us.len() {
                    for (l, s) in alt_scalars(&d.us[i], seed) {
                        let mut us = d.us.clone();
                        us[i] = s;
                        out.push((format!("us[{i}]: {l}"), mk(us, d.cmms.clone(), d.cmm, d.cmm_key)));
                    }
                    for (l, p) in alt_points(&d.cmms[i].0, seed) {
                        let mut c = d.cmms.clone();
                        c[i] = Commitment(p);
                        out.push((format!("cmms[{i}]: {l}"), mk(d.us.clone(), c, d.cmm, d.cmm_key)));
                    }
                }
                for (l, p) in alt_points(&d.cmm.0, seed) {
                    out.push((format!("cmm: {l}"), mk(d.us.clone(), d.cmms.clone(), Commitment(p), d.cmm_key)));
                }
                if d.us.len() >= 2 {
                    let mut us = d.us.clone();
                    let mut c = d.cmms.clone();
                    us.pop();
                    c.pop();
                    out.push(("last term dropped".into(), mk(us, c, d.cmm, d.cmm_key)));
                    let mut c = d.cmms.clone();
                    c.swap(0, 1);
                    out.push(("cmms 0 and 1 swapped".into(), mk(d.us.clone(), c, d.cmm, d.cmm_key)));
                }
                out
            };
            if n == 0 && v > 0 {
                continue;
            }
            spawn_check!(s, report, cli, "com_lin", &format!("n={n} x0={}", VARIANT_NAMES[v]), build, alts);
        }
    }
}

fn aggregate_dlog_family<'a>(s: &rayon::Scope<'a>, report: &'a Report, cli: &'a Cli) {
    for n in [0usize, 1, 2, 5] {
        for v in 0..4 {
            if n == 0 && v > 0 {
                continue;
            }
            for repeated in [false, true] {
                if repeated && n < 2 {
                    continue;
                }
                let build = move |seed: u64| {
                    let mut coeff: Vec<C> = (0..n).map(|i| C::generate(&mut rng(seed, 7400 + i as u64))).collect();
                    if repeated {
                        coeff[1] = coeff[0];
                    }
                    let xs: Vec<F> = (0..n).map(|i| if i == 0 { scalar_variant(v, seed, 8) } else { C::generate_scalar(&mut rng(seed, 7410 + i as u64)) }).collect();
                    let public = multiexp(&coeff, &xs);
                    (AggregateDlog::<C> { public, coeff }, xs.into_iter().map(Rc::new).collect::<Vec<_>>())
                };
                let alts = |d: &AggregateDlog<C>, seed: u64| {
                    let mut out = vec![];
                    for (l, p) in alt_points(&d.public, seed) {
                        out.push((format!("public: {l}"), AggregateDlog { public: p, coeff: d.coeff.clone() }));
                    }
                    for i in 0..d.coeff.len() {
                        for (l, p) in alt_points(&d.coeff[i], seed) {
                            let mut c = d.coeff.clone();
                            c[i] = p;
                            out.push((format!("coeff[{i}]: {l}"), AggregateDlog { public: d.public, coeff: c }));
                        }
                    }
                    if d.coeff.len() >= 2 && d.coeff[0] != d.coeff[1] {
                        let mut c = d.coeff.clone();
                        c.swap(0, 1);
                        out.push(("coeff 0 and 1 swapped".into(), AggregateDlog { public: d.public, coeff: c }));
                    }
                    if !d.coeff.is_empty() {
                        let mut c = d.coeff.clone();
                        c.pop();
                        out.push(("last coeff dropped".into(), AggregateDlog { public: d.public, coeff: c }));
                    }
                    let mut c = d.coeff.clone();
                    c.push(C::generate(&mut rng(seed, 7420)));
                    out.push(("coeff extended".into(), AggregateDlog { public: d.public, coeff: c }));
                    out
                };
                spawn_check!(s, report, cli, "aggregate_dlog", &format!("n={n} x0={} repeated_generator={repeated}", VARIANT_NAMES[v]), build, alts);
            }
        }
    }
}

fn vcom_eq_family<'a>(s: &rayon::Scope<'a>, report: &'a Report, cli: &'a Cli) {
    // masks: which positions of the vector are additionally committed to individually
    for (n, mask) in [(1usize, 0u32), (1, 1), (2, 0b01), (2, 0b11), (3, 0b101), (5, 0b10010)] {
        for v in 0..4 {
            if n == 0 && v > 0 {
                continue;
            }
            let build = move |seed: u64| {
                let h = C::generate(&mut rng(seed, 7500));
                let g_bar = C::generate(&mut rng(seed, 7501));
                let h_bar = C::generate(&mut rng(seed, 7502));
                let r = C::generate_scalar(&mut rng(seed, 7503));
                let mut comm = h.mul_by_scalar(&r);
                let mut xis = vec![];
                let mut gis = vec![];
                let mut ris = BTreeMap::new();
                let mut comms = BTreeMap::new();
                for i in 0..n {
                    let x = if i == 0 { scalar_variant(v, seed, 10) } else { C::generate_scalar(&mut rng(seed, 7510 + i as u64)) };
                    let gi = C::generate(&mut rng(seed, 7520 + i as u64));
                    comm = comm.plus_point(&gi.mul_by_scalar(&x));
                    if mask >> i & 1 == 1 {
                        let ri = C::generate_scalar(&mut rng(seed, 7530 + i as u64));
                        comms.insert(i as u8, Commitment(g_bar.mul_by_scalar(&x).plus_point(&h_bar.mul_by_scalar(&ri))));
                        ris.insert(i as u8, Value::<C>::new(ri));
                    }
                    xis.push(x);
                    gis.push(gi);
                }
                (VecComEq::<C> { comm: Commitment(comm), comms, gis, h, g_bar, h_bar }, (xis, Value::<C>::new(r), ris))
            };
            let alts = |d: &VecComEq<C>, seed: u64| {
                let mk = |comm, comms: BTreeMap<u8, Commitment<C>>, gis: Vec<C>, h, g_bar, h_bar| VecComEq::<C> { comm, comms, gis, h, g_bar, h_bar };
                let mut out = vec![];
                for (l, p) in alt_points(&d.comm.0, seed) {
                    out.push((format!("comm: {l}"), mk(Commitment(p), d.comms.clone(), d.gis.clone(), d.h, d.g_bar, d.h_bar)));
                }
                for (k, c) in d.comms.iter() {
                    for (l, p) in alt_points(&c.0, seed) {
                        let mut cs = d.comms.clone();
                        cs.insert(*k, Commitment(p));
                        out.push((format!("comms[{k}]: {l}"), mk(d.comm, cs, d.gis.clone(), d.h, d.g_bar, d.h_bar)));
                    }
                }
                for i in 0..d.gis.len() {
                    for (l, p) in alt_points(&d.gis[i], seed) {
                        let mut g = d.gis.clone();
                        g[i] = p;
                        out.push((format!("gis[{i}]: {l}"), mk(d.comm, d.comms.clone(), g, d.h, d.g_bar, d.h_bar)));
                    }
                }
                for (l, p) in alt_points(&d.h, seed) {
                    out.push((format!("h: {l}"), mk(d.comm, d.comms.clone(), d.gis.clone(), p, d.g_bar, d.h_bar)));
                }
                for (l, p) in alt_points(&d.g_bar, seed) {
                    out.push((format!("g_bar: {l}"), mk(d.comm, d.comms.clone(), d.gis.clone(), d.h, p, d.h_bar)));
                }
                for (l, p) in alt_points(&d.h_bar, seed) {
                    out.push((format!("h_bar: {l}"), mk(d.comm, d.comms.clone(), d.gis.clone(), d.h, d.g_bar, p)));
                }
                out
            };
            spawn_check!(s, report, cli, "vcom_eq", &format!("n={n} mask={mask:b} x0={}", VARIANT_NAMES[v]), build, alts);
        }
    }
}

fn com_eq_sig_family<'a>(s: &rayon::Scope<'a>, report: &'a Report, cli: &'a Cli) {
    for (key_len, n) in [(1usize, 0usize), (1, 1), (3, 2), (5, 5)] {
        for v in 0..4 {
            if n == 0 && v > 0 {
                continue;
            }
            let build = move |seed: u64| {
                let mut r = rng(seed, 7600);
                let sk = ps_sig::SecretKey::<P>::generate(key_len, &mut r);
                let pk = ps_sig::PublicKey::from(&sk);
                let key = CommitmentKey::<C>::generate(&mut r);
                let mask = ps_sig::SigRetrievalRandomness::<P>::generate_non_zero(&mut r);
                let mut comm: <P as Pairing>::G1 = pk.g.mul_by_scalar(&mask);
                let mut secrets = vec![];
                let mut commitments = vec![];
                for (j, y) in pk.ys.iter().take(n).enumerate() {
                    let vj = Value::<C>::new(if j == 0 { scalar_variant(v, seed, 11) } else { C::generate_scalar(&mut r) });
                    let (cj, rj) = key.commit(&vj, &mut r);
                    comm = comm.plus_point(&y.mul_by_scalar(&vj));
                    secrets.push((vj, rj));
                    commitments.push(cj);
                }
                let sig = sk.sign_unknown_message(&ps_sig::UnknownMessage(comm), &mut r).retrieve(&mask);
                let (blinded_sig, blind_rand) = sig.blind(&mut r);
                (ComEqSig::<P, C> { blinded_sig, commitments, ps_pub_key: pk, comm_key: key }, ComEqSigSecret { blind_rand, values_and_rands: secrets })
            };
            let alts = |d: &ComEqSig<P, C>, seed: u64| {
                let mut out = vec![];
                for i in 0..d.commitments.len() {
                    for (l, p) in alt_points(&d.commitments[i].0, seed) {
                        let mut c = d.commitments.clone();
                        c[i] = Commitment(p);
                        out.push((format!("commitments[{i}]: {l}"), ComEqSig { blinded_sig: d.blinded_sig.clone(), commitments: c, ps_pub_key: d.ps_pub_key.clone(), comm_key: d.comm_key }));
                    }
                }
                for (l, p) in alt_points(&d.comm_key.h, seed) {
                    out.push((format!("comm_key.h: {l}"), ComEqSig { blinded_sig: d.blinded_sig.clone(), commitments: d.commitments.clone(), ps_pub_key: d.ps_pub_key.clone(), comm_key: CommitmentKey { g: d.comm_key.g, h: p } }));
                }
                let mut pk2 = d.ps_pub_key.clone();
                pk2.x_tilda = pk2.x_tilda.double_point();
                out.push(("ps_pub_key.x_tilda doubled".into(), ComEqSig { blinded_sig: d.blinded_sig.clone(), commitments: d.commitments.clone(), ps_pub_key: pk2, comm_key: d.comm_key }));
                let mut bs = d.blinded_sig.clone();
                bs.sig.1 = bs.sig.1.double_point();
                out.push(("blinded signature component doubled".into(), ComEqSig { blinded_sig: bs, commitments: d.commitments.clone(), ps_pub_key: d.ps_pub_key.clone(), comm_key: d.comm_key }));
                if d.commitments.len() >= 2 {
                    let mut c = d.commitments.clone();
                    c.swap(0, 1);
                    out.push(("commitments 0 and 1 swapped".into(), ComEqSig { blinded_sig: d.blinded_sig.clone(), commitments: c, ps_pub_key: d.ps_pub_key.clone(), comm_key: d.comm_key }));
                }
                out
            };
            spawn_check!(s, report, cli, "com_eq_sig", &format!("key_len={key_len} n={n} v0={}", VARIANT_NAMES[v]), build, alts);
        }
    }
}

fn ps_sig_known_family<'a>(s: &rayon::Scope<'a>, report: &'a Report, cli: &'a Cli) {
    // every known/public/equal pattern of length <= 3 (quick: <= 2), key exactly long enough or longer
    let maxlen = if cli.tier == Tier::Quick { 2 } else { 3 };
    let mut patterns: Vec<Vec<u8>> = vec![vec![]];
    let mut level: Vec<Vec<u8>> = vec![vec![]];
    for _ in 0..maxlen {
        let mut next = vec![];
        for p in &level {
            for k in 0..3u8 {
                let mut q = p.clone();
                q.push(k);
                next.push(q);
            }
        }
        patterns.extend(next.iter().cloned());
        level = next;
    }
    for pat in patterns.iter() {
        for extra in [0usize, 2] {
            let pat2 = pat.clone();
            let build = move |seed: u64| {
                let mut r = rng(seed, 7700);
                let sk = ps_sig::SecretKey::<P>::generate(pat2.len() + extra, &mut r);
                let pk = ps_sig::PublicKey::from(&sk);
                let key = CommitmentKey::<C>::generate(&mut r);
                let mask = ps_sig::SigRetrievalRandomness::<P>::generate_non_zero(&mut r);
                let mut comm: <P as Pairing>::G1 = pk.g.mul_by_scalar(&mask);
                let mut msgs = vec![];
                let mut wit = vec![];
                for (i, k) in pat2.iter().enumerate() {
                    let m = Value::<C>::new(if i == 0 { F::zero() } else { C::generate_scalar(&mut r) });
                    comm = comm.plus_point(&pk.ys[i].mul_by_scalar(&m));
                    match k {
                        0 => {
                            let (c, rr) = key.commit(&m, &mut r);
                            wit.push(PsSigWitnessMsg::EqualToCommitment(m, rr));
                            msgs.push(PsSigMsg::EqualToCommitment(c));
                        }
                        1 => {
                            wit.push(PsSigWitnessMsg::Public);
                            msgs.push(PsSigMsg::Public(m));
                        }
                        _ => {
                            wit.push(PsSigWitnessMsg::Known(m));
                            msgs.push(PsSigMsg::Known);
                        }
                    }
                }
                let sig = sk.sign_unknown_message(&ps_sig::UnknownMessage(comm), &mut r).retrieve(&mask);
                let (blinded_sig, blind_rand) = sig.blind(&mut r);
                (PsSigKnown::<P, C> { blinded_sig, msgs, ps_pub_key: pk, cmm_key: key }, PsSigWitness { r_prime: blind_rand.1, msgs: wit })
            };
            let alts = |d: &PsSigKnown<P, C>, seed: u64| {
                let clone_msgs = |d: &PsSigKnown<P, C>| {
                    d.msgs
                        .iter()
                        .map(|m| match m {
                            PsSigMsg::EqualToCommitment(c) => PsSigMsg::EqualToCommitment(*c),
                            PsSigMsg::Public(v) => PsSigMsg::Public(v.clone()),
                            PsSigMsg::Known => PsSigMsg::Known,
                        })
                        .collect::<Vec<_>>()
                };
                let mut out = vec![];
                for i in 0..d.msgs.len() {
                    match &d.msgs[i] {
                        PsSigMsg::EqualToCommitment(c) => {
                            for (l, p) in alt_points(&c.0, seed) {
                                let mut m = clone_msgs(d);
                                m[i] = PsSigMsg::EqualToCommitment(Commitment(p));
                                out.push((format!("msgs[{i}] commitment: {l}"), PsSigKnown { blinded_sig: d.blinded_sig.clone(), msgs: m, ps_pub_key: d.ps_pub_key.clone(), cmm_key: d.cmm_key }));
                            }
                        }
                        PsSigMsg::Public(v) => {
                            for (l, s) in alt_scalars(v, seed) {
                                let mut m = clone_msgs(d);
                                m[i] = PsSigMsg::Public(Value::new(s));
                                out.push((format!("msgs[{i}] public value: {l}"), PsSigKnown { blinded_sig: d.blinded_sig.clone(), msgs: m, ps_pub_key: d.ps_pub_key.clone(), cmm_key: d.cmm_key }));
                            }
                        }
                        PsSigMsg::Known => {}
                    }
                }
                let mut bs = d.blinded_sig.clone();
                bs.sig.0 = bs.sig.0.double_point();
                out.push(("blinded signature component doubled".into(), PsSigKnown { blinded_sig: bs, msgs: clone_msgs(d), ps_pub_key: d.ps_pub_key.clone(), cmm_key: d.cmm_key }));
                let mut pk2 = d.ps_pub_key.clone();
                pk2.x_tilda = pk2.x_tilda.double_point();
                out.push(("ps_pub_key.x_tilda doubled".into(), PsSigKnown { blinded_sig: d.blinded_sig.clone(), msgs: clone_msgs(d), ps_pub_key: pk2, cmm_key: d.cmm_key }));
                out
            };
            spawn_check!(s, report, cli, "ps_sig_known", &format!("pattern={pat:?} extra_key={extra}"), build, alts);
        }
    }
}

/// EncTrans with t chunks for the receiver and t' chunks for the sender (the production
/// code only ever builds t = t' = 2): `S` encrypts `sum 2^(32 j) a_j + sum 2^(32 j) s'_j`.
/// `bump`: the power of two added to the value encrypted in `S` (None = consistent).
fn enc_trans_instance(seed: u64, t: usize, t2: usize, chunk_variant: usize, bump: Option<u32>) -> (EncTrans<C>, EncTransSecret<C>) {
    use concordium_base::encrypted_transfers::proofs::gen_enc_trans_proof_info;
    let mut r = rng(seed, 7900);
    let sk = ElgSk::<C>::generate_all(&mut r);
    let pk = ElgPk::from(&sk);
    let sk_recv = ElgSk::<C>::generate(&pk.generator, &mut r);
    let pk_recv = ElgPk::from(&sk_recv);
    let h = C::generate(&mut r);
    let chunk = |i: usize, salt: u64| -> u64 {
        match chunk_variant {
            0 => (rand::Rng::gen::<u32>(&mut rng(seed, 7910 + salt + i as u64))) as u64,
            1 => 0,
            2 => u32::MAX as u64,
            // only the highest chunk is set
            _ => 1,
        }
    };
    let a: Vec<u64> = (0..t).map(|i| if chunk_variant == 3 && i + 1 != t { 0 } else { chunk(i, 0) }).collect();
    let sp: Vec<u64> = (0..t2).map(|i| if chunk_variant == 3 && i + 1 != t2 { 0 } else { chunk(i, 100) }).collect();
    let two32 = C::scalar_from_u64(1 << 32);
    let combine = |xs: &[u64]| {
        let mut sum = F::zero();
        for x in xs.iter().rev() {
            sum.mul_assign(&two32);
            sum.add_assign(&C::scalar_from_u64(*x));
        }
        sum
    };
    let mut total = add(combine(&a), combine(&sp));
    if let Some(k) = bump {
        total = add(total, pow2::<C>(k));
    }
    let big_s = pk.encrypt_exponent_given_generator(&Value::<C>::new(total), &h, &mut r);
    let enc = |key: &ElgPk<C>, xs: &[u64], r: &mut rand_chacha::ChaCha20Rng| -> (Vec<concordium_base::elgamal::Cipher<C>>, Vec<ComEqSecret<C>>) {
        let mut cs = vec![];
        let mut ss = vec![];
        for x in xs {
            let (c, er) = key.encrypt_exponent_rand_given_generator(&Value::<C>::from(*x), &h, r);
            cs.push(c);
            ss.push(ComEqSecret::<C> { r: Randomness::from_u64(*x), a: er.to_value() });
        }
        (cs, ss)
    };
    let (ca, sa) = enc(&pk_recv, &a, &mut r);
    let (cs, ss) = enc(&pk, &sp, &mut r);
    let d = gen_enc_trans_proof_info(&pk, &pk_recv, &big_s, &ca, &cs, &h);
    (d, EncTransSecret { dlog_secret: Rc::new(sk.scalar), encexp1_secrets: sa, encexp2_secrets: ss })
}

fn clone_enc_trans(d: &EncTrans<C>) -> EncTrans<C> {
    let ce = |x: &ComEq<C, C>| ComEq::<C, C> { commitment: x.commitment, y: x.y, cmm_key: x.cmm_key, g: x.g };
    EncTrans { dlog: Dlog { public: d.dlog.public, coeff: d.dlog.coeff }, elg_dec: ElgDec { public: d.elg_dec.public, coeff: d.elg_dec.coeff }, encexp1: d.encexp1.iter().map(ce).collect(), encexp2: d.encexp2.iter().map(ce).collect() }
}

fn enc_trans_family<'a>(s: &rayon::Scope<'a>, report: &'a Report, cli: &'a Cli) {
    let max = if cli.tier == Tier::Quick { 3 } else { 5 };
    const CHUNKS: [&str; 4] = ["random", "0", "2^32-1", "only the highest chunk = 1"];
    for t in 1..=max {
        for t2 in 1..=max {
            for cv in 0..4 {
                // quick tier: the full alphabet on the square shapes and (1, max), (max, 1)
                if cli.tier == Tier::Quick && cv != 0 && cv != 3 && t != t2 {
                    continue;
                }
                let build = move |seed: u64| enc_trans_instance(seed, t, t2, cv, None);
                let alts = move |d: &EncTrans<C>, seed: u64| {
                    let mut out: Vec<(String, EncTrans<C>)> = vec![];
                    for (l, p) in alt_points(&d.dlog.public, seed) {
                        let mut x = clone_enc_trans(d);
                        x.dlog.public = p;
                        out.push((format!("dlog.public: {l}"), x));
                    }
                    for (l, p) in alt_points(&d.elg_dec.public, seed) {
                        let mut x = clone_enc_trans(d);
                        x.elg_dec.public = p;
                        out.push((format!("elg_dec.public: {l}"), x));
                    }
                    for k in 0..2 {
                        for (l, p) in alt_points(&d.elg_dec.coeff[k], seed) {
                            let mut x = clone_enc_trans(d);
                            x.elg_dec.coeff[k] = p;
                            out.push((format!("elg_dec.coeff[{k}]: {l}"), x));
                        }
                    }
                    // S shifted by every chunk weight: the linear relation no longer holds
                    for k in 0..max.max(t).max(t2) + 1 {
                        let mut x = clone_enc_trans(d);
                        x.elg_dec.public = x.elg_dec.public.plus_point(&d.elg_dec.coeff[1].mul_by_scalar(&pow2::<C>(32 * k as u32)));
                        out.push((format!("elg_dec.public: S_2 * h^(2^{})", 32 * k), x));
                    }
                    for (which, n) in [(1, d.encexp1.len()), (2, d.encexp2.len())] {
                        fn get(x: &mut EncTrans<C>, which: usize) -> &mut Vec<ComEq<C, C>> { if which == 1 { &mut x.encexp1 } else { &mut x.encexp2 } }
                        for i in 0..n {
                            let cur = if which == 1 { &d.encexp1[i] } else { &d.encexp2[i] };
                            for (l, p) in alt_points(&cur.commitment.0, seed) {
                                let mut x = clone_enc_trans(d);
                                get(&mut x, which)[i].commitment = Commitment(p);
                                out.push((format!("encexp{which}[{i}].commitment: {l}"), x));
                            }
                            for (l, p) in alt_points(&cur.y, seed) {
                                let mut x = clone_enc_trans(d);
                                get(&mut x, which)[i].y = p;
                                out.push((format!("encexp{which}[{i}].y: {l}"), x));
                            }
                            // one more unit in this chunk
                            let mut x = clone_enc_trans(d);
                            get(&mut x, which)[i].commitment = Commitment(cur.commitment.0.plus_point(&cur.cmm_key.h));
                            out.push((format!("encexp{which}[{i}].commitment: chunk + 1"), x));
                        }
                        if n >= 2 {
                            let mut x = clone_enc_trans(d);
                            get(&mut x, which).swap(0, n - 1);
                            out.push((format!("encexp{which}: first and last chunk swapped"), x));
                        }
                        let mut x = clone_enc_trans(d);
                        get(&mut x, which).pop();
                        out.push((format!("encexp{which}: last chunk dropped"), x));
                        let mut x = clone_enc_trans(d);
                        let l = clone_enc_trans(d);
                        let last = if which == 1 { l.encexp1 } else { l.encexp2 }.pop().unwrap();
                        get(&mut x, which).push(last);
                        out.push((format!("encexp{which}: last chunk duplicated"), x));
                    }
                    out
                };
                spawn_check!(s, report, cli, "enc_trans", &format!("t={t} t'={t2} chunks={}", CHUNKS[cv]), build, alts);
            }
            // the honest prover on an inconsistent witness: S encrypts the chunk combination
            // plus 2^(32 k), for every chunk position k (and one beyond)
            s.spawn(move |_| {
                for k in 0..=t.max(t2) {
                    for tr in [Tr::Legacy, Tr::V1] {
                        case(report, json!({"protocol": "enc_trans", "variant": format!("t={t} t'={t2}"), "false_witness": format!("S encrypts the combination + 2^{}", 32 * k), "transcript": format!("{tr:?}")}), || {
                            let (d, sec) = enc_trans_instance(cli.seed, t, t2, 0, Some(32 * k as u32));
                            if let Some(p) = prove_in(tr, "a", &d, sec, cli.seed) {
                                report.trace(1);
                                if verify_in(tr, "a", &d, &p) {
                                    return fail("false-statement-verifies", json!({}));
                                }
                            }
                            Ok(())
                        });
                    }
                }
            });
        }
    }
}

fn adapters<'a>(s: &rayon::Scope<'a>, report: &'a Report, cli: &'a Cli) {
    // AND of dlog and com_eq
    let build = |seed: u64| {
        let g = C::generate(&mut rng(seed, 7800));
        let x = C::generate_scalar(&mut rng(seed, 7801));
        let key = CommitmentKey::<C>::generate(&mut rng(seed, 7802));
        let g2 = C::generate(&mut rng(seed, 7803));
        let a = Value::<C>::new(C::generate_scalar(&mut rng(seed, 7804)));
        let r = Randomness::<C>::generate(&mut rng(seed, 7805));
        let first = Dlog::<C> { public: g.mul_by_scalar(&x), coeff: g };
        let second = ComEq::<C, C> { commitment: key.hide(&a, &r), y: g2.mul_by_scalar(&a), cmm_key: key, g: g2 };
        (AndAdapter { first, second }, (DlogSecret { secret: Value::new(x) }, ComEqSecret { r, a }))
    };
    let alts = |d: &AndAdapter<Dlog<C>, ComEq<C, C>>, seed: u64| {
        let mk_second = |d: &AndAdapter<Dlog<C>, ComEq<C, C>>| ComEq::<C, C> { commitment: d.second.commitment, y: d.second.y, cmm_key: d.second.cmm_key, g: d.second.g };
        let mut out = vec![];
        for (l, p) in alt_points(&d.first.public, seed) {
            out.push((format!("first.public: {l}"), AndAdapter { first: Dlog { public: p, coeff: d.first.coeff }, second: mk_second(d) }));
        }
        for (l, p) in alt_points(&d.second.y, seed) {
            let mut s = mk_second(d);
            s.y = p;
            out.push((format!("second.y: {l}"), AndAdapter { first: Dlog { public: d.first.public, coeff: d.first.coeff }, second: s }));
        }
        out
    };
    spawn_check!(s, report, cli, "and_adapter(dlog, com_eq)", "random", build, alts);
    // replicated dlog, sizes 0..3
    // (the adapter documents the precondition that there is at least one protocol)
    for n in 1..=3usize {
        let build = move |seed: u64| {
            let mut protocols = vec![];
            let mut secrets = vec![];
            for i in 0..n {
                let g = C::generate(&mut rng(seed, 7810 + i as u64));
                let x = C::generate_scalar(&mut rng(seed, 7820 + i as u64));
                protocols.push(Dlog::<C> { public: g.mul_by_scalar(&x), coeff: g });
                secrets.push(DlogSecret { secret: Value::new(x) });
            }
            (ReplicateAdapter { protocols }, secrets)
        };
        let alts = |d: &ReplicateAdapter<Dlog<C>>, seed: u64| {
            let clone = |d: &ReplicateAdapter<Dlog<C>>| d.protocols.iter().map(|p| Dlog { public: p.public, coeff: p.coeff }).collect::<Vec<_>>();
            let mut out = vec![];
            for i in 0..d.protocols.len() {
                for (l, p) in alt_points(&d.protocols[i].public, seed) {
                    let mut ps = clone(d);
                    ps[i].public = p;
                    out.push((format!("protocols[{i}].public: {l}"), ReplicateAdapter { protocols: ps }));
                }
            }
            if d.protocols.len() >= 2 {
                let mut ps = clone(d);
                ps.swap(0, 1);
                out.push(("instances 0 and 1 swapped".into(), ReplicateAdapter { protocols: ps }));
                let mut ps = clone(d);
                ps.pop();
                out.push(("last instance dropped".into(), ReplicateAdapter { protocols: ps }));
            }
            out
        };
        spawn_check!(s, report, cli, "replicate_adapter(dlog)", &format!("n={n}"), build, alts);
    }
}

fn com_ineq_checks(report: &Report, cli: &Cli) {
    let key = CommitmentKey::<C>::generate(&mut rng(cli.seed, 7900));
    let vals: Vec<F> = vec![F::zero(), F::one(), minus_one(), C::generate_scalar(&mut rng(cli.seed, 7901))];
    for (i, v) in vals.iter().enumerate() {
        for (j, pv) in vals.iter().enumerate() {
            case(report, json!({"protocol": "com_ineq", "value": VARIANT_NAMES[[1, 2, 3, 0][i]], "public_value": VARIANT_NAMES[[1, 2, 3, 0][j]]}), || {
                let r = Randomness::<C>::generate(&mut rng(cli.seed, 7902));
                let c = key.hide(&Value::<C>::new(*v), &r);
                let p = prove_com_ineq(&key, &Value::<C>::new(*v), &r, *pv, &mut rng(cli.seed, 7903));
                report.trace(1);
                match p {
                    None => {
                        if i != j {
                            return fail("valid-witness-not-provable", json!({}));
                        }
                    }
                    Some(p) => {
                        let ok = verify_com_ineq(&key, &c, *pv, &p);
                        if ok != (i != j) {
                            return fail(if i != j { "valid-proof-rejected" } else { "false-statement-verifies" }, json!({}));
                        }
                        if i != j {
                            // bound to the public value and the commitment
                            if verify_com_ineq(&key, &c, *v, &p) {
                                return fail("false-statement-verifies", json!({"what": "public value = committed value"}));
                            }
                            for (k, other) in vals.iter().enumerate() {
                                if k != j && verify_com_ineq(&key, &c, *other, &p) {
                                    return fail("proof-verifies-for-altered-statement", json!({"what": "other public value"}));
                                }
                            }
                            let c2 = key.hide(&Value::<C>::new(*pv), &r);
                            if verify_com_ineq(&key, &c2, *pv, &p) {
                                return fail("false-statement-verifies", json!({"what": "commitment to the public value"}));
                            }
                        }
                    }
                }
                Ok(())
            });
        }
    }
}

// ---------------------------------------------------------------------------------------
// Transcript framing: all sequences of <= k operations over a small alphabet; two sequences
// give the same challenge iff they are equal (up to the identities the API defines).
// ---------------------------------------------------------------------------------------

#[derive(Clone, Debug, PartialEq, Eq, Hash, PartialOrd, Ord)]
enum TOp {
    Label(&'static str),
    /// label-determined message type: "a" -> u8, "b" -> u64, "ab" -> Vec<u8>, "" -> Vec<u16> collection
    MsgU8(u8),
    MsgU64(u64),
    MsgBytes(Vec<u8>),
    Msgs(Vec<u16>),
    Each(Vec<u16>),
    Final(u8),
}

fn apply_top(t: &mut impl TranscriptProtocol, op: &TOp) {
    match op {
        TOp::Label(l) => t.append_label(l),
        TOp::MsgU8(v) => t.append_message("a", v),
        TOp::MsgU64(v) => t.append_message("b", v),
        TOp::MsgBytes(v) => t.append_message("ab", v),
        TOp::Msgs(v) => t.append_messages("", v.iter()),
        TOp::Each(v) => t.append_each_message("c", v.iter(), |tr, x| tr.append_message("a", &(*x as u8))),
        TOp::Final(v) => t.append_final_prover_message("a", v),
    }
}

/// Canonical form of a sequence under the identities the V1 API defines: a final prover
/// message is an ordinary message.
fn canonical_v1(seq: &[TOp]) -> Vec<TOp> {
    seq.iter()
        .map(|o| match o {
            TOp::Final(v) => TOp::MsgU8(*v),
            x => x.clone(),
        })
        .collect()
}

fn transcript_framing(report: &Report, cli: &Cli) {
    let alphabet: Vec<TOp> = vec![
        TOp::Label("c"),
        TOp::Label("d"),
        TOp::Label("cd"),
        TOp::MsgU8(0),
        TOp::MsgU8(1),
        TOp::MsgU64(0),
        TOp::MsgU64(1),
        TOp::MsgBytes(vec![]),
        TOp::MsgBytes(vec![0]),
        TOp::MsgBytes(vec![0, 0]),
        TOp::Msgs(vec![]),
        TOp::Msgs(vec![0]),
        TOp::Msgs(vec![0, 0]),
        TOp::Each(vec![]),
        TOp::Each(vec![0]),
        TOp::Each(vec![0, 0]),
        TOp::Final(0),
    ];
    let depth = if cli.tier == Tier::Quick { 3 } else { 4 };
    let mut seqs: Vec<Vec<TOp>> = vec![vec![]];
    let mut level: Vec<Vec<TOp>> = vec![vec![]];
    for _ in 0..depth {
        let mut next = vec![];
        for s in &level {
            for o in &alphabet {
                let mut t = s.clone();
                t.push(o.clone());
                next.push(t);
            }
        }
        seqs.extend(next.iter().cloned());
        level = next;
    }
    // V1: challenge -> canonical sequence must be injective
    let results: Vec<(Vec<u8>, Vec<TOp>)> = seqs
        .par_iter()
        .map(|s| {
            let mut t = TranscriptProtocolV1::with_domain("framing");
            for o in s {
                apply_top(&mut t, o);
            }
            (t.extract_raw_challenge().as_ref().to_vec(), canonical_v1(s))
        })
        .collect();
    let mut seen: BTreeMap<Vec<u8>, Vec<TOp>> = BTreeMap::new();
    for (ch, canon) in results {
        report.eval(1);
        report.trace(1);
        match seen.get(&ch) {
            None => {
                seen.insert(ch, canon);
            }
            Some(prev) => {
                if *prev != canon {
                    report.violation("transcript-framing-not-injective", json!({"a": format!("{prev:?}"), "b": format!("{canon:?}")}), json!({"protocol": "TranscriptProtocolV1"}));
                }
            }
        }
    }
    report.add_extra_count("transcript_sequences", seqs.len() as u64);
    report.add_extra_count("transcript_distinct_challenges", seen.len() as u64);
    // legacy oracle (documented not to length-prefix labels): same labels, different values
    let value_ops: Vec<Vec<TOp>> = vec![
        vec![TOp::MsgU8(0)],
        vec![TOp::MsgU8(1)],
        vec![TOp::MsgU64(0)],
        vec![TOp::MsgU64(1)],
        vec![TOp::MsgBytes(vec![])],
        vec![TOp::MsgBytes(vec![0])],
        vec![TOp::MsgBytes(vec![0, 0])],
        vec![TOp::MsgBytes(vec![1])],
    ];
    let mut seen: BTreeMap<Vec<u8>, String> = BTreeMap::new();
    for a in &value_ops {
        for b in &value_ops {
            // only sequences with the same label structure are claimed to be distinguished
            let mut t = RandomOracle::domain("framing");
            for o in a.iter().chain(b.iter()) {
                apply_top(&mut t, o);
            }
            let ch = t.extract_raw_challenge().as_ref().to_vec();
            let key = format!("{a:?}{b:?}");
            let shape = |s: &Vec<TOp>| std::mem::discriminant(&s[0]);
            report.eval(1);
            if let Some(prev) = seen.get(&ch) {
                if *prev != key {
                    // different values under identical labels must differ
                    let _ = shape;
                    report.violation("transcript-framing-not-injective", json!({"a": prev, "b": key}), json!({"protocol": "RandomOracle (legacy), same label structure"}));
                }
            } else {
                seen.insert(ch, key);
            }
        }
    }
}

pub fn run(cli: &Cli) -> ! {
    let report = Report::new(cli);
    {
        let report = &report;
        rayon::scope(|s| {
            dlog_family(s, report, cli);
            com_eq_family(s, report, cli);
            com_eq_diff_groups_family(s, report, cli);
            com_enc_eq_family(s, report, cli);
            com_mult_family(s, report, cli);
            com_lin_family(s, report, cli);
            aggregate_dlog_family(s, report, cli);
            vcom_eq_family(s, report, cli);
            com_eq_sig_family(s, report, cli);
            ps_sig_known_family(s, report, cli);
            adapters(s, report, cli);
            enc_trans_family(s, report, cli);
            s.spawn(move |_| com_ineq_checks(report, cli));
            s.spawn(move |_| transcript_framing(report, cli));
        });
    }
    let n = report.evaluations.load(std::sync::atomic::Ordering::Relaxed);
    report.state(n);
    report.transition(report.traces.load(std::sync::atomic::Ordering::Relaxed));
    report.nontrivial(n);
    report.sample(json!({"protocol": "com_mult", "variant": "a1=0 a2=r-1", "transcript": "V1", "context": "a", "perturbation": "cmms[2]: negation"}));
    report.sample(json!({"transcript_sequence": ["Label(c)", "MsgBytes([0])", "Each([0, 0])"]}));
    report.set_technique("exhaustive enumeration of statement shapes x witness alphabet x transcripts x contexts per protocol; for every valid instance the complete single-component perturbation set (each public field replaced by another element / identity / negation / double, vectors swapped / truncated / extended, every other context, the other transcript protocol, every bit of the challenge, every bit (quick: every 3rd beyond 768) of the response, another valid instance); explicit enumeration of all transcript operation sequences up to depth 3/4 for injectivity");
    report.set_rule("one case = one (protocol, variant, transcript, context) with all its perturbations; completeness must hold for every witness incl. 0, 1, r-1, repeated generators, vector sizes 0/1/2/5; every perturbation must be rejected");
    report.assume("EncTrans is enumerated for chunk counts t, t' in 1..3 (thorough 1..5); the production code only builds t = t' = 2 (covered end-to-end by C12); DlogEqual and DlogAndAggregateDlogsEqual live in private, unused modules (not reachable through the public API)");
    report.assume("soundness against an adaptive prover is a computational statement; only the enumerated perturbations are decided");
    report.assume("the legacy RandomOracle is documented not to length-prefix labels; for it only same-label/different-value sequences are claimed injective");
    report.finish(true, json!({"contexts": CONTEXTS.len(), "transcript_depth": if cli.tier == Tier::Quick { 3 } else { 4 }}));
}
