//! mc-core: shared plumbing for the bounded exhaustive explorers in /verif/engines.
//!
//! * command line (`--tier`, `--replay`, seed from `VERIF_SEED`)
//! * `Report`: thread-safe evidence counters, sample collection, violation artefacts,
//!   known-finding matching, evidence writer, exit codes
//! * `dfs_words`: stateless depth-first enumeration of all words over an alphabet
//! * `bfs_states`: explicit-state search over histories with canonical-state dedup
//! * `subsets`, `product`: small combinatorial helpers
//!
//! Exit codes: 0 = property held on everything explored, 1 = violation (a line
//! `VIOLATION property=<id> replay=<path>` was printed), 2 = machinery error.

use serde_json::{json, Value};
use std::{
    collections::{BTreeMap, BTreeSet, HashSet},
    path::{Path, PathBuf},
    sync::{
        atomic::{AtomicBool, AtomicU64, Ordering},
        Mutex,
    },
    time::Instant,
};

pub const VERIF_ROOT: &str = "/verif";

#[derive(Clone, Copy, Debug, PartialEq, Eq)]
pub enum Tier {
    Quick,
    Thorough,
}

impl Tier {
    pub fn as_str(&self) -> &'static str {
        match self {
            Tier::Quick => "quick",
            Tier::Thorough => "thorough",
        }
    }

    pub fn pick<T>(&self, quick: T, thorough: T) -> T {
        match self {
            Tier::Quick => quick,
            Tier::Thorough => thorough,
        }
    }
}

#[derive(Clone, Debug)]
pub struct Cli {
    pub property: String,
    pub tier:     Tier,
    pub replay:   Option<PathBuf>,
    pub seed:     u64,
    /// free-form extra `--key value` options
    pub extra:    BTreeMap<String, String>,
}

/// Parse `<PROPERTY> [--tier quick|thorough] [--replay path] [--key value]*`.
pub fn parse_cli() -> Cli {
    // anyhow captures a backtrace (under a global lock) for every error when these are
    // set; traps are ordinary outcomes here, so switch that off before any thread starts.
    std::env::set_var("RUST_BACKTRACE", "0");
    std::env::set_var("RUST_LIB_BACKTRACE", "0");
    let mut args = std::env::args().skip(1);
    let property = args.next().unwrap_or_else(|| machinery_error("usage: <engine> <PROPERTY> [--tier quick|thorough] [--replay <path>]"));
    let mut tier = match std::env::var("VERIF_TIER").ok().as_deref() {
        Some("thorough") => Tier::Thorough,
        _ => Tier::Quick,
    };
    let mut replay = None;
    let mut tier_given = false;
    let mut extra = BTreeMap::new();
    while let Some(a) = args.next() {
        match a.as_str() {
            "--tier" => {
                tier_given = true;
                tier = match args.next().as_deref() {
                    Some("quick") => Tier::Quick,
                    Some("thorough") => Tier::Thorough,
                    other => machinery_error(&format!("bad tier {:?}", other)),
                }
            }
            "--replay" => replay = Some(PathBuf::from(args.next().unwrap_or_else(|| machinery_error("--replay needs a path")))),
            k if k.starts_with("--") => {
                let v = args.next().unwrap_or_default();
                extra.insert(k[2..].to_string(), v);
            }
            other => machinery_error(&format!("unexpected argument {other}")),
        }
    }
    let mut seed = std::env::var("VERIF_SEED").ok().and_then(|s| s.parse::<u64>().ok()).unwrap_or(0);
    // a replay runs under the tier and seed the artefact was found with
    if let Some(path) = &replay {
        let doc = load_replay(path);
        if !tier_given {
            if let Some("thorough") = doc["tier"].as_str() {
                tier = Tier::Thorough;
            } else if let Some("quick") = doc["tier"].as_str() {
                tier = Tier::Quick;
            }
        }
        if let Some(s) = doc["seed"].as_u64() {
            seed = s;
        }
    }
    Cli { property, tier, replay, seed, extra }
}

pub fn machinery_error(msg: &str) -> ! {
    eprintln!("MACHINERY-ERROR: {msg}");
    std::process::exit(2)
}

/// One open entry of /verif/known_findings.jsonl.
#[derive(Clone, Debug)]
pub struct KnownFinding {
    pub property: String,
    pub id:       String,
    pub what:     String,
    pub witness:  Value,
}

/// Read /verif/known_findings.jsonl. JSON lines with `"status":"open"` are findings that
/// suppress a VIOLATION whose minimal witness is equal; lines starting with `fixed:` (or
/// JSON with status fixed) suppress nothing.
pub fn load_known_findings(property: &str) -> Vec<KnownFinding> {
    let path = Path::new(VERIF_ROOT).join("known_findings.jsonl");
    let Ok(text) = std::fs::read_to_string(&path) else { return vec![] };
    let mut out = vec![];
    for line in text.lines() {
        let line = line.trim();
        if line.is_empty() || line.starts_with('#') || line.starts_with("fixed:") {
            continue;
        }
        let Ok(v) = serde_json::from_str::<Value>(line) else { continue };
        if v.get("status").and_then(|s| s.as_str()) != Some("open") {
            continue;
        }
        if v.get("property").and_then(|s| s.as_str()) != Some(property) {
            continue;
        }
        out.push(KnownFinding {
            property: property.to_string(),
            id:       v.get("id").and_then(|s| s.as_str()).unwrap_or("?").to_string(),
            what:     v.get("what").and_then(|s| s.as_str()).unwrap_or("").to_string(),
            witness:  v.get("witness").cloned().unwrap_or(Value::Null),
        });
    }
    out
}

pub struct Report {
    pub property:  String,
    pub tier:      Tier,
    pub seed:      u64,
    start:         Instant,
    pub evaluations: AtomicU64,
    pub states:      AtomicU64,
    pub transitions: AtomicU64,
    pub traces:      AtomicU64,
    pub nontrivial:  AtomicU64,
    outcomes:      Mutex<BTreeMap<String, u64>>,
    samples:       Mutex<Vec<Value>>,
    sample_cap:    usize,
    violations:    Mutex<Vec<(String, Value)>>,
    violation_keys: Mutex<BTreeSet<String>>,
    known:         Vec<KnownFinding>,
    known_hit:     Mutex<BTreeSet<String>>,
    new_violations: AtomicU64,
    kind_hist:     Mutex<BTreeMap<String, u64>>,
    pub capped:    AtomicBool,
    extra:         Mutex<BTreeMap<String, Value>>,
    assumptions:   Mutex<Vec<String>>,
    rule:          Mutex<String>,
    technique:     Mutex<String>,
    pub max_reported: usize,
    /// `--replay <artefact>`: no evidence file is written
    replay_mode:   bool,
    /// generic replay: the engine re-runs its enumeration and only a violation with exactly
    /// this witness counts (engines that re-evaluate the one case themselves switch it off)
    replay_filter: Mutex<Option<Value>>,
}

impl Report {
    pub fn new(cli: &Cli) -> Self {
        Report {
            property: cli.property.clone(),
            tier: cli.tier,
            seed: cli.seed,
            start: Instant::now(),
            evaluations: AtomicU64::new(0),
            states: AtomicU64::new(0),
            transitions: AtomicU64::new(0),
            traces: AtomicU64::new(0),
            nontrivial: AtomicU64::new(0),
            outcomes: Mutex::new(BTreeMap::new()),
            samples: Mutex::new(vec![]),
            sample_cap: 12,
            violations: Mutex::new(vec![]),
            violation_keys: Mutex::new(BTreeSet::new()),
            known: load_known_findings(&cli.property),
            known_hit: Mutex::new(BTreeSet::new()),
            new_violations: AtomicU64::new(0),
            kind_hist: Mutex::new(BTreeMap::new()),
            capped: AtomicBool::new(false),
            extra: Mutex::new(BTreeMap::new()),
            assumptions: Mutex::new(vec![]),
            rule: Mutex::new(String::new()),
            technique: Mutex::new(String::new()),
            max_reported: 10,
            replay_mode: cli.replay.is_some(),
            replay_filter: Mutex::new(cli.replay.as_ref().map(|p| load_replay(p)["witness"].clone())),
        }
    }

    /// For engines that replay the single case of the artefact themselves.
    pub fn disable_replay_filter(&self) { *self.replay_filter.lock().unwrap() = None; }

    pub fn elapsed_s(&self) -> f64 { self.start.elapsed().as_secs_f64() }

    pub fn add(&self, c: &AtomicU64, n: u64) { c.fetch_add(n, Ordering::Relaxed); }

    pub fn eval(&self, n: u64) { self.evaluations.fetch_add(n, Ordering::Relaxed); }

    pub fn state(&self, n: u64) { self.states.fetch_add(n, Ordering::Relaxed); }

    pub fn transition(&self, n: u64) { self.transitions.fetch_add(n, Ordering::Relaxed); }

    pub fn trace(&self, n: u64) { self.traces.fetch_add(n, Ordering::Relaxed); }

    pub fn nontrivial(&self, n: u64) { self.nontrivial.fetch_add(n, Ordering::Relaxed); }

    pub fn outcome(&self, key: &str, n: u64) {
        *self.outcomes.lock().unwrap().entry(key.to_string()).or_insert(0) += n;
    }

    pub fn merge_outcomes(&self, m: &BTreeMap<String, u64>) {
        let mut o = self.outcomes.lock().unwrap();
        for (k, v) in m {
            *o.entry(k.clone()).or_insert(0) += v;
        }
    }

    pub fn sample(&self, v: Value) {
        let mut s = self.samples.lock().unwrap();
        if s.len() < self.sample_cap {
            s.push(v);
        }
    }

    pub fn samples_len(&self) -> usize { self.samples.lock().unwrap().len() }

    pub fn set_rule(&self, r: &str) { *self.rule.lock().unwrap() = r.to_string(); }

    pub fn set_technique(&self, r: &str) { *self.technique.lock().unwrap() = r.to_string(); }

    pub fn assume(&self, a: &str) { self.assumptions.lock().unwrap().push(a.to_string()); }

    pub fn set_extra(&self, k: &str, v: Value) { self.extra.lock().unwrap().insert(k.to_string(), v); }

    pub fn add_extra_count(&self, k: &str, n: u64) {
        let mut e = self.extra.lock().unwrap();
        let cur = e.get(k).and_then(|v| v.as_u64()).unwrap_or(0);
        e.insert(k.to_string(), json!(cur + n));
    }

    pub fn cap_hit(&self, what: &str) {
        self.capped.store(true, Ordering::Relaxed);
        self.set_extra("cap_hit", json!(what));
    }

    pub fn violation_count(&self) -> u64 { self.new_violations.load(Ordering::Relaxed) }

    /// Record a violation. `kind` is a short class name, `witness` the (already minimised,
    /// if the engine can) case; they identify the violation for deduplication and for
    /// matching against open known findings.
    pub fn violation(&self, kind: &str, witness: Value, detail: Value) {
        if let Some(w) = &*self.replay_filter.lock().unwrap() {
            if *w != witness {
                return;
            }
        }
        let key = format!("{kind}|{}", witness);
        {
            let mut keys = self.violation_keys.lock().unwrap();
            if !keys.insert(key) {
                return;
            }
        }
        for k in &self.known {
            if k.witness == witness {
                let mut hit = self.known_hit.lock().unwrap();
                if hit.insert(k.id.clone()) {
                    println!("KNOWN-FINDING: property={} {} {}", self.property, k.id, k.what);
                }
                return;
            }
        }
        self.new_violations.fetch_add(1, Ordering::Relaxed);
        *self.kind_hist.lock().unwrap().entry(kind.to_string()).or_insert(0) += 1;
        let doc = json!({
            "property": self.property,
            "kind": kind,
            "witness": witness,
            "detail": detail,
            "seed": self.seed,
            "tier": self.tier.as_str(),
        });
        let mut v = self.violations.lock().unwrap();
        v.push((kind.to_string(), doc));
        // keep memory bounded: retain the smallest witnesses only
        if v.len() > 4096 {
            v.sort_by_key(|(_, d)| d["witness"].to_string().len());
            v.truncate(1024);
        }
    }

    /// Write the buffered violations, smallest witness first (so the first artefact is the
    /// easiest to explain), and print the VIOLATION lines.
    fn flush_violations(&self) {
        let mut v = self.violations.lock().unwrap();
        v.sort_by_key(|(_, d)| (d["witness"].to_string().len(), d["witness"].to_string()));
        let dir = Path::new(VERIF_ROOT).join("out").join("violations");
        let _ = std::fs::create_dir_all(&dir);
        for (n, (kind, doc)) in v.iter().take(self.max_reported).enumerate() {
            let path = dir.join(format!("{}-{}-{}.json", self.property, self.tier.as_str(), n));
            let _ = std::fs::write(&path, serde_json::to_vec_pretty(doc).unwrap());
            println!("VIOLATION property={} replay={}", self.property, path.display());
            println!("  kind={kind} witness={}", doc["witness"]);
            println!("  detail={}", doc["detail"]);
        }
    }

    /// What an engine that runs as a part of another engine's check (env `VERIF_EMBEDDED=1`) hands
    /// back: counters, outcomes, extras and every violation.
    fn embedded_json(&self, exhaustive: bool) -> Value {
        let v = self.violations.lock().unwrap();
        json!({
            "evaluations": self.evaluations.load(Ordering::Relaxed),
            "states": self.states.load(Ordering::Relaxed),
            "transitions": self.transitions.load(Ordering::Relaxed),
            "traces": self.traces.load(Ordering::Relaxed),
            "nontrivial": self.nontrivial.load(Ordering::Relaxed),
            "exhaustive": exhaustive && !self.capped.load(Ordering::Relaxed),
            "outcomes": self.outcomes.lock().unwrap().clone(),
            "extra": self.extra.lock().unwrap().clone(),
            "technique": self.technique.lock().unwrap().clone(),
            "violations": v.iter().map(|(k, d)| json!({"kind": k, "witness": d["witness"], "detail": d["detail"]})).collect::<Vec<_>>(),
        })
    }

    /// Merge the result of an embedded engine run (see `run_embedded`).
    pub fn merge_embedded(&self, tag: &str, j: &Value) {
        self.eval(j["evaluations"].as_u64().unwrap_or(0));
        self.state(j["states"].as_u64().unwrap_or(0));
        self.transition(j["transitions"].as_u64().unwrap_or(0));
        self.trace(j["traces"].as_u64().unwrap_or(0));
        self.nontrivial(j["nontrivial"].as_u64().unwrap_or(0));
        if j["exhaustive"].as_bool() == Some(false) {
            self.capped.store(true, Ordering::Relaxed);
        }
        if let Some(o) = j["outcomes"].as_object() {
            for (k, v) in o {
                self.outcome(&format!("{tag}: {k}"), v.as_u64().unwrap_or(0));
            }
        }
        if let Some(o) = j["extra"].as_object() {
            for (k, v) in o {
                self.set_extra(&format!("{tag}.{k}"), v.clone());
            }
        }
        self.set_extra(&format!("{tag}.technique"), j["technique"].clone());
        for v in j["violations"].as_array().cloned().unwrap_or_default() {
            let mut w = v["witness"].clone();
            if let Some(o) = w.as_object_mut() {
                o.insert("engine".into(), json!(tag));
            }
            self.violation(v["kind"].as_str().unwrap_or("?"), w, v["detail"].clone());
        }
    }

    /// Write the evidence file and exit with the contract's exit code.
    pub fn finish(&self, exhaustive: bool, bound_completed: Value) -> ! {
        if std::env::var("VERIF_EMBEDDED").ok().as_deref() == Some("1") {
            println!("EMBEDDED-RESULT {}", self.embedded_json(exhaustive));
            std::process::exit(0)
        }
        self.flush_violations();
        let wall = self.elapsed_s();
        let outcomes = self.outcomes.lock().unwrap().clone();
        let mut coverage = serde_json::Map::new();
        let capped = self.capped.load(Ordering::Relaxed);
        coverage.insert("states".into(), json!(self.states.load(Ordering::Relaxed).max(1)));
        coverage.insert("transitions".into(), json!(self.transitions.load(Ordering::Relaxed).max(1)));
        coverage.insert("traces_validated_against_impl".into(), json!(self.traces.load(Ordering::Relaxed)));
        coverage.insert("evaluations".into(), json!(self.evaluations.load(Ordering::Relaxed)));
        coverage.insert("distinct_nontrivial".into(), json!(self.nontrivial.load(Ordering::Relaxed)));
        coverage.insert("rule".into(), json!(self.rule.lock().unwrap().clone()));
        coverage.insert("samples".into(), json!(self.samples.lock().unwrap().clone()));
        coverage.insert("exhaustive".into(), json!(exhaustive && !capped));
        coverage.insert("bound_completed".into(), bound_completed);
        coverage.insert("distinct_outcomes".into(), json!(outcomes.len()));
        coverage.insert("outcome_histogram".into(), json!(outcomes));
        coverage.insert("violation_kinds".into(), json!(self.kind_hist.lock().unwrap().clone()));
        coverage.insert("technique".into(), json!(self.technique.lock().unwrap().clone()));
        coverage.insert("known_findings_matched".into(), json!(self.known_hit.lock().unwrap().iter().cloned().collect::<Vec<_>>()));
        for (k, v) in self.extra.lock().unwrap().iter() {
            coverage.insert(k.clone(), v.clone());
        }
        let nviol = self.new_violations.load(Ordering::Relaxed);
        let doc = json!({
            "property_id": self.property,
            "tier": self.tier.as_str(),
            "seed": self.seed,
            "level": "model_checking",
            "coverage": Value::Object(coverage),
            "assumptions": self.assumptions.lock().unwrap().clone(),
            "wall_s": wall,
            "violations": nviol,
        });
        if self.replay_mode {
            println!("replay verdict: {}", if nviol > 0 { "VIOLATION reproduced" } else if !self.known_hit.lock().unwrap().is_empty() { "known finding reproduced" } else { "not reproduced: the property holds on this case" });
        } else {
            // VERIF_EVIDENCE_DIR: side runs (a thorough tier next to committed quick evidence, a run
            // against a seeded change) write elsewhere; the registered commands never set it.
            let dir = match std::env::var_os("VERIF_EVIDENCE_DIR") {
                Some(d) => std::path::PathBuf::from(d),
                None => Path::new(VERIF_ROOT).join("evidence"),
            };
            let _ = std::fs::create_dir_all(&dir);
            let path = dir.join(format!("{}.json", self.property));
            if let Err(e) = std::fs::write(&path, serde_json::to_vec_pretty(&doc).unwrap()) {
                machinery_error(&format!("cannot write evidence {}: {e}", path.display()));
            }
        }
        if nviol > 0 {
            println!("violation kinds: {:?}", self.kind_hist.lock().unwrap());
        }
        println!(
            "{} tier={} evaluations={} states={} transitions={} traces={} nontrivial={} outcomes={} exhaustive={} violations={} wall={:.1}s",
            self.property,
            self.tier.as_str(),
            self.evaluations.load(Ordering::Relaxed),
            self.states.load(Ordering::Relaxed),
            self.transitions.load(Ordering::Relaxed),
            self.traces.load(Ordering::Relaxed),
            self.nontrivial.load(Ordering::Relaxed),
            outcomes.len(),
            exhaustive && !capped,
            nviol,
            wall
        );
        std::process::exit(if nviol > 0 { 1 } else { 0 })
    }
}

/// Run another engine of the workspace (a sibling binary) as a part of this check and return
/// what it found. Its own evidence and violation files are not written; the caller merges.
/// Run a part of this engine in a child process (`--part <name>`), so that a crash of the code
/// under test (a wild read after a broken bounds check ...) is an observation, not the end of the
/// check. `Err((status, last_case))`: the child died; `last_case` is the last `CASE <json>` line
/// it wrote to stderr before it did.
pub fn run_part_in_child(property: &str, tier: Tier, part: &str) -> Result<Value, (String, Value)> {
    let exe = std::env::current_exe().unwrap_or_else(|e| machinery_error(&format!("current_exe: {e}")));
    let out = std::process::Command::new(&exe).arg(property).arg("--tier").arg(tier.as_str()).arg("--part").arg(part).env("VERIF_EMBEDDED", "1").output().unwrap_or_else(|e| machinery_error(&format!("cannot start {}: {e}", exe.display())));
    let stdout = String::from_utf8_lossy(&out.stdout);
    if let Some(j) = stdout.lines().rev().find_map(|l| l.strip_prefix("EMBEDDED-RESULT ").and_then(|j| serde_json::from_str::<Value>(j).ok())) {
        return Ok(j);
    }
    let stderr = String::from_utf8_lossy(&out.stderr);
    let last = stderr.lines().rev().find_map(|l| l.strip_prefix("CASE ").and_then(|j| serde_json::from_str::<Value>(j).ok())).unwrap_or(Value::Null);
    Err((format!("{:?}", out.status), last))
}

/// Is this process a child started by `run_part_in_child` / `run_embedded`?
pub fn is_embedded() -> bool { std::env::var("VERIF_EMBEDDED").ok().as_deref() == Some("1") }

pub fn run_embedded(engine: &str, property: &str, tier: Tier) -> Value {
    let exe = std::env::current_exe().unwrap_or_else(|e| machinery_error(&format!("current_exe: {e}")));
    let other = exe.with_file_name(engine);
    let out = std::process::Command::new(&other).arg(property).arg("--tier").arg(tier.as_str()).env("VERIF_EMBEDDED", "1").output().unwrap_or_else(|e| machinery_error(&format!("cannot start {}: {e}", other.display())));
    let stdout = String::from_utf8_lossy(&out.stdout);
    match stdout.lines().rev().find_map(|l| l.strip_prefix("EMBEDDED-RESULT ").and_then(|j| serde_json::from_str::<Value>(j).ok())) {
        Some(j) => j,
        None => machinery_error(&format!("embedded engine {engine} ended without a result ({:?}): {}", out.status, String::from_utf8_lossy(&out.stderr).chars().rev().take(400).collect::<String>().chars().rev().collect::<String>())),
    }
}

/// Load the `witness` of a violation artefact for `--replay`.
pub fn load_replay(path: &Path) -> Value {
    let text = std::fs::read_to_string(path).unwrap_or_else(|e| machinery_error(&format!("cannot read {}: {e}", path.display())));
    serde_json::from_str::<Value>(&text).unwrap_or_else(|e| machinery_error(&format!("bad replay file: {e}")))
}

/// Stateless DFS over all words `w` with `|w| <= max_len` over symbols `0..n_symbols(state)`.
/// `step(state, symbol)` returns the successor state or `None` if the symbol is not admissible
/// after this prefix. `visit(word, state)` is called on every admissible prefix (including
/// the empty one) and returns `false` to prune below it.
pub fn dfs_words<S: Clone, FS, FV>(init: S, n_symbols: usize, max_len: usize, step: &FS, visit: &mut FV)
where
    FS: Fn(&S, usize) -> Option<S>,
    FV: FnMut(&[usize], &S) -> bool, {
    fn go<S: Clone, FS: Fn(&S, usize) -> Option<S>, FV: FnMut(&[usize], &S) -> bool>(
        word: &mut Vec<usize>,
        st: &S,
        n: usize,
        max_len: usize,
        step: &FS,
        visit: &mut FV,
    ) {
        if !visit(word, st) {
            return;
        }
        if word.len() == max_len {
            return;
        }
        for s in 0..n {
            if let Some(next) = step(st, s) {
                word.push(s);
                go(word, &next, n, max_len, step, visit);
                word.pop();
            }
        }
    }
    let mut w = vec![];
    go(&mut w, &init, n_symbols, max_len, step, visit);
}

/// All subsets of `0..n` as bitmasks, ordered by size then value (fewest deviations first).
pub fn subsets_by_size(n: usize) -> Vec<u32> {
    let mut v: Vec<u32> = (0..(1u32 << n)).collect();
    v.sort_by_key(|m| (m.count_ones(), *m));
    v
}

/// Cartesian product of index ranges.
pub fn product(dims: &[usize]) -> Vec<Vec<usize>> {
    let mut out = vec![vec![]];
    for &d in dims {
        let mut next = Vec::with_capacity(out.len() * d);
        for p in &out {
            for i in 0..d {
                let mut q = p.clone();
                q.push(i);
                next.push(q);
            }
        }
        out = next;
    }
    out
}

/// Explicit-state BFS. A state is identified by the event history that reaches it (the
/// implementation objects are rebuilt by the caller by replaying the history). `expand`
/// receives a history and must return, for every enabled event, `(event, canon)` where
/// `canon` is the canonical form of the successor, or report violations itself. Returns
/// (distinct states, transitions, max depth reached).
pub fn bfs_states<E: Clone + Send + Sync, FE>(max_depth: usize, dedup: bool, expand: FE) -> (u64, u64, usize)
where
    FE: Fn(&[E]) -> Vec<(E, Vec<u8>)> + Sync, {
    use rayon::prelude::*;
    let mut seen: HashSet<Vec<u8>> = HashSet::new();
    let mut frontier: Vec<Vec<E>> = vec![vec![]];
    let mut states = 1u64;
    let mut transitions = 0u64;
    let mut depth = 0usize;
    while !frontier.is_empty() && depth < max_depth {
        let results: Vec<(Vec<E>, Vec<(E, Vec<u8>)>)> = frontier.par_iter().map(|h| (h.clone(), expand(h))).collect();
        let mut next = vec![];
        for (h, succs) in results {
            for (e, canon) in succs {
                transitions += 1;
                let fresh = if dedup { seen.insert(canon) } else { true };
                if fresh {
                    states += 1;
                    let mut nh = h.clone();
                    nh.push(e);
                    next.push(nh);
                }
            }
        }
        frontier = next;
        depth += 1;
    }
    (states, transitions, depth)
}

pub fn hex(b: &[u8]) -> String { hex::encode(b) }

pub fn sha256(b: &[u8]) -> [u8; 32] {
    use sha2::Digest;
    sha2::Sha256::digest(b).into()
}

/// Run `f` catching panics; the panic message is returned as `Err`.
pub fn catch<R>(f: impl FnOnce() -> R) -> Result<R, String> {
    match std::panic::catch_unwind(std::panic::AssertUnwindSafe(f)) {
        Ok(r) => Ok(r),
        Err(e) => {
            let msg = if let Some(s) = e.downcast_ref::<&str>() {
                s.to_string()
            } else if let Some(s) = e.downcast_ref::<String>() {
                s.clone()
            } else {
                "panic (non-string payload)".to_string()
            };
            Err(msg)
        }
    }
}

/// Silence the default panic hook (the engines catch panics and report them themselves).
pub fn quiet_panics() {
    if std::env::var_os("VERIF_LOUD_PANICS").is_some() {
        return;
    }
    std::panic::set_hook(Box::new(|_| {}));
}

// ---------------------------------------------------------------------------------------
// Allocator for the engines.
//
// `Artifact::run` allocates (and zeroes) the full 32 MiB address range of a contract's
// linear memory for every run. With the system allocator that is one mmap + one munmap
// per run, both of which take the process-wide address-space lock exclusively, so 16
// exploring threads serialise on it. This allocator keeps a small pool of such blocks and
// resets a returned block with madvise(MADV_DONTNEED) (which only needs the lock shared,
// and makes the pages read as zero again), so the implementation under test sees exactly
// what it would see from a fresh calloc: a zero-filled block.
// ---------------------------------------------------------------------------------------

use std::alloc::{GlobalAlloc, Layout, System};
use std::sync::atomic::AtomicUsize;

pub const BIG_BLOCK: usize = 512 * 65536;
const POOL_SLOTS: usize = 64;

pub struct PoolAlloc;

static POOL: [AtomicUsize; POOL_SLOTS] = [const { AtomicUsize::new(0) }; POOL_SLOTS];

thread_local! {
    /// Upper bound (in bytes) on the prefix of a big block that the current thread's runs can
    /// have written to; `usize::MAX` = unknown. Set by the harness from the artifact's
    /// declared maximal memory before running it.
    static DIRTY_LIMIT: std::cell::Cell<usize> = const { std::cell::Cell::new(usize::MAX) };
    /// One cached big block per thread (0 = none).
    static LOCAL_BLOCK: std::cell::Cell<usize> = const { std::cell::Cell::new(0) };
}

/// Tell the allocator that until further notice big blocks freed by this thread have been
/// written to at most in their first `bytes` bytes (the linear memory of the artifact being
/// run cannot grow beyond that). Blocks are then reset by zeroing that prefix instead of a
/// system call.
pub fn set_dirty_limit(bytes: usize) { DIRTY_LIMIT.with(|d| d.set(bytes)); }

const MEMSET_MAX: usize = 1 << 20;

unsafe fn big_alloc() -> *mut u8 {
    // The dirty limit in force when the block is handed out is recorded out of band, in an
    // extra page behind the block, and used when the block comes back (which may be after
    // the harness has moved on to another artifact).
    let limit = DIRTY_LIMIT.with(|d| d.get());
    let local = LOCAL_BLOCK.with(|l| l.replace(0));
    if local != 0 {
        *((local + BIG_BLOCK) as *mut usize) = limit;
        return local as *mut u8;
    }
    for slot in POOL.iter() {
        let p = slot.swap(0, Ordering::AcqRel);
        if p != 0 {
            *((p + BIG_BLOCK) as *mut usize) = limit;
            return p as *mut u8;
        }
    }
    let p = libc::mmap(
        std::ptr::null_mut(),
        BIG_BLOCK + 4096,
        libc::PROT_READ | libc::PROT_WRITE,
        libc::MAP_PRIVATE | libc::MAP_ANONYMOUS,
        -1,
        0,
    );
    if p == libc::MAP_FAILED {
        std::ptr::null_mut()
    } else {
        *((p as usize + BIG_BLOCK) as *mut usize) = limit;
        p as *mut u8
    }
}

unsafe fn big_free(ptr: *mut u8) {
    // make the block read as zeroes again, then keep it for reuse
    let limit = *((ptr as usize + BIG_BLOCK) as *const usize);
    if limit <= MEMSET_MAX {
        std::ptr::write_bytes(ptr, 0, limit);
    } else {
        libc::madvise(ptr as *mut libc::c_void, BIG_BLOCK, libc::MADV_DONTNEED);
    }
    let kept = LOCAL_BLOCK.with(|l| {
        if l.get() == 0 {
            l.set(ptr as usize);
            true
        } else {
            false
        }
    });
    if kept {
        return;
    }
    for slot in POOL.iter() {
        if slot.compare_exchange(0, ptr as usize, Ordering::AcqRel, Ordering::Relaxed).is_ok() {
            return;
        }
    }
    libc::munmap(ptr as *mut libc::c_void, BIG_BLOCK + 4096);
}

unsafe impl GlobalAlloc for PoolAlloc {
    unsafe fn alloc(&self, layout: Layout) -> *mut u8 {
        if layout.size() == BIG_BLOCK && layout.align() <= 4096 {
            big_alloc()
        } else {
            System.alloc(layout)
        }
    }

    unsafe fn alloc_zeroed(&self, layout: Layout) -> *mut u8 {
        if layout.size() == BIG_BLOCK && layout.align() <= 4096 {
            // pooled blocks are zero: fresh from mmap or reset by MADV_DONTNEED
            big_alloc()
        } else {
            System.alloc_zeroed(layout)
        }
    }

    unsafe fn dealloc(&self, ptr: *mut u8, layout: Layout) {
        if layout.size() == BIG_BLOCK && layout.align() <= 4096 {
            big_free(ptr)
        } else {
            System.dealloc(ptr, layout)
        }
    }

    unsafe fn realloc(&self, ptr: *mut u8, layout: Layout, new_size: usize) -> *mut u8 {
        if layout.size() == BIG_BLOCK || new_size == BIG_BLOCK {
            let new_layout = Layout::from_size_align_unchecked(new_size, layout.align());
            let n = self.alloc(new_layout);
            if !n.is_null() {
                std::ptr::copy_nonoverlapping(ptr, n, layout.size().min(new_size));
                self.dealloc(ptr, layout);
            }
            n
        } else {
            System.realloc(ptr, layout, new_size)
        }
    }
}
