//! C05: on-chain binary encodings round-trip, are canonical, and decode totally.
//!
//! A registry of the `Serial`/`Deserial` chain types with a structurally built small-scope
//! value set per type; for every value the complete byte neighbourhood of its encoding is
//! decoded (see `harness::sweep`).

use crate::harness::*;
use concordium_base::{
    base::*,
    common::{
        to_bytes,
        types::{Amount, CredentialIndex, KeyIndex, KeyPair, Ratio, Signature, Timestamp, TransactionSignature, TransactionSignaturesV1, TransactionTime},
        Deserial, Serial,
    },
    contracts_common::{AccountAddress, AccountThreshold, Address, ContractAddress, Duration, ModuleReference, SignatureThreshold},
    constants::MAX_PAYLOAD_SIZE,
    hashes,
    smart_contracts::{ModuleSource, OwnedContractName, OwnedParameter, OwnedReceiveName, WasmModule, WasmVersion},
    transactions::*,
    updates::*,
};
use rand::SeedableRng;
use rand_chacha::ChaCha20Rng;
use std::{collections::BTreeMap, fmt::Debug};

pub fn rng(seed: u64, salt: u64) -> ChaCha20Rng { ChaCha20Rng::seed_from_u64(seed.wrapping_mul(0x9E37_79B9_7F4A_7C15).wrapping_add(salt).wrapping_add(0xC0DEC)) }

pub fn dec_base<T: Deserial>(b: &[u8]) -> Option<(T, usize)> {
    let mut c = std::io::Cursor::new(b);
    T::deserial(&mut c).ok().map(|v| (v, c.position() as usize))
}

/// Sweep a type whose values are compared through their encodings (most chain types do
/// not implement `PartialEq`).
pub fn sweep_base<T: Serial + Deserial + Debug>(ctx: &mut Ctx, name: &str, values: Vec<T>) { sweep_cost(ctx, name, values, 1) }

pub fn sweep_cost<T: Serial + Deserial + Debug>(ctx: &mut Ctx, name: &str, values: Vec<T>, cost: usize) {
    let enc = |v: &T| to_bytes(v);
    let dec = |b: &[u8]| dec_base::<T>(b);
    let eq = |a: &T, b: &T| to_bytes(a) == to_bytes(b);
    let show = |v: &T| format!("{v:?}");
    let c = Codec { name, enc: &enc, dec: &dec, eq: &eq, show: &show, canonical: true, alloc_const: 4 << 20, alloc_factor: 64, short_inputs: true, cost };
    let t0 = std::time::Instant::now();
    sweep(ctx, &c, &values);
    ctx.extra.insert(format!("values.{name}"), serde_json::json!(values.len()));
    ctx.extra.insert(format!("ms.{name}"), serde_json::json!(t0.elapsed().as_millis() as u64));
}

/// The same with structural equality.
pub fn sweep_eq<T: Serial + Deserial + Debug + PartialEq>(ctx: &mut Ctx, name: &str, values: Vec<T>) {
    let enc = |v: &T| to_bytes(v);
    let dec = |b: &[u8]| dec_base::<T>(b);
    let eq = |a: &T, b: &T| a == b;
    let show = |v: &T| format!("{v:?}");
    let c = Codec { name, enc: &enc, dec: &dec, eq: &eq, show: &show, canonical: true, alloc_const: 4 << 20, alloc_factor: 64, short_inputs: true, cost: 1 };
    let t0 = std::time::Instant::now();
    sweep(ctx, &c, &values);
    ctx.extra.insert(format!("values.{name}"), serde_json::json!(values.len()));
    ctx.extra.insert(format!("ms.{name}"), serde_json::json!(t0.elapsed().as_millis() as u64));
}

macro_rules! eqt {
    ($t:expr, $ty:ty, $vals:expr) => {{
        let vals: Vec<$ty> = $vals;
        $t.add(move |ctx: &mut Ctx| sweep_eq::<$ty>(ctx, stringify!($ty), vals))
    }};
}
macro_rules! ent {
    ($t:expr, $ty:ty, $vals:expr) => {{
        let vals: Vec<$ty> = $vals;
        $t.add(move |ctx: &mut Ctx| sweep_base::<$ty>(ctx, stringify!($ty), vals))
    }};
    ($t:expr, $ty:ty, $vals:expr, $cost:expr) => {{
        let vals: Vec<$ty> = $vals;
        $t.add(move |ctx: &mut Ctx| sweep_cost::<$ty>(ctx, stringify!($ty), vals, $cost))
    }};
}

pub fn addr(b: u8) -> AccountAddress { AccountAddress([b; 32]) }
pub fn frac(p: u32) -> AmountFraction { AmountFraction::new(p).unwrap() }
pub fn amt(a: u64) -> Amount { Amount::from_micro_ccd(a) }

/// decode a value from hand-written bytes (for types without public constructors)
fn from_hex<T: Deserial>(h: &str) -> T {
    let b = hex::decode(h).unwrap();
    let (v, n) = dec_base::<T>(&b).unwrap_or_else(|| mc_core::machinery_error(&format!("fixture bytes {h} do not decode")));
    assert_eq!(n, b.len());
    v
}

pub const GROUPS: [&str; 10] = ["scalars", "transactions", "payloads", "updates", "credentials", "crypto", "misc", "statements", "web3v1", "idmisc"];

pub fn run_group(ctx: &mut Tasks, group: &str) {
    match group {
        "scalars" => scalars(ctx),
        "transactions" => {
            transactions(ctx);
            long_fields(ctx);
        }
        "payloads" => payloads(ctx),
        "updates" => updates(ctx),
        "credentials" => crate::c05b::credentials(ctx),
        "crypto" => crate::c05b::crypto(ctx),
        "misc" => crate::c05c::misc(ctx),
        "statements" => crate::c05c::statements(ctx),
        "web3v1" => crate::c05c::web3v1(ctx),
        "idmisc" => crate::c05c::idmisc(ctx),
        g => mc_core::machinery_error(&format!("unknown C05 group {g}")),
    }
}

fn scalars(ctx: &mut Tasks) {
    let u64s = [0u64, 1, u64::MAX];
    eqt!(ctx, Amount, u64s.iter().map(|x| amt(*x)).collect());
    eqt!(ctx, Energy, u64s.iter().map(|x| Energy::from(*x)).collect());
    eqt!(ctx, Nonce, u64s.iter().map(|x| Nonce::from(*x)).collect());
    eqt!(ctx, BakerId, u64s.iter().map(|x| BakerId::from(AccountIndex::from(*x))).collect());
    eqt!(ctx, Slot, u64s.iter().map(|x| Slot::from(*x)).collect());
    eqt!(ctx, Epoch, u64s.iter().map(|x| Epoch::from(*x)).collect());
    eqt!(ctx, Round, u64s.iter().map(|x| Round::from(*x)).collect());
    eqt!(ctx, UpdateSequenceNumber, u64s.iter().map(|x| UpdateSequenceNumber::from(*x)).collect());
    eqt!(ctx, BlockHeight, u64s.iter().map(|x| BlockHeight::from(*x)).collect());
    eqt!(ctx, AbsoluteBlockHeight, u64s.iter().map(|x| AbsoluteBlockHeight::from(*x)).collect());
    eqt!(ctx, AccountIndex, u64s.iter().map(|x| AccountIndex::from(*x)).collect());
    ent!(ctx, TransactionIndex, u64s.iter().map(|x| TransactionIndex { index: *x }).collect());
    eqt!(ctx, SlotDuration, u64s.iter().map(|x| SlotDuration::from(*x)).collect());
    eqt!(ctx, DurationSeconds, u64s.iter().map(|x| DurationSeconds::from(*x)).collect());
    eqt!(ctx, GenesisIndex, [0u32, 1, u32::MAX].iter().map(|x| GenesisIndex::from(*x)).collect());
    eqt!(ctx, CredentialsPerBlockLimit, [0u16, 1, u16::MAX].iter().map(|x| CredentialsPerBlockLimit::from(*x)).collect());
    eqt!(ctx, ProtocolVersion, (1u64..=16).filter_map(|v| ProtocolVersion::try_from(v).ok()).collect());
    eqt!(ctx, TransactionTime, u64s.iter().map(|x| TransactionTime { seconds: *x }).collect());
    eqt!(ctx, Timestamp, u64s.iter().map(|x| Timestamp { millis: *x }).collect());
    eqt!(ctx, Duration, u64s.iter().map(|x| Duration::from_millis(*x)).collect());
    eqt!(ctx, KeyIndex, [0u8, 1, 255].iter().map(|x| KeyIndex(*x)).collect());
    eqt!(ctx, CredentialIndex, [0u8, 1, 255].iter().map(|x| CredentialIndex { index: *x }).collect());
    eqt!(ctx, AccountThreshold, [1u8, 2, 255].iter().map(|x| AccountThreshold::try_from(*x).unwrap()).collect());
    eqt!(ctx, SignatureThreshold, [1u8, 2, 255].iter().map(|x| SignatureThreshold::try_from(*x).unwrap()).collect());
    eqt!(ctx, UpdateKeysThreshold, [1u16, 2, u16::MAX].iter().map(|x| UpdateKeysThreshold::try_from(*x).unwrap()).collect());
    eqt!(ctx, UpdateKeysIndex, [0u16, 1, u16::MAX].iter().map(|x| UpdateKeysIndex { index: *x }).collect());
    eqt!(ctx, PartsPerHundredThousands, [0u32, 1, 99_999, 100_000].iter().map(|x| PartsPerHundredThousands::new(*x).unwrap()).collect());
    eqt!(ctx, AmountFraction, [0u32, 1, 100_000].iter().map(|x| frac(*x)).collect());
    eqt!(ctx, ElectionDifficulty, [0u32, 1, 99_999].iter().map(|x| ElectionDifficulty::new(*x).unwrap()).collect());
    eqt!(ctx, ExchangeRate, [(1u64, 1u64), (0, 1), (1, u64::MAX), (u64::MAX, 1), (7, 3)].iter().filter_map(|(n, d)| ExchangeRate::new(*n, *d)).collect());
    ent!(ctx, Ratio, [(1u64, 1u64), (0, 1), (1, u64::MAX), (u64::MAX, 1), (7, 3)].iter().filter_map(|(n, d)| Ratio::new(*n, *d).ok()).collect());
    eqt!(ctx, LeverageFactor, [(1u64, 1u64), (3, 1), (u64::MAX, 1), (7, 3)].iter().filter_map(|(n, d)| LeverageFactor::new(*n, *d)).collect());
    eqt!(ctx, MintRate, vec![MintRate { mantissa: 0, exponent: 0 }, MintRate { mantissa: 1, exponent: 255 }, MintRate { mantissa: u32::MAX, exponent: 1 }]);
    eqt!(ctx, OpenStatus, vec![OpenStatus::OpenForAll, OpenStatus::ClosedForNew, OpenStatus::ClosedForAll]);
    eqt!(ctx, DelegationTarget, vec![DelegationTarget::Passive, DelegationTarget::Baker { baker_id: BakerId::from(AccountIndex::from(0u64)) }, DelegationTarget::Baker { baker_id: BakerId::from(AccountIndex::from(u64::MAX)) }]);
    eqt!(ctx, UrlText, ["", "a", &"u".repeat(2048)].iter().map(|s| UrlText::try_from(s.to_string()).unwrap()).collect());
    eqt!(ctx, InclusiveRange<AmountFraction>, vec![InclusiveRange { min: frac(0), max: frac(0) }, InclusiveRange { min: frac(0), max: frac(100_000) }, InclusiveRange { min: frac(5), max: frac(6) }]);
    eqt!(ctx, CommissionRates, vec![CommissionRates { finalization: frac(0), baking: frac(1), transaction: frac(100_000) }]);
    ent!(ctx, CommissionRanges, vec![CommissionRanges { finalization: InclusiveRange { min: frac(0), max: frac(1) }, baking: InclusiveRange { min: frac(2), max: frac(2) }, transaction: InclusiveRange { min: frac(0), max: frac(100_000) } }]);
    ent!(ctx, MintDistributionV0, vec![MintDistributionV0 { mint_per_slot: MintRate { mantissa: 1, exponent: 2 }, baking_reward: frac(60_000), finalization_reward: frac(40_000) }, MintDistributionV0 { mint_per_slot: MintRate { mantissa: 0, exponent: 0 }, baking_reward: frac(0), finalization_reward: frac(0) }]);
    ent!(ctx, MintDistributionV1, vec![MintDistributionV1 { baking_reward: frac(60_000), finalization_reward: frac(40_000) }, MintDistributionV1 { baking_reward: frac(0), finalization_reward: frac(0) }]);
    eqt!(ctx, CapitalBound, vec![CapitalBound { bound: frac(0) }, CapitalBound { bound: frac(100_000) }]);
    eqt!(ctx, AccountAddress, vec![addr(0), addr(1), addr(255)]);
    eqt!(ctx, ContractAddress, vec![ContractAddress::new(0, 0), ContractAddress::new(1, u64::MAX), ContractAddress::new(u64::MAX, 1)]);
    eqt!(ctx, Address, vec![Address::Account(addr(7)), Address::Contract(ContractAddress::new(1, 2))]);
    eqt!(ctx, hashes::TransactionHash, vec![hashes::TransactionHash::from([0u8; 32]), hashes::TransactionHash::from([255u8; 32])]);
    eqt!(ctx, ModuleReference, vec![ModuleReference::from([0u8; 32]), ModuleReference::from([9u8; 32])]);
    eqt!(ctx, Memo, [0usize, 1, 256].iter().map(|n| Memo::try_from(vec![7u8; *n]).unwrap()).collect());
    ent!(ctx, RegisteredData, [0usize, 1, 256].iter().map(|n| RegisteredData::try_from(vec![7u8; *n]).unwrap()).collect());
    eqt!(ctx, OwnedContractName, ["init_", "init_a", &format!("init_{}", "c".repeat(95))].iter().map(|s| OwnedContractName::new(s.to_string()).unwrap()).collect());
    eqt!(ctx, OwnedReceiveName, ["a.", "a.b", &format!("{}.{}", "c".repeat(50), "d".repeat(49))].iter().map(|s| OwnedReceiveName::new(s.to_string()).unwrap()).collect());
    eqt!(ctx, OwnedParameter, [0usize, 1, 1024, 65535].iter().map(|n| OwnedParameter::try_from(vec![3u8; *n]).unwrap()).collect());
    eqt!(ctx, WasmVersion, vec![WasmVersion::V0, WasmVersion::V1]);
    ent!(ctx, ModuleSource, [0usize, 1, 300].iter().map(|n| ModuleSource::from(vec![1u8; *n])).collect());
    ent!(ctx, WasmModule, vec![WasmModule { version: WasmVersion::V0, source: ModuleSource::from(vec![]) }, WasmModule { version: WasmVersion::V1, source: ModuleSource::from(vec![0, 0x61, 0x73, 0x6d]) }]);
    ent!(ctx, Signature, [0usize, 1, 64, 65535].iter().map(|n| Signature { sig: vec![5u8; *n] }).collect());
    ent!(ctx, PayloadSize, [0u32, 1, MAX_PAYLOAD_SIZE].iter().map(|n| from_hex::<PayloadSize>(&hex::encode(n.to_be_bytes()))).collect());
}

pub fn sig_map(creds: &[(u8, &[u8])]) -> TransactionSignature {
    let mut signatures = BTreeMap::new();
    for (c, keys) in creds {
        let mut m = BTreeMap::new();
        for k in keys.iter() {
            m.insert(KeyIndex(*k), Signature { sig: vec![*c ^ *k; 64] });
        }
        signatures.insert(CredentialIndex { index: *c }, m);
    }
    TransactionSignature { signatures }
}

pub fn header(payload_size: u32) -> TransactionHeader { TransactionHeader { sender: addr(1), nonce: Nonce::from(7u64), energy_amount: Energy::from(1000u64), payload_size: from_hex::<PayloadSize>(&hex::encode(payload_size.to_be_bytes())), expiry: TransactionTime { seconds: 99 } } }

fn transactions(ctx: &mut Tasks) {
    ent!(ctx, TransactionSignature, vec![sig_map(&[(0, &[0])]), sig_map(&[(0, &[0, 1, 255])]), sig_map(&[(0, &[0]), (1, &[3]), (255, &[255])])]);
    ent!(ctx, TransactionSignaturesV1, vec![TransactionSignaturesV1 { sender: sig_map(&[(0, &[0])]), sponsor: None }, TransactionSignaturesV1 { sender: sig_map(&[(0, &[0, 1])]), sponsor: Some(sig_map(&[(1, &[2])])) }]);
    ent!(ctx, TransactionHeader, vec![header(0), header(41), header(MAX_PAYLOAD_SIZE)]);
    let h1 = |sponsor: Option<AccountAddress>, n: u32| TransactionHeaderV1 { sender: addr(1), nonce: Nonce::from(7u64), energy_amount: Energy::from(1000u64), payload_size: from_hex::<PayloadSize>(&hex::encode(n.to_be_bytes())), expiry: TransactionTime { seconds: 99 }, sponsor };
    ent!(ctx, TransactionHeaderV1, vec![h1(None, 0), h1(Some(addr(9)), 41), h1(Some(addr(1)), MAX_PAYLOAD_SIZE)]);
    let transfer = Payload::Transfer { to_address: addr(2), amount: amt(17) }.encode();
    let memo = Payload::TransferWithMemo { to_address: addr(2), memo: Memo::try_from(vec![1, 2, 3]).unwrap(), amount: amt(u64::MAX) }.encode();
    let empty = EncodedPayload::try_from(vec![]).unwrap();
    let psize = |p: &EncodedPayload| to_bytes(p).len() as u32;
    ent!(ctx, AccountTransaction<EncodedPayload>, vec![
        AccountTransaction { signature: sig_map(&[(0, &[0])]), header: header(psize(&transfer)), payload: transfer.clone() },
        AccountTransaction { signature: sig_map(&[(0, &[0, 1]), (1, &[0])]), header: header(psize(&memo)), payload: memo.clone() },
        AccountTransaction { signature: sig_map(&[(0, &[0])]), header: header(0), payload: empty.clone() },
    ]);
    ent!(ctx, AccountTransactionV1<EncodedPayload>, vec![
        AccountTransactionV1 { signatures: TransactionSignaturesV1 { sender: sig_map(&[(0, &[0])]), sponsor: None }, header: h1(None, psize(&transfer)), payload: transfer.clone() },
        AccountTransactionV1 { signatures: TransactionSignaturesV1 { sender: sig_map(&[(0, &[0])]), sponsor: Some(sig_map(&[(0, &[1])])) }, header: h1(Some(addr(3)), psize(&memo)), payload: memo.clone() },
    ]);
    ent!(ctx, BlockItem<EncodedPayload>, vec![
        BlockItem::AccountTransaction(AccountTransaction { signature: sig_map(&[(0, &[0])]), header: header(psize(&transfer)), payload: transfer.clone() }),
        BlockItem::AccountTransactionV1(AccountTransactionV1 { signatures: TransactionSignaturesV1 { sender: sig_map(&[(0, &[0])]), sponsor: Some(sig_map(&[(0, &[1])])) }, header: h1(Some(addr(3)), psize(&memo)), payload: memo.clone() }),
        BlockItem::UpdateInstruction(update_instruction(UpdatePayload::EuroPerEnergy(ExchangeRate::new(1, 50000).unwrap()))),
    ]);
}

/// Round trip only (no neighbourhood): encoding is deterministic, decodes to an equal value and is
/// consumed exactly; decoding `encoding || encoding-of-a-second-value` yields both.
fn round_trip_only<T: Serial + Deserial + Debug>(ctx: &mut Ctx, name: &str, what: &str, v: &T) {
    ctx.evals += 1;
    let e = to_bytes(v);
    let w = serde_json::json!({"type": name, "value": what, "encoding_len": e.len()});
    match dec_base::<T>(&e) {
        None => ctx.violation("own-encoding-does-not-decode", name, e.len(), w, serde_json::json!({})),
        Some((back, n)) => {
            ctx.traces += 1;
            if n != e.len() {
                ctx.violation("decoder-does-not-consume-exactly-the-encoding", name, e.len(), w, serde_json::json!({"consumed": n, "length": e.len()}));
            } else if to_bytes(&back) != e {
                ctx.violation("round-trip-changes-value", name, e.len(), w, serde_json::json!({"re_encoding_len": to_bytes(&back).len()}));
            } else {
                // followed by more data: exactly the encoding is consumed
                let mut two = e.clone();
                two.extend_from_slice(&[0xEE; 7]);
                if dec_base::<T>(&two).map(|(_, n)| n) != Some(e.len()) {
                    ctx.violation("decoder-does-not-consume-exactly-the-encoding", name, e.len(), w, serde_json::json!({"followed_by_data": true}));
                } else {
                    ctx.outcome("long value: round trip ok", 1);
                }
            }
        }
    }
}

/// Byte fields around the pre-allocation bound of the shared readers (4096) and its multiples.
fn long_fields(ctx: &mut Tasks) {
    ctx.add(|ctx: &mut Ctx| {
        for len in [4095usize, 4096, 4097, 8191, 8192, 8193, 12287, 12288, 12289, 16384, 65536] {
            let bytes: Vec<u8> = (0..len).map(|i| (i % 251) as u8 + 1).collect();
            let what = format!("{len} bytes");
            let source = ModuleSource::from(bytes.clone());
            round_trip_only(ctx, "ModuleSource", &what, &source);
            let module = WasmModule { version: WasmVersion::V1, source };
            round_trip_only(ctx, "WasmModule", &what, &module);
            let payload = Payload::DeployModule { module };
            round_trip_only(ctx, "Payload", &what, &payload);
            // payloads whose *encoded* size is exactly `len` (the transaction reader takes it whole)
            for plen in [len, len.saturating_sub(9)] {
                let src = ModuleSource::from(bytes[..plen.min(bytes.len())].to_vec());
                let enc = Payload::DeployModule { module: WasmModule { version: WasmVersion::V0, source: src } }.encode();
                let n = to_bytes(&enc).len() as u32;
                round_trip_only(ctx, "AccountTransaction<EncodedPayload>", &format!("payload of {n} bytes"), &AccountTransaction { signature: sig_map(&[(0, &[0])]), header: header(n), payload: enc.clone() });
                round_trip_only(ctx, "BlockItem<EncodedPayload>", &format!("payload of {n} bytes"), &BlockItem::AccountTransaction(AccountTransaction { signature: sig_map(&[(0, &[0])]), header: header(n), payload: enc }));
            }
            let text = "s".repeat(len);
            round_trip_only(ctx, "String", &what, &text);
            round_trip_only(ctx, "Vec<u8>", &what, &bytes);
            round_trip_only(ctx, "ProtocolUpdate", &what, &ProtocolUpdate { message: text.clone(), specification_url: "u".repeat(len.min(4096)), specification_hash: hashes::Hash::from([7u8; 32]), specification_auxiliary_data: bytes.clone() });
        }
    });
}

pub fn baker_keys(seed: u64) -> BakerKeyPairs { BakerKeyPairs::generate(&mut rng(seed, 500)) }

fn payload_values(seed: u64) -> Vec<Payload> {
    let mut out = vec![];
    out.push(Payload::DeployModule { module: WasmModule { version: WasmVersion::V1, source: ModuleSource::from(vec![0, 0x61, 0x73, 0x6d, 1, 0, 0, 0]) } });
    out.push(Payload::InitContract { payload: InitContractPayload { amount: amt(5), mod_ref: ModuleReference::from([4u8; 32]), init_name: OwnedContractName::new("init_a".into()).unwrap(), param: OwnedParameter::try_from(vec![1, 2]).unwrap() } });
    out.push(Payload::InitContract { payload: InitContractPayload { amount: amt(0), mod_ref: ModuleReference::from([4u8; 32]), init_name: OwnedContractName::new("init_".into()).unwrap(), param: OwnedParameter::try_from(vec![]).unwrap() } });
    out.push(Payload::Update { payload: UpdateContractPayload { amount: amt(u64::MAX), address: ContractAddress::new(1, 2), receive_name: OwnedReceiveName::new("a.b".into()).unwrap(), message: OwnedParameter::try_from(vec![9; 40]).unwrap() } });
    out.push(Payload::Transfer { to_address: addr(2), amount: amt(17) });
    out.push(Payload::RemoveBaker);
    out.push(Payload::UpdateBakerStake { stake: amt(3) });
    out.push(Payload::UpdateBakerRestakeEarnings { restake_earnings: true });
    out.push(Payload::UpdateBakerRestakeEarnings { restake_earnings: false });
    let kp = baker_keys(seed);
    out.push(Payload::AddBaker { payload: Box::new(AddBakerPayload { keys: BakerAddKeysPayload::new(&kp, addr(1), &mut rng(seed, 501)), baking_stake: amt(1000), restake_earnings: true }) });
    out.push(Payload::UpdateBakerKeys { payload: Box::new(BakerUpdateKeysPayload::new(&kp, addr(1), &mut rng(seed, 502))) });
    out.push(Payload::TransferToEncrypted { amount: amt(8) });
    for n in [0usize, 1, 2, 255] {
        out.push(Payload::TransferWithSchedule { to: addr(3), schedule: (0..n).map(|i| (Timestamp { millis: i as u64 }, amt(i as u64 + 1))).collect() });
    }
    out.push(Payload::TransferWithScheduleAndMemo { to: addr(3), memo: Memo::try_from(vec![]).unwrap(), schedule: vec![(Timestamp { millis: u64::MAX }, amt(u64::MAX))] });
    out.push(Payload::RegisterData { data: RegisteredData::try_from(vec![9; 256]).unwrap() });
    out.push(Payload::RegisterData { data: RegisteredData::try_from(vec![]).unwrap() });
    out.push(Payload::TransferWithMemo { to_address: addr(2), memo: Memo::try_from(vec![1, 2, 3]).unwrap(), amount: amt(1) });
    // ConfigureDelegation: every subset of the three optional fields
    for m in 0u8..8 {
        let mut d = ConfigureDelegationPayload::new();
        if m & 1 != 0 {
            d.set_capital(amt(1000));
        }
        if m & 2 != 0 {
            d.set_restake_earnings(m & 4 != 0);
        }
        if m & 4 != 0 {
            d.set_delegation_target(if m & 1 != 0 { DelegationTarget::Passive } else { DelegationTarget::Baker { baker_id: BakerId::from(AccountIndex::from(5u64)) } });
        }
        out.push(Payload::ConfigureDelegation { data: d });
    }
    // ConfigureBaker: no field, each single field, all fields
    let full = ConfigureBakerPayload {
        capital: Some(amt(7)),
        restake_earnings: Some(true),
        open_for_delegation: Some(OpenStatus::ClosedForNew),
        keys_with_proofs: Some(ConfigureBakerKeysPayload::new(&kp, addr(1), &mut rng(seed, 503))),
        metadata_url: Some(UrlText::try_from("https://example.com".to_string()).unwrap()),
        transaction_fee_commission: Some(frac(1)),
        baking_reward_commission: Some(frac(2)),
        finalization_reward_commission: Some(frac(100_000)),
        suspend: Some(false),
    };
    out.push(Payload::ConfigureBaker { data: Box::new(ConfigureBakerPayload::new()) });
    for k in 0..9 {
        let mut p = ConfigureBakerPayload::new();
        match k {
            0 => p.capital = full.capital,
            1 => p.restake_earnings = full.restake_earnings,
            2 => p.open_for_delegation = full.open_for_delegation,
            3 => p.keys_with_proofs = full.keys_with_proofs.clone(),
            4 => p.metadata_url = full.metadata_url.clone(),
            5 => p.transaction_fee_commission = full.transaction_fee_commission,
            6 => p.baking_reward_commission = full.baking_reward_commission,
            7 => p.finalization_reward_commission = full.finalization_reward_commission,
            _ => p.suspend = full.suspend,
        }
        out.push(Payload::ConfigureBaker { data: Box::new(p) });
    }
    out.push(Payload::ConfigureBaker { data: Box::new(full) });
    out.extend(crate::c05b::heavy_payloads(seed));
    out
}

fn payloads(ctx: &mut Tasks) {
    let vals = payload_values(ctx.seed);
    ent!(ctx, Payload, vals, 12);
    let kp = baker_keys(ctx.seed);
    ent!(ctx, AddBakerPayload, vec![AddBakerPayload { keys: BakerAddKeysPayload::new(&kp, addr(1), &mut rng(ctx.seed, 501)), baking_stake: amt(1000), restake_earnings: true }]);
    ent!(ctx, InitContractPayload, vec![InitContractPayload { amount: amt(5), mod_ref: ModuleReference::from([4u8; 32]), init_name: OwnedContractName::new("init_a".into()).unwrap(), param: OwnedParameter::try_from(vec![1, 2]).unwrap() }]);
    ent!(ctx, UpdateContractPayload, vec![UpdateContractPayload { amount: amt(u64::MAX), address: ContractAddress::new(1, 2), receive_name: OwnedReceiveName::new("a.b".into()).unwrap(), message: OwnedParameter::try_from(vec![9; 40]).unwrap() }]);
}

pub fn update_keys(seed: u64, n: usize) -> Vec<UpdatePublicKey> { (0..n).map(|i| UpdatePublicKey::from(&UpdateKeyPair::generate(&mut rng(seed, 600 + i as u64)))).collect() }

pub fn access(keys: &[u16], threshold: u16) -> AccessStructure { AccessStructure { authorized_keys: keys.iter().map(|i| UpdateKeysIndex { index: *i }).collect(), threshold: UpdateKeysThreshold::try_from(threshold).unwrap() } }

pub fn auth_v0(seed: u64) -> AuthorizationsV0 {
    AuthorizationsV0 {
        keys: update_keys(seed, 3),
        emergency: access(&[0], 1),
        protocol: access(&[0, 1], 2),
        election_difficulty: access(&[0, 1, 2], 1),
        euro_per_energy: access(&[2], 1),
        micro_gtu_per_euro: access(&[1], 1),
        foundation_account: access(&[0, 2], 2),
        mint_distribution: access(&[0], 1),
        transaction_fee_distribution: access(&[1], 1),
        param_gas_rewards: access(&[2], 1),
        pool_parameters: access(&[0, 1, 2], 3),
        add_anonymity_revoker: access(&[0], 1),
        add_identity_provider: access(&[1], 1),
    }
}

pub fn auth_v1(seed: u64, plt: bool) -> AuthorizationsV1 { AuthorizationsV1 { v0: auth_v0(seed), cooldown_parameters: access(&[0], 1), time_parameters: access(&[1, 2], 1), create_plt: if plt { Some(access(&[2], 1)) } else { None } } }

pub fn update_payloads(seed: u64) -> Vec<UpdatePayload> {
    let hl = |n: usize, t: u16| HigherLevelAccessStructure { keys: update_keys(seed, n), threshold: UpdateKeysThreshold::try_from(t).unwrap(), _phantom: Default::default() };
    let hl1 = |n: usize, t: u16| HigherLevelAccessStructure { keys: update_keys(seed, n), threshold: UpdateKeysThreshold::try_from(t).unwrap(), _phantom: Default::default() };
    let mut out = vec![
        UpdatePayload::Protocol(ProtocolUpdate { message: "m".into(), specification_url: "https://x".into(), specification_hash: hashes::Hash::from([3u8; 32]), specification_auxiliary_data: vec![1, 2, 3] }),
        UpdatePayload::Protocol(ProtocolUpdate { message: "".into(), specification_url: "".into(), specification_hash: hashes::Hash::from([0u8; 32]), specification_auxiliary_data: vec![] }),
        UpdatePayload::ElectionDifficulty(ElectionDifficulty::new(25_000).unwrap()),
        UpdatePayload::EuroPerEnergy(ExchangeRate::new(1, 50000).unwrap()),
        UpdatePayload::MicroGTUPerEuro(ExchangeRate::new(7, 3).unwrap()),
        UpdatePayload::FoundationAccount(addr(4)),
        UpdatePayload::MintDistribution(MintDistributionV0 { mint_per_slot: MintRate { mantissa: 1, exponent: 2 }, baking_reward: frac(60_000), finalization_reward: frac(30_000) }),
        UpdatePayload::TransactionFeeDistribution(TransactionFeeDistribution { baker: frac(45_000), gas_account: frac(45_000) }),
        UpdatePayload::GASRewards(GASRewards { baker: frac(1), finalization_proof: frac(2), account_creation: frac(3), chain_update: frac(4) }),
        UpdatePayload::BakerStakeThreshold(BakerParameters { minimum_threshold_for_baking: amt(14_000) }),
        UpdatePayload::Root(RootUpdate::RootKeysUpdate(hl(2, 1))),
        UpdatePayload::Root(RootUpdate::Level1KeysUpdate(hl1(1, 1))),
        UpdatePayload::Root(RootUpdate::Level2KeysUpdate(Box::new(auth_v0(seed)))),
        UpdatePayload::Root(RootUpdate::Level2KeysUpdateV1(Box::new(auth_v1(seed, false)))),
        UpdatePayload::Root(RootUpdate::Level2KeysUpdateV2(Box::new(auth_v1(seed, true)))),
        UpdatePayload::Level1(Level1Update::Level1KeysUpdate(hl1(3, 2))),
        UpdatePayload::Level1(Level1Update::Level2KeysUpdate(Box::new(auth_v0(seed)))),
        UpdatePayload::Level1(Level1Update::Level2KeysUpdateV1(Box::new(auth_v1(seed, false)))),
        UpdatePayload::Level1(Level1Update::Level2KeysUpdateV2(Box::new(auth_v1(seed, true)))),
        UpdatePayload::CooldownParametersCPV1(CooldownParameters { pool_owner_cooldown: DurationSeconds::from(1u64), delegator_cooldown: DurationSeconds::from(u64::MAX) }),
        UpdatePayload::PoolParametersCPV1(PoolParameters {
            passive_finalization_commission: frac(1),
            passive_baking_commission: frac(2),
            passive_transaction_commission: frac(3),
            commission_bounds: CommissionRanges { finalization: InclusiveRange { min: frac(0), max: frac(1) }, baking: InclusiveRange { min: frac(2), max: frac(2) }, transaction: InclusiveRange { min: frac(0), max: frac(100_000) } },
            minimum_equity_capital: amt(5),
            capital_bound: CapitalBound { bound: frac(10_000) },
            leverage_bound: LeverageFactor::new(3, 1).unwrap(),
        }),
        UpdatePayload::TimeParametersCPV1(TimeParameters { reward_period_length: RewardPeriodLength::from(Epoch::from(4u64)), mint_per_payday: MintRate { mantissa: 1, exponent: 8 } }),
        UpdatePayload::MintDistributionCPV1(MintDistributionV1 { baking_reward: frac(60_000), finalization_reward: frac(30_000) }),
        UpdatePayload::GASRewardsCPV2(GASRewardsV1 { baker: frac(1), account_creation: frac(3), chain_update: frac(4) }),
        UpdatePayload::TimeoutParametersCPV2(TimeoutParameters { base: Duration::from_millis(10_000), increase: Ratio::new(3, 2).unwrap(), decrease: Ratio::new(2, 3).unwrap() }),
        UpdatePayload::MinBlockTimeCPV2(Duration::from_millis(2000)),
        UpdatePayload::BlockEnergyLimitCPV2(Energy::from(3_000_000u64)),
        UpdatePayload::FinalizationCommitteeParametersCPV2(FinalizationCommitteeParameters { min_finalizers: 1, max_finalizers: u32::MAX, finalizers_relative_stake_threshold: PartsPerHundredThousands::new(100).unwrap() }),
        UpdatePayload::ValidatorScoreParametersCPV3(ValidatorScoreParameters { max_missed_rounds: 10 }),
    ];
    out.extend(crate::c05b::heavy_update_payloads(seed));
    out
}

pub fn update_instruction(p: UpdatePayload) -> UpdateInstruction {
    let kps: Vec<UpdateKeyPair> = (0..2).map(|i| UpdateKeyPair::generate(&mut rng(1, 650 + i))).collect();
    let signer: BTreeMap<UpdateKeysIndex, UpdateKeyPair> = kps.into_iter().enumerate().map(|(i, k)| (UpdateKeysIndex { index: i as u16 * 7 }, k)).collect();
    update::update(&signer, UpdateSequenceNumber::from(5u64), TransactionTime { seconds: 100 }, TransactionTime { seconds: 90 }, p)
}

fn updates(ctx: &mut Tasks) {
    let ups = update_payloads(ctx.seed);
    let instrs: Vec<UpdateInstruction> = ups.iter().take(if ctx.tier == mc_core::Tier::Quick { 6 } else { usize::MAX }).map(|p| update_instruction(p.clone())).collect();
    ent!(ctx, UpdatePayload, ups, 6);
    ent!(ctx, UpdateInstruction, instrs, 3);
    ent!(ctx, UpdateHeader, vec![update_instruction(UpdatePayload::FoundationAccount(addr(4))).header]);
    ent!(ctx, UpdateInstructionSignature, vec![update_instruction(UpdatePayload::FoundationAccount(addr(4))).signatures]);
    ent!(ctx, AccessStructure, vec![access(&[0], 1), access(&[0, 1, 65535], 2), access(&[7, 9], 2)]);
    ent!(ctx, AuthorizationsV0, vec![auth_v0(ctx.seed)]);
    ent!(ctx, HigherLevelAccessStructure<RootKeysKind>, vec![HigherLevelAccessStructure { keys: update_keys(ctx.seed, 2), threshold: UpdateKeysThreshold::try_from(2).unwrap(), _phantom: Default::default() }, HigherLevelAccessStructure { keys: update_keys(ctx.seed, 1), threshold: UpdateKeysThreshold::try_from(1).unwrap(), _phantom: Default::default() }]);
    ent!(ctx, UpdatePublicKey, update_keys(ctx.seed, 2));
    ent!(ctx, TransactionFeeDistribution, vec![TransactionFeeDistribution { baker: frac(45_000), gas_account: frac(45_000) }, TransactionFeeDistribution { baker: frac(100_000), gas_account: frac(0) }]);
    ent!(ctx, GASRewards, vec![GASRewards { baker: frac(1), finalization_proof: frac(2), account_creation: frac(3), chain_update: frac(100_000) }]);
    ent!(ctx, PoolParameters, ups_pool());
    ent!(ctx, TimeoutParameters, vec![TimeoutParameters { base: Duration::from_millis(10_000), increase: Ratio::new(3, 2).unwrap(), decrease: Ratio::new(2, 3).unwrap() }]);
    let _ = KeyPair::generate(&mut rng(1, 1));
}

fn ups_pool() -> Vec<PoolParameters> {
    vec![PoolParameters {
        passive_finalization_commission: frac(1),
        passive_baking_commission: frac(2),
        passive_transaction_commission: frac(3),
        commission_bounds: CommissionRanges { finalization: InclusiveRange { min: frac(0), max: frac(1) }, baking: InclusiveRange { min: frac(2), max: frac(2) }, transaction: InclusiveRange { min: frac(0), max: frac(100_000) } },
        minimum_equity_capital: amt(5),
        capital_bound: CapitalBound { bound: frac(10_000) },
        leverage_bound: LeverageFactor::new(3, 1).unwrap(),
    }]
}
