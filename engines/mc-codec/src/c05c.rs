//! C05, third part of the registry: attribute statements and their proofs, verifiable
//! presentations (`web3id::v1`) with their requests and anchors' source data, identity
//! recovery, and the remaining small types (integer widths, network addresses, versioned
//! wrappers, web3 attributes).
use crate::c05::{rng, sweep_cost, sweep_eq};
use crate::harness::*;
use concordium_base::{
    base::{CredentialRegistrationID, DelegatorId},
    common::{types::Timestamp, Version, Versioned},
    curve_arithmetic::Curve,
    hashes,
    id::{
        account_holder::generate_id_recovery_request,
        constants::{ArCurve, AttributeKind, IpPairing},
        id_proof_types::*,
        identity_provider::sign_identity_object_v1_with_rng,
        test::{test_create_ars, test_create_id_use_data, test_create_ip_info, test_create_pio_v1},
        types::*,
    },
    pedersen_commitment::{Commitment, Randomness as PedersenRandomness, Value},
    web3id::{
        did::Network,
        v1::{
            anchor::{ContextLabel, IdentityCredentialType, IdentityProviderDid, LabeledContextProperty, Nonce, RequestedIdentitySubjectClaims, RequestedStatement, RequestedSubjectClaims, UnfilledContextInformation, VerificationAuditRecord, VerificationRequest, VerificationRequestData},
            *,
        },
        Web3IdAttribute,
    },
};
use std::collections::{BTreeMap, BTreeSet};

type C = ArCurve;
type P = IpPairing;
type W = Web3IdAttribute;

/// everything with group elements: cost class 25
macro_rules! ent {
    ($t:expr, $ty:ty, $vals:expr) => {{
        let vals: Vec<$ty> = $vals;
        $t.add(move |ctx: &mut Ctx| sweep_cost::<$ty>(ctx, stringify!($ty), vals, 25))
    }};
    ($t:expr, $ty:ty, $vals:expr, $cost:expr) => {{
        let vals: Vec<$ty> = $vals;
        $t.add(move |ctx: &mut Ctx| sweep_cost::<$ty>(ctx, stringify!($ty), vals, $cost))
    }};
}
macro_rules! eqt {
    ($t:expr, $ty:ty, $vals:expr) => {{
        let vals: Vec<$ty> = $vals;
        $t.add(move |ctx: &mut Ctx| sweep_eq::<$ty>(ctx, stringify!($ty), vals))
    }};
}

/// Wrapper for types without `Debug`: shown as the hex of their encoding.
pub struct Hx<T>(pub T);
impl<T: concordium_base::common::Serial> concordium_base::common::Serial for Hx<T> {
    fn serial<B: concordium_base::common::Buffer>(&self, out: &mut B) { self.0.serial(out) }
}
impl<T: concordium_base::common::Deserial> concordium_base::common::Deserial for Hx<T> {
    fn deserial<R: concordium_base::common::ReadBytesExt>(source: &mut R) -> concordium_base::common::ParseResult<Self> { Ok(Hx(T::deserial(source)?)) }
}
impl<T: concordium_base::common::Serial> std::fmt::Debug for Hx<T> {
    fn fmt(&self, f: &mut std::fmt::Formatter<'_>) -> std::fmt::Result { write!(f, "{}", hex::encode(concordium_base::common::to_bytes(&self.0))) }
}

fn ak(s: &str) -> AttributeKind { AttributeKind::try_new(s.to_string()).unwrap() }

pub fn misc(ctx: &mut Tasks) {
    eqt!(ctx, u8, vec![0, 1, 255]);
    eqt!(ctx, u16, vec![0, 1, u16::MAX]);
    eqt!(ctx, u32, vec![0, 1, u32::MAX]);
    eqt!(ctx, u64, vec![0, 1, u64::MAX]);
    eqt!(ctx, i8, vec![0, 1, -1, i8::MIN, i8::MAX]);
    eqt!(ctx, i16, vec![0, 1, -1, i16::MIN, i16::MAX]);
    eqt!(ctx, i32, vec![0, 1, -1, i32::MIN, i32::MAX]);
    eqt!(ctx, i64, vec![0, 1, -1, i64::MIN, i64::MAX]);
    eqt!(ctx, bool, vec![false, true]);
    eqt!(ctx, std::net::Ipv4Addr, vec![std::net::Ipv4Addr::new(0, 0, 0, 0), std::net::Ipv4Addr::new(127, 0, 0, 1), std::net::Ipv4Addr::new(255, 255, 255, 255)]);
    eqt!(ctx, std::net::Ipv6Addr, vec![std::net::Ipv6Addr::UNSPECIFIED, std::net::Ipv6Addr::LOCALHOST, std::net::Ipv6Addr::new(0xffff, 1, 2, 3, 4, 5, 6, 0xffff)]);
    eqt!(ctx, std::net::IpAddr, vec![std::net::IpAddr::V4(std::net::Ipv4Addr::new(10, 0, 0, 1)), std::net::IpAddr::V6(std::net::Ipv6Addr::LOCALHOST)]);
    eqt!(ctx, std::net::SocketAddr, vec!["10.0.0.1:0".parse().unwrap(), "[::1]:65535".parse().unwrap(), "255.255.255.255:8888".parse().unwrap()]);
    eqt!(ctx, BTreeSet<u16>, vec![BTreeSet::new(), [7u16].into_iter().collect(), [0u16, 1, 256, u16::MAX].into_iter().collect()]);
    eqt!(ctx, BTreeMap<u8, u16>, vec![BTreeMap::new(), [(1u8, 2u16)].into_iter().collect(), [(0u8, 0u16), (1, 1), (255, 65535)].into_iter().collect()]);
    eqt!(ctx, Vec<u16>, vec![vec![], vec![1], vec![0, 1, 65535]]);
    eqt!(ctx, String, vec![String::new(), "a".into(), "héllo".into(), "x".repeat(300)]);
    eqt!(ctx, Option<u32>, vec![None, Some(0), Some(u32::MAX)]);
    eqt!(ctx, (u8, u64), vec![(0, 0), (255, u64::MAX)]);
    eqt!(ctx, [u8; 32], vec![[0u8; 32], [0xffu8; 32]]);
    eqt!(ctx, Version, vec![Version::from(0u32), Version::from(1u32), Version::from(127u32), Version::from(128u32), Version::from(u32::MAX)]);
    ent!(ctx, Versioned<u32>, vec![Versioned::new(Version::from(0u32), 7u32), Versioned::new(Version::from(300u32), u32::MAX)], 1);
    eqt!(ctx, DelegatorId, [0u64, 1, u64::MAX].iter().map(|x| DelegatorId::from(concordium_base::base::AccountIndex::from(*x))).collect());
    eqt!(ctx, Network, vec![Network::Testnet, Network::Mainnet]);
    eqt!(ctx, W, vec![W::String(ak("")), W::String(ak("abc")), W::String(ak(&"z".repeat(31))), W::Numeric(0), W::Numeric(u64::MAX), W::Timestamp(Timestamp { millis: 0 }), W::Timestamp(Timestamp { millis: u64::MAX })]);
    eqt!(ctx, IpIdentity, vec![IpIdentity(0), IpIdentity(u32::MAX)]);
    eqt!(ctx, ArIdentity, vec![ArIdentity::try_from(1u32).unwrap(), ArIdentity::try_from(u32::MAX).unwrap()]);
    eqt!(ctx, ContextLabel, vec![ContextLabel::Nonce, ContextLabel::PaymentHash, ContextLabel::BlockHash, ContextLabel::ConnectionId, ContextLabel::ResourceId, ContextLabel::ContextString]);
    eqt!(ctx, IdentityCredentialType, vec![IdentityCredentialType::IdentityCredential, IdentityCredentialType::AccountCredential]);
    eqt!(ctx, IdentityProviderDid, vec![IdentityProviderDid::new(0, Network::Testnet), IdentityProviderDid::new(u32::MAX, Network::Mainnet)]);
    eqt!(ctx, Nonce, vec![Nonce([0u8; 32]), Nonce([0xEEu8; 32])]);
    eqt!(ctx, LabeledContextProperty, vec![
        LabeledContextProperty::Nonce(Nonce([1u8; 32])),
        LabeledContextProperty::PaymentHash(hashes::TransactionHash::from([2u8; 32])),
        LabeledContextProperty::BlockHash(hashes::BlockHash::from([3u8; 32])),
        LabeledContextProperty::ConnectionId("".into()),
        LabeledContextProperty::ConnectionId("conn".into()),
        LabeledContextProperty::ResourceId("res".repeat(100)),
        LabeledContextProperty::ContextString("ctx é".into()),
    ]);
    eqt!(ctx, UnfilledContextInformation, vec![
        UnfilledContextInformation { given: vec![], requested: vec![] },
        UnfilledContextInformation { given: vec![LabeledContextProperty::Nonce(Nonce([1u8; 32])), LabeledContextProperty::ConnectionId("c".into())], requested: vec![ContextLabel::BlockHash, ContextLabel::ResourceId] },
    ]);
}

struct StFix {
    global: GlobalContext<C>,
    values: BTreeMap<AttributeTag, AttributeKind>,
    rands:  BTreeMap<AttributeTag, <C as Curve>::Scalar>,
    cred:   C,
}

fn st_fix(seed: u64) -> StFix {
    let global = GlobalContext::<C>::generate_size("mc-codec".into(), 256);
    let mut r = rng(seed, 8600);
    let (mut values, mut rands) = (BTreeMap::new(), BTreeMap::new());
    for (t, v) in ["aa", "m", "20000101", "zz"].iter().enumerate() {
        let tag = AttributeTag(t as u8);
        values.insert(tag, ak(v));
        rands.insert(tag, *PedersenRandomness::<C>::generate(&mut r));
    }
    let cred = global.on_chain_commitment_key.g.mul_by_scalar(&C::generate_scalar(&mut r));
    StFix { global, values, rands, cred }
}

type IdStmt = AtomicStatement<C, AttributeTag, AttributeKind>;

fn id_statements() -> Vec<IdStmt> {
    let set = |v: &[&str]| v.iter().map(|s| ak(s)).collect::<BTreeSet<_>>();
    vec![
        AtomicStatement::RevealAttribute { statement: RevealAttributeStatement { attribute_tag: AttributeTag(0) } },
        AtomicStatement::AttributeInRange { statement: AttributeInRangeStatement { attribute_tag: AttributeTag(2), lower: ak("19990101"), upper: ak("20010101"), _phantom: Default::default() } },
        AtomicStatement::AttributeInSet { statement: AttributeInSetStatement { attribute_tag: AttributeTag(1), set: set(&["l", "m", "n"]), _phantom: Default::default() } },
        AtomicStatement::AttributeNotInSet { statement: AttributeNotInSetStatement { attribute_tag: AttributeTag(3), set: set(&["a", "b"]), _phantom: Default::default() } },
    ]
}

pub fn statements(ctx: &mut Tasks) {
    let fx = st_fix(ctx.seed);
    let stmts = id_statements();
    let rands: BTreeMap<AttributeTag, PedersenRandomness<C>> = fx.rands.iter().map(|(t, s)| (*t, PedersenRandomness::<C>::new(*s))).collect();
    let mut proofs = vec![];
    for v in [ProofVersion::Version1, ProofVersion::Version2] {
        let swc = StatementWithContext { credential: fx.cred, statement: Statement { statements: stmts.clone() } };
        proofs.push(swc.prove(v, &fx.global, b"challenge", &fx.values, &rands).unwrap_or_else(|| mc_core::machinery_error("statement fixture not provable")));
    }
    let empty_set_stmts: Vec<IdStmt> = vec![AtomicStatement::AttributeInSet { statement: AttributeInSetStatement { attribute_tag: AttributeTag(255), set: BTreeSet::new(), _phantom: Default::default() } }];
    ent!(ctx, AtomicStatement<C, AttributeTag, AttributeKind>, [stmts.clone(), empty_set_stmts.clone()].concat(), 2);
    ent!(ctx, Statement<C, AttributeKind>, vec![Statement { statements: vec![] }, Statement { statements: stmts[..1].to_vec() }, Statement { statements: stmts.clone() }], 2);
    ent!(ctx, StatementWithContext<C, AttributeKind>, vec![StatementWithContext { credential: fx.cred, statement: Statement { statements: stmts.clone() } }]);
    ent!(ctx, RevealAttributeStatement<AttributeTag>, vec![RevealAttributeStatement { attribute_tag: AttributeTag(0) }, RevealAttributeStatement { attribute_tag: AttributeTag(255) }], 1);
    ent!(ctx, RevealAttributeStatement<String>, vec![RevealAttributeStatement { attribute_tag: String::new() }, RevealAttributeStatement { attribute_tag: "degree".into() }], 1);
    ent!(ctx, Proof<C, AttributeKind>, proofs.clone());
    ent!(ctx, AtomicProof<C, AttributeKind>, proofs[1].proofs.clone());
    for p in &proofs[1].proofs {
        match p {
            AtomicProof::AttributeInSet { proof } => ent!(ctx, concordium_base::bulletproofs::set_membership_proof::SetMembershipProof<C>, vec![proof.clone()]),
            AtomicProof::AttributeNotInSet { proof } => ent!(ctx, concordium_base::bulletproofs::set_non_membership_proof::SetNonMembershipProof<C>, vec![proof.clone()]),
            _ => {}
        }
    }
    // web3 statements (string tags, web3 attributes)
    let wset: BTreeSet<W> = [W::Numeric(3), W::String(ak("x")), W::Timestamp(Timestamp { millis: 9 })].into_iter().collect();
    ent!(ctx, AtomicStatement<C, String, W>, vec![
        AtomicStatement::RevealAttribute { statement: RevealAttributeStatement { attribute_tag: "a".into() } },
        AtomicStatement::AttributeInRange { statement: AttributeInRangeStatement { attribute_tag: "".into(), lower: W::Numeric(0), upper: W::Numeric(u64::MAX), _phantom: Default::default() } },
        AtomicStatement::AttributeInSet { statement: AttributeInSetStatement { attribute_tag: "s".into(), set: wset.clone(), _phantom: Default::default() } },
        AtomicStatement::AttributeNotInSet { statement: AttributeNotInSetStatement { attribute_tag: "n".repeat(40), set: wset.clone(), _phantom: Default::default() } },
    ], 2);
    ent!(ctx, RequestedStatement<AttributeTag>, vec![
        RequestedStatement::RevealAttribute(RevealAttributeStatement { attribute_tag: AttributeTag(4) }),
        RequestedStatement::AttributeInRange(AttributeInRangeStatement { attribute_tag: AttributeTag(1), lower: W::Numeric(1), upper: W::Numeric(2), _phantom: Default::default() }),
        RequestedStatement::AttributeInSet(AttributeInSetStatement { attribute_tag: AttributeTag(2), set: wset.clone(), _phantom: Default::default() }),
        RequestedStatement::AttributeNotInSet(AttributeNotInSetStatement { attribute_tag: AttributeTag(3), set: BTreeSet::new(), _phantom: Default::default() }),
    ], 2);
    // identity recovery
    let mut r = rng(ctx.seed, 8650);
    let ip = test_create_ip_info(&mut r, 2, 8);
    let id_use = test_create_id_use_data(&mut r);
    let req = generate_id_recovery_request(&ip.public_ip_info, &fx.global, &id_use.aci.cred_holder_info.id_cred.id_cred_sec, 1_700_000_000).unwrap_or_else(|| mc_core::machinery_error("recovery request fixture"));
    ent!(ctx, Hx<IdRecoveryRequest<C>>, vec![Hx(req)]);
}

fn v1_values() -> BTreeMap<AttributeTag, W> {
    [(AttributeTag(0), W::String(ak("aa"))), (AttributeTag(1), W::Numeric(137)), (AttributeTag(2), W::Timestamp(Timestamp { millis: 12345 })), (AttributeTag(3), W::String(ak("zz")))].into_iter().collect()
}

fn v1_statements() -> Vec<AtomicStatementV1<C, AttributeTag, W>> {
    let set: BTreeSet<W> = [W::String(ak("zy")), W::String(ak("zz"))].into_iter().collect();
    let nset: BTreeSet<W> = [W::String(ak("ab")), W::String(ak("ac"))].into_iter().collect();
    vec![
        AtomicStatementV1::AttributeValue(AttributeValueStatement { attribute_tag: AttributeTag(0), attribute_value: W::String(ak("aa")), _phantom: Default::default() }),
        AtomicStatementV1::AttributeInRange(AttributeInRangeStatement { attribute_tag: AttributeTag(1), lower: W::Numeric(100), upper: W::Numeric(200), _phantom: Default::default() }),
        AtomicStatementV1::AttributeInSet(AttributeInSetStatement { attribute_tag: AttributeTag(3), set, _phantom: Default::default() }),
        AtomicStatementV1::AttributeNotInSet(AttributeNotInSetStatement { attribute_tag: AttributeTag(0), set: nset, _phantom: Default::default() }),
    ]
}

pub fn web3v1(ctx: &mut Tasks) {
    let global = GlobalContext::<C>::generate_size("mc-codec".into(), 256);
    let mut r = rng(ctx.seed, 8700);
    let values = v1_values();
    // account-based credential: commitments to the attributes
    let key = &global.on_chain_commitment_key;
    let (mut rand_s, mut cmms): (BTreeMap<AttributeTag, <C as Curve>::Scalar>, BTreeMap<AttributeTag, Commitment<C>>) = (BTreeMap::new(), BTreeMap::new());
    for (tag, v) in &values {
        let rnd = PedersenRandomness::<C>::generate(&mut r);
        cmms.insert(*tag, key.hide(&Value::<C>::new(concordium_base::id::types::Attribute::<<C as Curve>::Scalar>::to_field_element(v)), &rnd));
        rand_s.insert(*tag, *rnd);
    }
    let cred_id = CredentialRegistrationID::from_exponent(&global, C::generate_scalar(&mut r));
    let issuer = IpIdentity(17);
    // identity-based credential
    let num_ars = 3;
    let IpData { public_ip_info: ip_info, ip_secret_key, .. } = test_create_ip_info(&mut r, num_ars, 10);
    let (ars, _) = test_create_ars(&global.on_chain_commitment_key.g, num_ars, &mut r);
    let ars_infos = ArInfos { anonymity_revokers: ars };
    let id_use = test_create_id_use_data(&mut r);
    let (_c, pio, _) = test_create_pio_v1(&id_use, &ip_info, &ars_infos.anonymity_revokers, &global, num_ars, &mut r);
    let alist = AttributeList { valid_to: YearMonth::new(2024, 5).unwrap(), created_at: YearMonth::new(2020, 5).unwrap(), max_accounts: 237, alist: values.clone(), _phantom: Default::default() };
    let signature = sign_identity_object_v1_with_rng(&pio, &ip_info, &alist, &ip_secret_key, &mut r).expect("identity provider signs");
    let id_object = IdentityObjectV1 { pre_identity_object: pio, alist, signature };
    let statements = v1_statements();
    let context = ContextInformation {
        given:     vec![ContextProperty { label: "Nonce".into(), context: hex::encode([1u8; 32]) }, ContextProperty { label: "ConnectionID".into(), context: "testconnection".into() }],
        requested: vec![ContextProperty { label: "BlockHash".into(), context: hashes::BlockHash::from([2u8; 32]).to_string() }],
    };
    let acc_claims = SubjectClaims::Account(AccountBasedSubjectClaims { network: Network::Testnet, issuer, cred_id, statements: statements.clone() });
    let id_claims = SubjectClaims::Identity(IdentityBasedSubjectClaims { network: Network::Testnet, issuer: ip_info.ip_identity, statements: statements.clone() });
    let request: RequestV1<C, W> = RequestV1 { context: context.clone(), subject_claims: vec![acc_claims.clone(), id_claims.clone()] };
    let rands: BTreeMap<AttributeTag, PedersenRandomness<C>> = rand_s.iter().map(|(t, s)| (*t, PedersenRandomness::<C>::new(*s))).collect();
    let inputs: Vec<CredentialProofPrivateInputs<P, C, W>> = vec![
        CredentialProofPrivateInputs::Account(AccountCredentialProofPrivateInputs { issuer, attribute_values: &values, attribute_randomness: &rands }),
        CredentialProofPrivateInputs::Identity(IdentityCredentialProofPrivateInputs { ip_context: IpContextOnly { ip_info: &ip_info, ars_infos: &ars_infos.anonymity_revokers }, id_object: &id_object, id_object_use_data: &id_use }),
    ];
    let at = chrono::DateTime::parse_from_rfc3339("2023-08-28T23:12:15Z").unwrap().with_timezone(&chrono::Utc);
    let pres: PresentationV1<P, C, W> = request.clone().prove_with_rng(&global, inputs.into_iter(), &mut rng(ctx.seed, 8750), at).unwrap_or_else(|e| mc_core::machinery_error(&format!("presentation fixture not provable: {e:?}")));
    ent!(ctx, ContextProperty, vec![ContextProperty { label: "".into(), context: "".into() }, ContextProperty { label: "Nonce".into(), context: "ab".repeat(32) }], 1);
    ent!(ctx, ContextInformation, vec![ContextInformation { given: vec![], requested: vec![] }, context.clone()], 1);
    ent!(ctx, AtomicStatementV1<C, AttributeTag, W>, statements.clone(), 2);
    ent!(ctx, SubjectClaims<C, W>, vec![acc_claims, id_claims], 4);
    ent!(ctx, PresentationV1<P, C, W>, vec![pres.clone()]);
    ent!(ctx, CredentialV1<P, C, W>, pres.verifiable_credentials.clone());
    ent!(ctx, LinkingProofV1, vec![pres.linking_proof.clone()], 1);
    // the verification request and the audit record built from it
    let unfilled = UnfilledContextInformation { given: vec![LabeledContextProperty::Nonce(Nonce([1u8; 32])), LabeledContextProperty::ConnectionId("testconnection".into())], requested: vec![ContextLabel::BlockHash] };
    let requested: Vec<RequestedStatement<AttributeTag>> = statements
        .iter()
        .map(|s| match s.clone() {
            AtomicStatementV1::AttributeValue(s) => RequestedStatement::RevealAttribute(RevealAttributeStatement { attribute_tag: s.attribute_tag }),
            AtomicStatementV1::AttributeInRange(s) => RequestedStatement::AttributeInRange(s),
            AtomicStatementV1::AttributeInSet(s) => RequestedStatement::AttributeInSet(s),
            AtomicStatementV1::AttributeNotInSet(s) => RequestedStatement::AttributeNotInSet(s),
        })
        .collect();
    let claims = RequestedIdentitySubjectClaims { statements: requested, issuers: vec![IdentityProviderDid::new(99, Network::Testnet), IdentityProviderDid::new(0, Network::Mainnet)], source: vec![IdentityCredentialType::IdentityCredential, IdentityCredentialType::AccountCredential] };
    ent!(ctx, RequestedIdentitySubjectClaims, vec![RequestedIdentitySubjectClaims::default(), claims.clone()], 2);
    ent!(ctx, RequestedSubjectClaims, vec![RequestedSubjectClaims::Identity(claims.clone())], 2);
    let vreq = VerificationRequest { context: unfilled.clone(), subject_claims: vec![RequestedSubjectClaims::Identity(claims.clone())], anchor_transaction_hash: hashes::TransactionHash::from([5u8; 32]) };
    ent!(ctx, VerificationRequestData, vec![VerificationRequestData { context: unfilled.clone(), subject_claims: vec![] }, VerificationRequestData { context: unfilled.clone(), subject_claims: vec![RequestedSubjectClaims::Identity(claims)] }], 2);
    ent!(ctx, VerificationRequest, vec![vreq.clone()], 2);
    ent!(ctx, VerificationAuditRecord, vec![VerificationAuditRecord::new("audit-1".into(), vreq, pres)]);
}

/// Parts of requests, credentials and presentations that are `Serial/Deserial` types of their own.
pub fn idmisc(ctx: &mut Tasks) {
    use concordium_base::{base::BakerKeyPairs, transactions::{BakerAddKeysPayload, BakerUpdateKeysPayload, ConfigureBakerKeysPayload}};
    use concordium_base::contracts_common::AccountAddress;
    let idf = crate::c05b::id_fix(ctx.seed);
    let pio = &idf.pio;
    ent!(ctx, PublicInformationForIp<C>, vec![pio.pub_info_for_ip.clone()]);
    ent!(ctx, IpArData<C>, pio.ip_ar_data.values().cloned().collect());
    ent!(ctx, ChoiceArParameters, vec![pio.choice_ar_parameters.clone()], 2);
    ent!(ctx, InitialCredentialDeploymentValues<C, AttributeKind>, vec![idf.initial.values.clone()]);
    ent!(ctx, CredentialValidity, vec![CredentialValidity { valid_to: YearMonth::new(9999, 12).unwrap(), created_at: YearMonth::new(1000, 1).unwrap() }, CredentialValidity { valid_to: YearMonth::new(2024, 5).unwrap(), created_at: YearMonth::new(2020, 5).unwrap() }], 1);
    ent!(ctx, SchemeId, vec![SchemeId::Ed25519], 1);
    let kp = BakerKeyPairs::generate(&mut rng(ctx.seed, 8800));
    ent!(ctx, BakerAddKeysPayload, vec![BakerAddKeysPayload::new(&kp, AccountAddress([1u8; 32]), &mut rng(ctx.seed, 8801))]);
    ent!(ctx, BakerUpdateKeysPayload, vec![BakerUpdateKeysPayload::new(&kp, AccountAddress([1u8; 32]), &mut rng(ctx.seed, 8802))]);
    ent!(ctx, ConfigureBakerKeysPayload, vec![ConfigureBakerKeysPayload::new(&kp, AccountAddress([1u8; 32]), &mut rng(ctx.seed, 8803))]);
    let enc = crate::c05b::enc_fix(ctx.seed);
    ent!(ctx, Hx<concordium_base::encrypted_transfers::types::IndexedEncryptedAmount<C>>, vec![Hx(concordium_base::encrypted_transfers::types::IndexedEncryptedAmount { encrypted_chunks: enc.amount.clone(), index: 0u64.into() }), Hx(concordium_base::encrypted_transfers::types::IndexedEncryptedAmount { encrypted_chunks: enc.amount.clone(), index: u64::MAX.into() })]);
    ent!(ctx, concordium_base::random_oracle::Challenge, vec![enc.transfer.proof.accounting.challenge]);
    ent!(ctx, concordium_base::bulletproofs::utils::Generators<C>, vec![concordium_base::bulletproofs::utils::Generators { G_H: vec![] }, idf.global.bulletproof_generators().take(2)]);
}
