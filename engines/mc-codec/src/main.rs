//! mc-codec: exhaustive byte-neighbourhood and small-scope value enumeration for the
//! binary / JSON / CBOR codecs of concordium-base (C05, C10, C16, C17).

mod c05;
mod c05b;
mod c05c;
mod c10;
mod c16;
mod c17;
mod harness;

use mc_core::{Report, Tier};
use serde_json::json;

#[global_allocator]
static ALLOC: harness::CountingAlloc = harness::CountingAlloc;

fn main() {
    let cli = mc_core::parse_cli();
    mc_core::quiet_panics();
    if let Some(group) = cli.extra.get("worker") {
        harness::install_crash_handlers();
        let mut tasks = harness::Tasks::new(cli.tier, cli.seed);
        match cli.property.as_str() {
            "C05" => c05::run_group(&mut tasks, group),
            "C10" => c10::run_group(&mut tasks, group),
            "C16" => c16::run_group(&mut tasks, group),
            "C17" => c17::run_group(&mut tasks, group),
            other => mc_core::machinery_error(&format!("mc-codec worker does not serve {other}")),
        }
        let ctx = tasks.run();
        println!("WORKER-RESULT {}", ctx.to_json());
        return;
    }
    let report = Report::new(&cli);
    let groups: Vec<String> = match cli.property.as_str() {
        "C05" => c05::GROUPS.iter().map(|s| s.to_string()).collect(),
        "C10" => c10::GROUPS.iter().map(|s| s.to_string()).collect(),
        "C16" => c16::GROUPS.iter().map(|s| s.to_string()).collect(),
        "C17" => c17::GROUPS.iter().map(|s| s.to_string()).collect(),
        other => mc_core::machinery_error(&format!("mc-codec does not serve property {other}")),
    };
    let only = cli.extra.get("group").cloned();
    let groups: Vec<String> = groups.into_iter().filter(|g| only.as_deref().map(|o| o == g).unwrap_or(true)).collect();
    let results = harness::run_workers(&cli.property, cli.tier, &groups, &[]);
    harness::merge(&report, &results);
    let n = report.evaluations.load(std::sync::atomic::Ordering::Relaxed);
    report.state(n);
    report.transition(report.traces.load(std::sync::atomic::Ordering::Relaxed));
    report.nontrivial(n);
    match cli.property.as_str() {
        "C05" => {
            report.sample(json!({"type": "Payload", "derived_by": "field inflation", "input": "19ffff (ConfigureBaker bitmap with undefined bits)", "expected": "rejected, or re-encodes to the same bytes"}));
            report.set_technique("small-scope value enumeration per chain type (every enum variant, every Option both ways, collections of size 0/1/2/max, integers at 0/1/max) and, for every value, the complete byte neighbourhood of its encoding: every proper prefix, every single-bit flip, every 1/2/4/8-byte field at every offset set to 0 / all-ones / +1 / -1 / half / top bit, every byte removed or duplicated, trailing bytes, plus all byte strings of length <= 2; each decoded on the real Deserial implementation under a counting allocator in a crash-reporting worker process");
            report.set_rule("one case = one byte string decoded as one type: no panic / abort, peak allocation <= 4 MiB + 64 x input length, and if decoding succeeds over a consumed prefix p then re-encoding the result gives exactly p; valid encodings decode to an equal value consuming everything");
            report.assume("values of types without PartialEq are compared through their encodings");
            report.assume("group elements, proofs and keys come from seeded fixtures");
        }
        "C10" => {
            report.sample(json!({"type": "ILeb128(2)", "json": "-8192", "expected": "bytes 80 40 (the reference LEB128 encoding), back to \"-8192\""}));
            report.sample(json!({"type": "Enum with 257 variants", "json": {"V256": [7]}, "expected": "two-byte tag 00 01 then 07"}));
            report.set_technique("exhaustive enumeration of schema types of constructor depth <= 1 (thorough 2, quick: a spread of depth 2) over the full constructor alphabet (every size length, LEB128 constraints 1/2/10/37, arrays and byte arrays of 0/1/2/32, named / unnamed / empty fields, enums of 1, 2 and 257 variants, tagged enums with tags 0 and 255) with per-constructor boundary value sets judged by an independently written encoder of the contract-side layout; non-conforming values per constructor; all byte strings of length <= 2 and the byte neighbourhood of valid encodings under every type; all module schemas of versions 0-3 with 0-2 contracts x 0-2 functions in prefixed, unprefixed and base64 form");
            report.set_rule("one case = one (type, JSON) pair converted both ways, one non-conforming JSON, one (type, bytes) pair, or one schema round trip");
            report.assume("nesting beyond depth 32 and collections of zero-width elements with 32/64-bit length prefixes are outside the claim (observations O1, O2): the generator does not build them");
        }
        "C16" => {
            report.sample(json!({"type": "Amount", "text": "18446744073709.551616", "expected": "rejected (one micro CCD above the largest amount)"}));
            report.sample(json!({"type": "BTreeSet<u16>", "derived_by": "adjacent entries swapped", "expected": "rejected"}));
            report.set_technique("small-scope value enumeration per contract-side Serial/Deserial type with the exhaustive byte neighbourhood of every encoding (as C05) incl. the contextual size-length codecs and every adjacent swap / duplication in ordered collections; all strings up to length 5/6 over a per-grammar alphabet plus boundary literals against independently written recognisers of the documented amount / duration / name grammars; print-parse round trips on boundary values; every single-character substitution of base58check addresses; all pairs of a boundary alphabet for checked arithmetic against 128-bit arithmetic");
            report.set_rule("one case = one byte string decoded, one candidate text parsed, or one arithmetic operation; verdicts must agree with the reference (round trip / canonical re-encoding / grammar / 128-bit arithmetic)");
            report.assume("duration strings whose components or sum exceed 64 bits are outside the claim (observation O4)");
            report.assume("hash collections have no canonical encoding (iteration order); only round trip and totality are required of them");
        }
        "C17" => {
            report.sample(json!({"type": "cbor::Value", "value": "Tag(4, Array([Negative(5), Positive(18446744073709551615)]))", "expected": "round trip, deterministic encoding, trailing byte rejected"}));
            report.sample(json!({"type": "TokenOperations", "sequence": [1, 11, 9], "expected": "round trip incl. the unknown operation, byte-identical re-encoding"}));
            report.set_technique("exhaustive enumeration of all cbor::Value trees with <= 3 nodes over a 47-leaf boundary alphabet (and 4/5 nodes over 8 leaves), nesting chains to depth 64, a table of CBOR encoding deviations judged by the data model, structural value sets of every protocol-level token type with field-level deviations (each field removed / ill-typed / duplicated, undeclared fields under both decoding options), all token operation sequences of length <= 2/3 over 11 known and one unknown operation, token amounts on a (value, decimals) grid across CBOR / decimal string / JSON / rust_decimal, and the byte neighbourhood of encodings (as C05)");
            report.set_rule("one case = one value encoded and decoded, one deviation, one operation sequence, or one hostile byte string; round trips must be exact, encodings deterministic, trailing data rejected, deviations rejected or decoded to the data-model value, accepted hostile inputs must survive an encode / decode cycle");
            report.assume("NaN payloads and the simple values 20-22 written as Simple(_) are not generated (data-model identities)");
            report.assume("nesting deeper than 64 is outside the claim (observation O3)");
        }
        _ => {}
    }
    report.finish(true, json!({"tier": format!("{:?}", cli.tier), "groups": groups}));
}
